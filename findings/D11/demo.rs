// place at redis/tests/d11_sentinel_default.rs ; run: cargo test --offline -p deadpool-redis --features serde,cluster,sentinel --test d11_sentinel_default
//
// D11 (C19): a sentinel Config that names neither `urls` nor `connections` must use the default local
// server of that flavour - the one `sentinel::Config::default()` names (127.0.0.1:26379, the sentinel
// port) - not the default *redis* port 6379, where no sentinel listens.
#![cfg(all(feature = "sentinel", feature = "serde"))]

use std::net::TcpListener;
use std::sync::mpsc;
use std::time::Duration;

use deadpool_redis::sentinel::{Config, SentinelServerType};
use deadpool_redis::Runtime;

fn watch(port: u16, tx: mpsc::Sender<u16>) -> Option<std::thread::JoinHandle<()>> {
    let l = TcpListener::bind(("127.0.0.1", port)).ok()?;
    Some(std::thread::spawn(move || {
        if let Ok((_s, _)) = l.accept() {
            let _ = tx.send(port);
        }
    }))
}

#[tokio::test(flavor = "multi_thread", worker_threads = 2)]
async fn naming_neither_uses_the_default_sentinel() {
    let (tx, rx) = mpsc::channel();
    let a = watch(26379, tx.clone());
    let b = watch(6379, tx.clone());
    if a.is_none() || b.is_none() {
        eprintln!("ports 26379 / 6379 are in use on this machine: cannot observe; skipping");
        return;
    }
    // what a deserialised configuration that only sets the master name looks like
    let cfg: Config = serde_json_like();
    assert!(cfg.urls.is_none() && cfg.connections.is_none());
    let pool = cfg.create_pool(Some(Runtime::Tokio1)).unwrap();
    let p2 = pool.clone();
    let getter = tokio::spawn(async move {
        let _ = tokio::time::timeout(Duration::from_secs(5), p2.get()).await;
    });
    let first = rx.recv_timeout(Duration::from_secs(5)).expect("the pool did not try to reach any local server");
    getter.abort();
    assert_eq!(first, 26379, "a sentinel pool naming neither urls nor connections contacted port {first}, not the default sentinel port");
    // the Default impl names the same server
    let d = Config::default();
    let c = &d.connections.as_ref().unwrap()[0];
    assert_eq!(format!("{:?}", c.addr), format!("{:?}", deadpool_redis::ConnectionAddr::Tcp("127.0.0.1".into(), 26379)));
}

fn serde_json_like() -> Config {
    Config {
        urls: None,
        connections: None,
        server_type: SentinelServerType::Master,
        master_name: "mymaster".to_string(),
        node_connection_info: None,
        pool: None,
    }
}

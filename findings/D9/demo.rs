//! D9: `unmanaged::Pool::add()` / `try_add()` racing with `Pool::close()` can
//! leave the added object inside the closed pool.
//!
//! `try_add()` takes a permit from `size_semaphore`, forgets it and then calls
//! `_add()` which pushes the object to the queue. `close()` closes `semaphore`,
//! closes `size_semaphore` and then clears the queue. If the permit is obtained
//! just before `size_semaphore` is closed and the push happens after the
//! `clear()`, `try_add()` reports `Ok(())` although the pool is closed, the
//! closed pool reports `size == 1` and the object is never dropped while a pool
//! handle is alive.
//!
//! The test is a bounded stress loop. Per round a fresh `Pool::new(1)` is
//! shared by two threads which are released by a spin barrier: thread A adds a
//! `Tracked` object, thread B closes the pool. A small sweeping start offset
//! moves the two operations relative to each other in order to hit the window.
//!
//! Invariant checked after both operations finished (for every round):
//!
//! * `pool.status().size == 0`, and
//! * the add returned `Err((object, _))`, i.e. the object was handed back, or
//!   the add returned `Ok(())` and the destructor of the object ran exactly
//!   once (the object was added first and then removed by `close()`).
//!
//! Tunables (environment variables):
//!
//! * `D9_SECS`    time budget per test in seconds (default 60)
//! * `D9_ROUNDS`  max. number of rounds per worker pair (default unlimited)
//! * `D9_PAIRS`   number of concurrently running A/B thread pairs (default 4)
//! * `D9_SWEEP`   max. start offset in spin loop iterations (default 256)
//! * `D9_KEEP_GOING`  if set to `1` don't stop at the first violation but use
//!   the whole budget and count all violations (hit rate); the test still
//!   fails reporting the first violation

#![cfg(feature = "unmanaged")]

use std::{
    hint,
    sync::{
        atomic::{AtomicBool, AtomicU64, AtomicUsize, Ordering},
        mpsc, Arc, Mutex,
    },
    thread,
    time::{Duration, Instant},
};

use deadpool::unmanaged::{Pool, PoolError};

/// Object whose destructor is observable.
struct Tracked(Arc<AtomicUsize>);

impl Tracked {
    fn new(drops: &Arc<AtomicUsize>) -> Self {
        Self(drops.clone())
    }
}

impl Drop for Tracked {
    fn drop(&mut self) {
        let _ = self.0.fetch_add(1, Ordering::SeqCst);
    }
}

#[derive(Clone, Copy, Debug)]
enum Op {
    TryAdd,
    Add,
}

fn env_or<T: std::str::FromStr>(name: &str, default: T) -> T {
    std::env::var(name)
        .ok()
        .and_then(|v| v.parse().ok())
        .unwrap_or(default)
}

fn spin(n: usize) {
    for _ in 0..n {
        hint::spin_loop();
    }
}

/// Work item sent from thread B (which also drives the rounds) to thread A.
struct Job {
    pool: Pool<Tracked>,
    object: Tracked,
    barrier: Arc<AtomicUsize>,
    delay: usize,
}

type AddResult = Result<(), (Tracked, PoolError)>;

/// Thread A: adds the object to the pool.
fn adder(op: Op, jobs: mpsc::Receiver<Job>, results: mpsc::Sender<AddResult>) {
    let rt = tokio::runtime::Builder::new_current_thread()
        .build()
        .unwrap();
    for job in jobs {
        let Job {
            pool,
            object,
            barrier,
            delay,
        } = job;
        // spin barrier
        let _ = barrier.fetch_add(1, Ordering::SeqCst);
        while barrier.load(Ordering::SeqCst) < 2 {
            hint::spin_loop();
        }
        spin(delay);
        let result = match op {
            Op::TryAdd => pool.try_add(object),
            Op::Add => rt.block_on(pool.add(object)),
        };
        drop(pool);
        if results.send(result).is_err() {
            return;
        }
    }
}

#[derive(Default)]
struct Stats {
    rounds: AtomicU64,
    ok_dropped: AtomicU64,
    err_closed: AtomicU64,
    violations: AtomicU64,
}

/// Thread B of a pair: drives the rounds, closes the pool and checks the
/// invariant.
fn closer(
    op: Op,
    pair: usize,
    deadline: Instant,
    max_rounds: u64,
    sweep: usize,
    keep_going: bool,
    stop: &AtomicBool,
    stats: &Stats,
    failure: &Mutex<Option<String>>,
) {
    let (job_tx, job_rx) = mpsc::channel::<Job>();
    let (result_tx, result_rx) = mpsc::channel::<AddResult>();
    let a = thread::spawn(move || adder(op, job_rx, result_tx));

    let mut round: u64 = 0;
    while round < max_rounds && !stop.load(Ordering::Relaxed) && Instant::now() < deadline {
        // Sweeping start offset: even rounds delay A, odd rounds delay B.
        let offset = ((round / 2) as usize).wrapping_mul(7).wrapping_add(pair * 13) % (sweep + 1);
        let (delay_a, delay_b) = if round % 2 == 0 {
            (offset, 0)
        } else {
            (0, offset)
        };

        let drops = Arc::new(AtomicUsize::new(0));
        let pool = Pool::<Tracked>::new(1);
        let barrier = Arc::new(AtomicUsize::new(0));
        job_tx
            .send(Job {
                pool: pool.clone(),
                object: Tracked::new(&drops),
                barrier: barrier.clone(),
                delay: delay_a,
            })
            .unwrap();

        // spin barrier
        let _ = barrier.fetch_add(1, Ordering::SeqCst);
        while barrier.load(Ordering::SeqCst) < 2 {
            hint::spin_loop();
        }
        spin(delay_b);
        pool.close();

        // Wait for thread A to finish its operation. `close()` has returned
        // already, so both operations are complete from here on.
        let result = result_rx.recv().unwrap();

        let status = pool.status();
        let dropped = drops.load(Ordering::SeqCst);
        let _ = stats.rounds.fetch_add(1, Ordering::Relaxed);

        let violation = match &result {
            Ok(()) => {
                if dropped == 1 && status.size == 0 {
                    let _ = stats.ok_dropped.fetch_add(1, Ordering::Relaxed);
                    None
                } else {
                    Some(format!(
                        "{op:?} returned Ok(()) but the object is still inside the CLOSED pool: \
                         destructor ran {dropped} time(s) (expected 1)"
                    ))
                }
            }
            Err((_, e)) => {
                if dropped == 0 && status.size == 0 {
                    let _ = stats.err_closed.fetch_add(1, Ordering::Relaxed);
                    None
                } else {
                    Some(format!(
                        "{op:?} returned Err(_, {e:?}) but destructor ran {dropped} time(s) \
                         (expected 0) or size != 0"
                    ))
                }
            }
        };

        if let Some(what) = violation {
            let _ = stats.violations.fetch_add(1, Ordering::Relaxed);
            let msg = format!(
                "D9 violated in round {round} of pair {pair} (delay_a={delay_a}, \
                 delay_b={delay_b}): {what}; pool.is_closed()={}, pool.status()={:?}",
                pool.is_closed(),
                status,
            );
            let mut failure = failure.lock().unwrap();
            if failure.is_none() {
                *failure = Some(msg);
            }
            if !keep_going {
                stop.store(true, Ordering::Relaxed);
            }
        }

        // Hand the object back / release the pool before the next round.
        drop(result);
        drop(pool);
        round += 1;
    }

    drop(job_tx);
    a.join().unwrap();
}

fn stress(op: Op) {
    let secs: u64 = env_or("D9_SECS", 60);
    let max_rounds: u64 = env_or("D9_ROUNDS", u64::MAX);
    let pairs: usize = env_or("D9_PAIRS", 4);
    let sweep: usize = env_or("D9_SWEEP", 256);
    let keep_going = env_or("D9_KEEP_GOING", 0u8) == 1;

    let start = Instant::now();
    let deadline = start + Duration::from_secs(secs);
    let stop = AtomicBool::new(false);
    let stats = Stats::default();
    let failure = Mutex::new(None);

    thread::scope(|s| {
        for pair in 0..pairs {
            let (stop, stats, failure) = (&stop, &stats, &failure);
            let _ = s.spawn(move || {
                closer(
                    op, pair, deadline, max_rounds, sweep, keep_going, stop, stats, failure,
                )
            });
        }
    });

    let rounds = stats.rounds.load(Ordering::Relaxed);
    let summary = format!(
        "{op:?}: {rounds} rounds in {:.2?} ({pairs} pairs): {} x Ok+dropped by close(), \
         {} x Err(object handed back), {} violation(s)",
        start.elapsed(),
        stats.ok_dropped.load(Ordering::Relaxed),
        stats.err_closed.load(Ordering::Relaxed),
        stats.violations.load(Ordering::Relaxed),
    );
    println!("D9 summary: {summary}");

    let failure = failure.lock().unwrap().take();
    if let Some(msg) = failure {
        panic!("{msg}\nD9 summary: {summary}");
    }
}

/// `try_add()` racing with `close()`.
#[test]
fn d9_try_add_vs_close() {
    stress(Op::TryAdd);
}

/// `add().await` racing with `close()`.
#[test]
fn d9_add_vs_close() {
    stress(Op::Add);
}

// place at tests/d12_abandon_after_shrink.rs ; run: cargo test --offline --features rt_tokio_1,serde --test d12_abandon_after_shrink
//
// D12 (C03, same root as D1/C07): a get() abandoned during its recycle phase after a concurrent shrink
// releases its permit although the shrink still owed one.  The pool is NOT left "as if the call had never
// been made": without the abandoned call resize(1) removes the idle object and ends with one permit; with
// it the pool ends with two permits for max_size 1 and hands out two objects at once.
#![cfg(feature = "managed")]

use std::future::Future;
use std::pin::pin;
use std::sync::atomic::{AtomicBool, AtomicUsize, Ordering};
use std::sync::Arc;
use std::task::{Context, Poll, Wake, Waker};
use std::time::Duration;

use deadpool::managed::{Manager, Metrics, Pool, RecycleResult, Timeouts};

struct NoopWake;
impl Wake for NoopWake {
    fn wake(self: Arc<Self>) {}
}

struct Mgr {
    next: AtomicUsize,
    park_recycle: Arc<AtomicBool>,
}

impl Manager for Mgr {
    type Type = usize;
    type Error = ();
    async fn create(&self) -> Result<usize, ()> {
        Ok(self.next.fetch_add(1, Ordering::Relaxed))
    }
    async fn recycle(&self, _: &mut usize, _: &Metrics) -> RecycleResult<()> {
        if self.park_recycle.load(Ordering::Relaxed) {
            std::future::pending::<()>().await;
        }
        Ok(())
    }
}

fn nonblocking() -> Timeouts {
    Timeouts { wait: Some(Duration::ZERO), create: None, recycle: None }
}

/// history: A handed out, B idle, [a get() parks in recycle(B)], resize(1), [the get() is dropped], A returned.
async fn history(with_abandoned_get: bool) -> usize {
    let park = Arc::new(AtomicBool::new(false));
    let pool: Pool<Mgr> = Pool::builder(Mgr { next: AtomicUsize::new(0), park_recycle: park.clone() }).max_size(2).build().unwrap();
    let a = pool.get().await.unwrap();
    let b = pool.get().await.unwrap();
    drop(b); // B idle
    if with_abandoned_get {
        park.store(true, Ordering::Relaxed);
        let waker = Waker::from(Arc::new(NoopWake));
        let mut cx = Context::from_waker(&waker);
        {
            let mut fut = pin!(pool.get());
            assert!(matches!(fut.as_mut().poll(&mut cx), Poll::Pending)); // parked inside Manager::recycle(B)
            pool.resize(1);
            // the future is dropped here: the call is abandoned
        }
        park.store(false, Ordering::Relaxed);
    } else {
        pool.resize(1);
    }
    drop(a); // A returned
    // how many objects can be held at the same time now?
    let mut held = Vec::new();
    while let Ok(o) = pool.timeout_get(&nonblocking()).await {
        held.push(o);
        if held.len() > 4 {
            break;
        }
    }
    held.len()
}

#[tokio::test(flavor = "current_thread")]
async fn abandoned_get_leaves_the_pool_as_if_it_had_never_been_made() {
    let without = history(false).await;
    assert_eq!(without, 1, "reference history: resize(1) makes the limit 1");
    let with = history(true).await;
    assert_eq!(with, without, "after the same history plus one abandoned get() the pool hands out {with} objects at once (max_size 1)");
}

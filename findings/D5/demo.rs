#![cfg(feature = "unmanaged")]
//! D5: `unmanaged::Pool::status().waiting` is always 0 because `available` is
//! only decremented after an object was obtained, never while waiting.

use std::time::Duration;

use deadpool::unmanaged::Pool;

#[tokio::test]
async fn d5_status_waiting_counts_blocked_get() {
    let pool = Pool::from(vec![1]);
    let obj = pool.get().await.unwrap();
    assert_eq!(pool.status().available, 0);

    let pool2 = pool.clone();
    let waiter = tokio::spawn(async move { pool2.get().await.map(|o| *o) });
    // current_thread runtime: each yield lets the spawned task run until it
    // parks in `semaphore.acquire()`.
    for _ in 0..10 {
        tokio::task::yield_now().await;
    }
    assert!(!waiter.is_finished());
    let status = pool.status();

    drop(obj);
    let got = tokio::time::timeout(Duration::from_secs(5), waiter)
        .await
        .expect("waiter did not finish")
        .unwrap();
    assert_eq!(got.unwrap(), 1);

    assert_eq!(
        status.waiting, 1,
        "one task is blocked in get() but status() reported {:?}",
        status
    );
    assert_eq!(pool.status().waiting, 0);
    assert_eq!(pool.status().available, 1);
}

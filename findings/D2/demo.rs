#![cfg(feature = "managed")]
//! D2: objects released by a shrinking `resize()` or by `close()` are dropped
//! without `Manager::detach()` being called for them.

use std::{
    convert::Infallible,
    sync::atomic::{AtomicUsize, Ordering},
};

use deadpool::managed::{self, Metrics, Object, RecycleResult};

type Pool = managed::Pool<Manager, Object<Manager>>;

#[derive(Default)]
struct Manager {
    created: AtomicUsize,
    detached: AtomicUsize,
}

impl managed::Manager for Manager {
    type Type = usize;
    type Error = Infallible;

    async fn create(&self) -> Result<usize, Infallible> {
        Ok(self.created.fetch_add(1, Ordering::SeqCst))
    }

    async fn recycle(&self, _conn: &mut usize, _: &Metrics) -> RecycleResult<Infallible> {
        Ok(())
    }

    fn detach(&self, _obj: &mut usize) {
        self.detached.fetch_add(1, Ordering::SeqCst);
    }
}

#[tokio::test]
async fn d2_resize_shrink_and_close_detach_released_objects() {
    let pool = Pool::builder(Manager::default()).max_size(3).build().unwrap();
    let objs = vec![
        pool.get().await.unwrap(),
        pool.get().await.unwrap(),
        pool.get().await.unwrap(),
    ];
    drop(objs);
    assert_eq!(pool.manager().created.load(Ordering::SeqCst), 3);
    assert_eq!(pool.status().size, 3);
    assert_eq!(pool.status().available, 3);

    pool.resize(1);
    assert_eq!(pool.status().size, 1);
    assert_eq!(
        pool.manager().detached.load(Ordering::SeqCst),
        2,
        "resize(1) released 2 idle objects, detach() must be called for each"
    );

    pool.close();
    assert_eq!(pool.status().size, 0);
    assert_eq!(
        pool.manager().detached.load(Ordering::SeqCst),
        3,
        "resize(1)+close() released 3 objects, detach() must be called for each"
    );
}

#![cfg(feature = "managed")]
//! D3: a per-call recycle timeout on a pool without runtime makes
//! `apply_timeout` return `NoRuntimeSpecified`, which `try_recycle` swallows
//! with `.is_err()`: the healthy idle object is thrown away and a new one is
//! created instead of reporting the usage error.

use std::{
    convert::Infallible,
    sync::atomic::{AtomicUsize, Ordering},
    time::Duration,
};

use deadpool::managed::{self, Metrics, Object, PoolError, RecycleResult, Timeouts};

type Pool = managed::Pool<Manager, Object<Manager>>;

#[derive(Default)]
struct Manager {
    created: AtomicUsize,
    recycled: AtomicUsize,
    detached: AtomicUsize,
}

impl managed::Manager for Manager {
    type Type = usize;
    type Error = Infallible;

    async fn create(&self) -> Result<usize, Infallible> {
        Ok(self.created.fetch_add(1, Ordering::SeqCst))
    }

    async fn recycle(&self, _conn: &mut usize, _: &Metrics) -> RecycleResult<Infallible> {
        self.recycled.fetch_add(1, Ordering::SeqCst);
        Ok(())
    }

    fn detach(&self, _obj: &mut usize) {
        self.detached.fetch_add(1, Ordering::SeqCst);
    }
}

#[tokio::test]
async fn d3_recycle_timeout_without_runtime_is_reported() {
    // No runtime, no configured timeouts.
    let pool = Pool::builder(Manager::default()).max_size(1).build().unwrap();
    let obj = pool.get().await.unwrap();
    assert_eq!(*obj, 0);
    drop(obj);
    assert_eq!(pool.status().available, 1);

    let timeouts = Timeouts {
        recycle: Some(Duration::from_secs(1)),
        ..Timeouts::default()
    };
    let result = pool.timeout_get(&timeouts).await;
    let mgr = pool.manager();
    let summary = format!(
        "result={:?}, created={}, detached={}, recycle calls={}",
        result.as_ref().map(|o| **o),
        mgr.created.load(Ordering::SeqCst),
        mgr.detached.load(Ordering::SeqCst),
        mgr.recycled.load(Ordering::SeqCst),
    );
    assert!(
        matches!(result, Err(PoolError::NoRuntimeSpecified)),
        "expected Err(NoRuntimeSpecified): {summary}"
    );
    assert_eq!(
        mgr.created.load(Ordering::SeqCst),
        1,
        "the idle object was discarded and replaced: {summary}"
    );
}

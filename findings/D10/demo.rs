//! D10: `managed::Pool::resize()` tests `is_closed()` before it takes the
//! slots lock, so a `resize(n)` racing with `close()` can leave a CLOSED pool
//! with `status().max_size == n`. An object that was checked out before and
//! is returned afterwards is then pushed back into the idle queue and KEPT by
//! the closed pool (not detached, not dropped) instead of being discarded.
//!
//! Documented behaviour (`Pool::resize`, `Pool::close`): "If the pool is
//! closed this method does nothing. The `Pool::status` method always reports
//! a `max_size` of 0 for closed pools." / "This operation resizes the pool
//! to 0."
//!
//! Bounded two-thread stress loop (plain std threads, no async involved in
//! the race itself). Per round:
//!   pool(max_size = 2); check out one object and keep it;
//!   thread A: pool.close()        thread B: pool.resize(3)
//!   join; assert is_closed(), status().max_size == 0;
//!   drop the checked-out object; assert status().size == 0 and that the
//!   object was detached + dropped.
//!
//! Tunables (environment):
//!   D10_ROUNDS   max. number of rounds          (default 300000)
//!   D10_SECS     max. wall clock seconds        (default 30)
//!   D10_SWEEP    max. start offset in spin steps (default 48)
//!   D10_COUNT=1  do not stop at the first violating round; run the whole
//!                bounded loop, print the hit rate, then fail if any round
//!                violated.

#![cfg(feature = "managed")]

use std::{
    convert::Infallible,
    hint::spin_loop,
    sync::{
        atomic::{AtomicUsize, Ordering},
        Arc,
    },
    thread,
    time::{Duration, Instant},
};

use deadpool::managed::{self, Metrics, Object, RecycleResult};

type Pool = managed::Pool<Manager, Object<Manager>>;

/// Pooled object which counts its drops.
struct Tracked {
    drops: Arc<AtomicUsize>,
}

impl Drop for Tracked {
    fn drop(&mut self) {
        self.drops.fetch_add(1, Ordering::SeqCst);
    }
}

/// Trivial manager which counts `detach()` calls.
struct Manager {
    detached: Arc<AtomicUsize>,
    drops: Arc<AtomicUsize>,
}

impl managed::Manager for Manager {
    type Type = Tracked;
    type Error = Infallible;

    async fn create(&self) -> Result<Tracked, Infallible> {
        Ok(Tracked {
            drops: self.drops.clone(),
        })
    }

    async fn recycle(&self, _: &mut Tracked, _: &Metrics) -> RecycleResult<Infallible> {
        Ok(())
    }

    fn detach(&self, _: &mut Tracked) {
        self.detached.fetch_add(1, Ordering::SeqCst);
    }
}

fn env_u64(name: &str, default: u64) -> u64 {
    std::env::var(name)
        .ok()
        .and_then(|v| v.parse().ok())
        .unwrap_or(default)
}

/// Spin barrier for two threads followed by `delay` extra spin steps.
fn rendezvous(barrier: &AtomicUsize, delay: u64) {
    barrier.fetch_add(1, Ordering::SeqCst);
    while barrier.load(Ordering::SeqCst) < 2 {
        spin_loop();
    }
    for _ in 0..delay {
        spin_loop();
    }
}

/// Runs one round. Returns `Err(description)` if the round violated the
/// documented behaviour.
fn round(rt: &tokio::runtime::Runtime, round: u64, offset: i64) -> Result<(), String> {
    let detached = Arc::new(AtomicUsize::new(0));
    let drops = Arc::new(AtomicUsize::new(0));
    let pool: Pool = Pool::builder(Manager {
        detached: detached.clone(),
        drops: drops.clone(),
    })
    .max_size(2)
    .build()
    .unwrap();

    // Check out one object and keep it across close()/resize().
    let obj = rt.block_on(pool.get()).unwrap();
    let before = pool.status();
    assert_eq!((before.max_size, before.size), (2, 1));

    // offset > 0: B (resize) starts later, offset < 0: A (close) starts later
    let (delay_a, delay_b) = if offset >= 0 {
        (0, offset as u64)
    } else {
        (offset.unsigned_abs(), 0)
    };
    let barrier = AtomicUsize::new(0);
    thread::scope(|s| {
        let a = s.spawn(|| {
            rendezvous(&barrier, delay_a);
            pool.close();
        });
        let b = s.spawn(|| {
            rendezvous(&barrier, delay_b);
            pool.resize(3);
        });
        a.join().unwrap();
        b.join().unwrap();
    });

    // Both calls have returned. The pool is closed for good.
    let mut violations = Vec::new();
    assert!(pool.is_closed(), "round {round}: pool not closed after close()");
    let after_close = pool.status();
    if after_close.max_size != 0 {
        violations.push(format!(
            "closed pool reports max_size {} (expected 0), status after close()+resize(3): {:?}",
            after_close.max_size, after_close
        ));
    }

    // Return the object that was checked out before close(). A closed pool
    // has to discard it.
    drop(obj);
    let after_return = pool.status();
    let detached = detached.load(Ordering::SeqCst);
    let drops = drops.load(Ordering::SeqCst);
    if after_return.size != 0 || detached != 1 || drops != 1 {
        violations.push(format!(
            "object returned to the closed pool was KEPT instead of discarded: \
             status after return: {:?} (expected size 0), detach() calls: {} (expected 1), \
             objects dropped: {} (expected 1)",
            after_return, detached, drops
        ));
    }

    if violations.is_empty() {
        Ok(())
    } else {
        Err(format!(
            "round {round} (start offset {offset}): is_closed()={}; {}",
            pool.is_closed(),
            violations.join("; ")
        ))
    }
}

#[test]
fn d10_resize_racing_with_close_must_not_reopen_capacity() {
    let max_rounds = env_u64("D10_ROUNDS", 300_000);
    let max_time = Duration::from_secs(env_u64("D10_SECS", 30));
    let sweep = env_u64("D10_SWEEP", 48) as i64;
    let count_all = std::env::var("D10_COUNT").map(|v| v == "1").unwrap_or(false);

    let rt = tokio::runtime::Builder::new_current_thread()
        .build()
        .unwrap();

    let start = Instant::now();
    let mut rounds = 0u64;
    let mut hits = 0u64;
    let mut first: Option<String> = None;
    while rounds < max_rounds && start.elapsed() < max_time {
        // sweep the start offset through -sweep..=sweep
        let offset = (rounds % (2 * sweep as u64 + 1)) as i64 - sweep;
        let result = round(&rt, rounds, offset);
        rounds += 1;
        if let Err(msg) = result {
            hits += 1;
            if !count_all {
                panic!(
                    "D10 violated after {rounds} round(s) / {:?}: {msg}",
                    start.elapsed()
                );
            }
            first.get_or_insert(msg);
        }
    }
    eprintln!(
        "D10: {rounds} rounds in {:?}, {hits} violating round(s) ({:.4} %)",
        start.elapsed(),
        100.0 * hits as f64 / rounds.max(1) as f64
    );
    if let Some(msg) = first {
        panic!("D10 violated in {hits} of {rounds} rounds; first: {msg}");
    }
}

//! D8: `Config::get_pg_config()` silently ignores the `target_session_attrs`,
//! `channel_binding` and `load_balance_hosts` fields.
//! Needs no database server: only the generated `tokio_postgres::Config` is
//! inspected.

use deadpool_postgres::{
    tokio_postgres, ChannelBinding, Config, LoadBalanceHosts, TargetSessionAttrs,
};

#[test]
fn d8_get_pg_config_applies_session_attrs_channel_binding_load_balance() {
    let cfg = Config {
        dbname: Some("x".to_string()),
        target_session_attrs: Some(TargetSessionAttrs::ReadWrite),
        channel_binding: Some(ChannelBinding::Require),
        load_balance_hosts: Some(LoadBalanceHosts::Random),
        ..Config::default()
    };
    let pg = cfg.get_pg_config().unwrap();
    assert_eq!(pg.get_dbname(), Some("x"));

    let mut ignored = Vec::new();
    if pg.get_target_session_attrs() != tokio_postgres::config::TargetSessionAttrs::ReadWrite {
        ignored.push(format!(
            "target_session_attrs={:?} (expected ReadWrite)",
            pg.get_target_session_attrs()
        ));
    }
    if pg.get_channel_binding() != tokio_postgres::config::ChannelBinding::Require {
        ignored.push(format!(
            "channel_binding={:?} (expected Require)",
            pg.get_channel_binding()
        ));
    }
    if pg.get_load_balance_hosts() != tokio_postgres::config::LoadBalanceHosts::Random {
        ignored.push(format!(
            "load_balance_hosts={:?} (expected Random)",
            pg.get_load_balance_hosts()
        ));
    }
    assert!(
        ignored.is_empty(),
        "get_pg_config() ignored configured fields: {}",
        ignored.join(", ")
    );
}

#![cfg(feature = "managed")]
//! D6: `Object::drop` -> `return_object()` pushes the object onto the queue,
//! unlocks the slots mutex and only then adds the permit. A concurrent
//! `close()` whose `resize(0)` runs in that gap sees `size 1 > max_size 0` but
//! finds no permit to pair with the queued object, gives up and closes the
//! semaphore. The object then sits in the closed pool forever:
//! `status().size == 1` and its destructor does not run while a pool handle
//! is alive.
//!
//! Threaded stress test: every round uses a fresh pool (max_size 1) whose
//! single object is checked out. Thread A drops the `Object`, thread B calls
//! `close()`, both released at the same instant by a spin barrier (plus a
//! small sweeping start offset). After both finished, the closed pool must be
//! empty and the object's destructor must have run.
//!
//! Tunables: DEMO_D6_ROUNDS (default 65_536; pool construction dominates the run time,
//! `Pool::builder` parses /proc/cpuinfo via num_cpus every time), DEMO_D6_SECS (default 60).

use std::{
    convert::Infallible,
    hint::spin_loop,
    sync::{
        atomic::{AtomicUsize, Ordering},
        Arc,
    },
    thread,
    time::{Duration, Instant},
};

use deadpool::managed::{self, Metrics, Object, RecycleResult};

type Pool = managed::Pool<Manager, Object<Manager>>;

const BATCH: usize = 4096;

/// Pooled object that counts how often it has been destroyed.
struct Tracked(Arc<AtomicUsize>);

impl Drop for Tracked {
    fn drop(&mut self) {
        self.0.fetch_add(1, Ordering::SeqCst);
    }
}

struct Manager {
    drops: Arc<AtomicUsize>,
}

impl managed::Manager for Manager {
    type Type = Tracked;
    type Error = Infallible;

    async fn create(&self) -> Result<Tracked, Infallible> {
        Ok(Tracked(self.drops.clone()))
    }

    async fn recycle(&self, _conn: &mut Tracked, _: &Metrics) -> RecycleResult<Infallible> {
        Ok(())
    }
}

fn env_usize(name: &str, default: usize) -> usize {
    std::env::var(name)
        .ok()
        .and_then(|v| v.parse().ok())
        .unwrap_or(default)
}

/// Reusable two-party spin barrier.
struct SpinBarrier {
    arrived: AtomicUsize,
}

impl SpinBarrier {
    fn wait(&self, generation: usize) {
        self.arrived.fetch_add(1, Ordering::AcqRel);
        while self.arrived.load(Ordering::Acquire) < 2 * (generation + 1) {
            spin_loop();
        }
    }
}

#[inline(never)]
fn delay(n: usize) {
    for _ in 0..n {
        spin_loop();
    }
}

#[tokio::test(flavor = "multi_thread", worker_threads = 1)]
async fn d6_object_returned_during_close_is_released() {
    let rounds = env_usize("DEMO_D6_ROUNDS", 65_536);
    let deadline = Instant::now() + Duration::from_secs(env_usize("DEMO_D6_SECS", 60) as u64);
    let mut done = 0usize;

    while done < rounds && Instant::now() < deadline {
        // Fresh pools, each with its only object checked out.
        let mut pools = Vec::with_capacity(BATCH);
        let mut objs = Vec::with_capacity(BATCH);
        for _ in 0..BATCH {
            let drops = Arc::new(AtomicUsize::new(0));
            let pool = Pool::builder(Manager {
                drops: drops.clone(),
            })
            .max_size(1)
            .build()
            .unwrap();
            objs.push(pool.get().await.unwrap());
            pools.push((pool, drops));
        }
        let pools = Arc::new(pools);
        let barrier = Arc::new(SpinBarrier {
            arrived: AtomicUsize::new(0),
        });

        // Thread B: close()
        let closer = {
            let (pools, barrier) = (pools.clone(), barrier.clone());
            thread::spawn(move || {
                for (i, (pool, _)) in pools.iter().enumerate() {
                    barrier.wait(i);
                    delay(i % 16);
                    pool.close();
                }
            })
        };
        // Thread A: drop(Object)
        let dropper = {
            let barrier = barrier.clone();
            thread::spawn(move || {
                for (i, obj) in objs.into_iter().enumerate() {
                    barrier.wait(i);
                    delay((i / 16) % 16);
                    drop(obj);
                }
            })
        };
        closer.join().unwrap();
        dropper.join().unwrap();

        for (i, (pool, drops)) in pools.iter().enumerate() {
            let status = pool.status();
            let drops = drops.load(Ordering::SeqCst);
            assert!(pool.is_closed());
            assert!(
                status.size == 0 && drops == 1,
                "round {}: closed pool still holds the returned object: {:?}, destructor ran {} times",
                done + i,
                status,
                drops
            );
        }
        done += BATCH;
    }
    println!("rounds={done}");
}

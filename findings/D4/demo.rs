#![cfg(feature = "unmanaged")]
//! D4: `unmanaged::Pool::try_get()` (and `timeout_get()`) acquire a permit and
//! then do `queue.pop().unwrap()`. A concurrent `close()` that closes the
//! semaphore and clears the queue in between makes the `unwrap()` panic.
//!
//! Threaded stress test: every round uses a fresh pool holding one object,
//! thread A calls `try_get()`, thread B calls `close()`, both released at the
//! same instant by a spin barrier (plus a small sweeping start offset so the
//! two calls overlap in every possible alignment). The only acceptable
//! outcomes of `try_get()` are `Ok(_)` and `Err(Closed)`; a panic fails the
//! test.
//!
//! Tunables: DEMO_D4_ROUNDS (default 2_000_000), DEMO_D4_SECS (default 60).

use std::{
    hint::spin_loop,
    panic::{catch_unwind, AssertUnwindSafe},
    sync::{
        atomic::{AtomicBool, AtomicUsize, Ordering},
        Arc,
    },
    thread,
    time::{Duration, Instant},
};

use deadpool::unmanaged::{Pool, PoolError};

const BATCH: usize = 4096;

fn env_usize(name: &str, default: usize) -> usize {
    std::env::var(name)
        .ok()
        .and_then(|v| v.parse().ok())
        .unwrap_or(default)
}

/// Reusable two-party spin barrier.
struct SpinBarrier {
    arrived: AtomicUsize,
}

impl SpinBarrier {
    fn wait(&self, generation: usize) {
        self.arrived.fetch_add(1, Ordering::AcqRel);
        while self.arrived.load(Ordering::Acquire) < 2 * (generation + 1) {
            spin_loop();
        }
    }
}

#[inline(never)]
fn delay(n: usize) {
    for _ in 0..n {
        spin_loop();
    }
}

#[test]
fn d4_try_get_racing_with_close_must_not_panic() {
    let rounds = env_usize("DEMO_D4_ROUNDS", 2_000_000);
    let deadline = Instant::now() + Duration::from_secs(env_usize("DEMO_D4_SECS", 60) as u64);

    let mut done = 0usize;
    let mut got_obj = 0usize;
    let mut got_closed = 0usize;
    let mut panic_msg: Option<String> = None;

    while done < rounds && Instant::now() < deadline && panic_msg.is_none() {
        let pools: Arc<Vec<Pool<usize>>> =
            Arc::new((0..BATCH).map(|_| Pool::from(vec![0usize])).collect());
        let barrier = Arc::new(SpinBarrier {
            arrived: AtomicUsize::new(0),
        });
        let stop = Arc::new(AtomicBool::new(false));

        // Thread B: close()
        let closer = {
            let (pools, barrier, stop) = (pools.clone(), barrier.clone(), stop.clone());
            thread::spawn(move || {
                for (i, pool) in pools.iter().enumerate() {
                    barrier.wait(i);
                    if stop.load(Ordering::Relaxed) {
                        break;
                    }
                    delay(i % 16);
                    pool.close();
                }
            })
        };

        // Thread A: try_get()
        let getter = {
            let (pools, barrier, stop) = (pools.clone(), barrier.clone(), stop.clone());
            thread::spawn(move || {
                let mut ok = 0usize;
                let mut closed = 0usize;
                for (i, pool) in pools.iter().enumerate() {
                    barrier.wait(i);
                    delay((i / 16) % 16);
                    match catch_unwind(AssertUnwindSafe(|| pool.try_get())) {
                        Ok(Ok(obj)) => {
                            ok += 1;
                            drop(obj);
                        }
                        Ok(Err(PoolError::Closed)) => closed += 1,
                        Ok(Err(e)) => {
                            stop.store(true, Ordering::Relaxed);
                            // let the closer leave its barrier
                            barrier.arrived.fetch_add(2 * BATCH, Ordering::AcqRel);
                            return Err((i, format!("unexpected error {e:?}")));
                        }
                        Err(payload) => {
                            stop.store(true, Ordering::Relaxed);
                            barrier.arrived.fetch_add(2 * BATCH, Ordering::AcqRel);
                            let msg = payload
                                .downcast_ref::<String>()
                                .cloned()
                                .or_else(|| payload.downcast_ref::<&str>().map(|s| s.to_string()))
                                .unwrap_or_else(|| "<non-string panic>".into());
                            return Err((i, msg));
                        }
                    }
                }
                Ok((ok, closed))
            })
        };

        match getter.join().unwrap() {
            Ok((ok, closed)) => {
                got_obj += ok;
                got_closed += closed;
                done += BATCH;
            }
            Err((i, msg)) => {
                done += i + 1;
                panic_msg = Some(msg);
            }
        }
        closer.join().unwrap();
    }

    println!("rounds={done} try_get Ok={got_obj} Closed={got_closed}");
    assert!(
        panic_msg.is_none(),
        "try_get() racing with close() panicked in round {done}: {}",
        panic_msg.unwrap()
    );
    assert!(
        got_obj > 0 && got_closed > 0,
        "stress did not exercise both orders (Ok={got_obj}, Closed={got_closed})"
    );
}

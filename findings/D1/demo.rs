#![cfg(feature = "managed")]
//! D1: `Pool::resize()` only removes permits while `size > max_size`, so a
//! shrink leaves free permits behind and the pool can exceed `max_size`.
//! There is NO fix for this one: both tests fail before and after the fixes.

use std::{convert::Infallible, time::Duration};

use deadpool::managed::{self, Metrics, Object, PoolError, RecycleResult, Timeouts, TimeoutType};

type Pool = managed::Pool<Manager, Object<Manager>>;

struct Manager {}

impl managed::Manager for Manager {
    type Type = ();
    type Error = Infallible;

    async fn create(&self) -> Result<(), Infallible> {
        Ok(())
    }

    async fn recycle(&self, _conn: &mut (), _: &Metrics) -> RecycleResult<Infallible> {
        Ok(())
    }
}

fn non_blocking() -> Timeouts {
    Timeouts {
        wait: Some(Duration::ZERO),
        ..Timeouts::default()
    }
}

/// a: shrinking an empty pool to 0 must not leave a usable permit behind.
#[tokio::test]
async fn d1a_resize_to_zero_of_empty_pool_still_hands_out_objects() {
    let pool = Pool::builder(Manager {}).max_size(1).build().unwrap();
    assert_eq!(pool.status().size, 0);
    pool.resize(0);
    assert_eq!(pool.status().max_size, 0);
    let result = pool.timeout_get(&non_blocking()).await;
    let status = pool.status();
    assert!(
        matches!(result, Err(PoolError::Timeout(TimeoutType::Wait))),
        "pool with max_size 0 handed out an object: result is_ok={}, status={:?}",
        result.is_ok(),
        status
    );
    assert!(
        status.size <= status.max_size,
        "size exceeds max_size: {:?}",
        status
    );
}

/// b: shrink + grow while all objects are borrowed mints an extra permit.
#[tokio::test]
async fn d1b_shrink_then_grow_with_borrowed_objects_exceeds_max_size() {
    let pool = Pool::builder(Manager {}).max_size(2).build().unwrap();
    let obj0 = pool.get().await.unwrap();
    let obj1 = pool.get().await.unwrap();
    pool.resize(1);
    pool.resize(2);
    assert_eq!(pool.status().max_size, 2);
    let third = pool.timeout_get(&non_blocking()).await;
    let status = pool.status();
    let live = 2 + usize::from(third.is_ok());
    assert!(
        matches!(third, Err(PoolError::Timeout(TimeoutType::Wait))),
        "third get succeeded: {} live objects with max_size {}, status={:?}",
        live,
        status.max_size,
        status
    );
    drop((obj0, obj1));
}

#!/usr/bin/env python3
"""Apply behaviour-preserving refactorings (patch.diff files) to scratch copies of /repo and run every check on them.
Any non-zero exit is a false alarm (1) or a non-verdict (2) to look at.   usage: eval_refactors.py <dir with */patch.diff> [jobs]"""
import glob, json, os, re, shutil, subprocess, sys, tempfile
from concurrent.futures import ThreadPoolExecutor
VERIF = os.path.dirname(os.path.dirname(os.path.abspath(__file__)))

def one(args):
    d, cache = args
    rid = os.path.basename(d)
    work = tempfile.mkdtemp(prefix='dpref_%s_' % rid, dir='/tmp')
    try:
        subprocess.run(['rsync', '-a', '--exclude', '/target', '--exclude', '.git', '/repo/', work + '/'], check=True)
        r = subprocess.run(['patch', '-p1', '-s', '-i', os.path.join(d, 'patch.diff')], cwd=work, capture_output=True, text=True)
        if r.returncode != 0:
            return rid, 'PATCH-FAILED', {}
        env = dict(os.environ, DP_REPO=work, DP_CACHE=cache)
        bad = {}
        for i in range(1, 20):
            pid = 'C%02d' % i
            c = subprocess.run([os.path.join(VERIF, 'check'), pid, '--no-evidence'], env=env, capture_output=True, text=True)
            if c.returncode != 0:
                bad[pid] = (c.returncode, [l for l in c.stdout.splitlines() if l.startswith(('  rule', '  at', 'UNDECIDED', 'MACHINERY', '  '))][:9])
        return rid, 'ok', bad
    finally:
        shutil.rmtree(work, ignore_errors=True)

def main():
    root = os.path.abspath(sys.argv[1])
    jobs = int(sys.argv[2]) if len(sys.argv) > 2 else 4
    ds = sorted(x for x in glob.glob(os.path.join(root, '*')) if os.path.exists(os.path.join(x, 'patch.diff')))
    base = tempfile.mkdtemp(prefix='dpref_cache_', dir='/tmp')
    try:
        import queue
        q = queue.Queue()
        for k in range(jobs):
            c = os.path.join(base, 'c%d' % k); os.makedirs(c)
            subprocess.run(['cp', '-a', os.path.join(VERIF, '.cache', 'target'), os.path.join(c, 'target')])
            q.put(c)
        def run(d):
            c = q.get()
            try:
                return one((d, c))
            finally:
                q.put(c)
        with ThreadPoolExecutor(max_workers=jobs) as ex:
            res = list(ex.map(run, ds))
    finally:
        shutil.rmtree(base, ignore_errors=True)
    n_bad = 0
    for rid, st, bad in res:
        if st != 'ok':
            n_bad += 1; print(rid, st); continue
        if bad:
            n_bad += 1
            print('%-6s NOT-QUIET %s' % (rid, {k: v[0] for k, v in bad.items()}))
            for k, v in bad.items():
                for l in v[1]:
                    print('        ', k, l[:230])
        else:
            print('%-6s quiet' % rid)
    print('refactorings: %d, not quiet: %d' % (len(res), n_bad))

if __name__ == '__main__':
    main()

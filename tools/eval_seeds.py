#!/usr/bin/env python3
"""Apply every kept seed (seeded/<id>/patch.diff) to a scratch copy of /repo and run its own property's check.
Expected: exit 1 (reported).   usage: eval_seeds.py [jobs]"""
import glob, json, os, shutil, subprocess, sys, tempfile, queue
from concurrent.futures import ThreadPoolExecutor
VERIF = os.path.dirname(os.path.dirname(os.path.abspath(__file__)))

def one(d, cache):
    sid = os.path.basename(d)
    prop = sid.split('-')[0]
    work = tempfile.mkdtemp(prefix='dpseed_%s_' % sid, dir='/tmp')
    try:
        subprocess.run(['rsync', '-a', '--exclude', '/target', '--exclude', '.git', '/repo/', work + '/'], check=True)
        r = subprocess.run(['patch', '-p1', '-s', '-i', os.path.join(d, 'patch.diff')], cwd=work, capture_output=True, text=True)
        if r.returncode != 0:
            return sid, 'PATCH-FAILED', []
        env = dict(os.environ, DP_REPO=work, DP_CACHE=cache)
        c = subprocess.run([os.path.join(VERIF, 'check'), prop, '--no-evidence'], env=env, capture_output=True, text=True)
        rules = sorted({l.split()[1].rstrip(',') for l in c.stdout.splitlines() if l.startswith('  rule')})
        return sid, {0: 'MISSED', 1: 'detected', 2: 'UNDECIDED', 3: 'MACHINERY'}.get(c.returncode, str(c.returncode)), rules
    finally:
        shutil.rmtree(work, ignore_errors=True)

def main():
    jobs = int(sys.argv[1]) if len(sys.argv) > 1 else 6
    ds = sorted(x for x in glob.glob(os.path.join(VERIF, 'seeded', os.environ.get('DP_SEED_GLOB', 'C*'))) if os.path.exists(os.path.join(x, 'patch.diff')))
    base = tempfile.mkdtemp(prefix='dpseed_cache_', dir='/tmp')
    try:
        q = queue.Queue()
        for k in range(jobs):
            c = os.path.join(base, 'c%d' % k); os.makedirs(c)
            subprocess.run(['cp', '-a', os.path.join(VERIF, '.cache', 'target'), os.path.join(c, 'target')])
            q.put(c)
        def run(d):
            c = q.get()
            try:
                return one(d, c)
            finally:
                q.put(c)
        with ThreadPoolExecutor(max_workers=jobs) as ex:
            res = list(ex.map(run, ds))
    finally:
        shutil.rmtree(base, ignore_errors=True)
    bad = 0
    for sid, st, rules in res:
        print('%-8s %-10s %s' % (sid, st, ' '.join(rules)))
        bad += st != 'detected'
    print('seeds: %d, not detected: %d' % (len(res), bad))
    return 1 if bad else 0

if __name__ == '__main__':
    sys.exit(main())

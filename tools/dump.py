#!/usr/bin/env python3
"""dump.py <body-name-substring> [--raw]  (env DP_REPO) — print the fact-level MIR of matching bodies (normalised unless --raw)"""
import os, sys
sys.path.insert(0, os.path.dirname(os.path.dirname(os.path.abspath(__file__))))
from dprules import extract, facts, analysis, inline
crates = facts.load_dir(extract.facts_for("full")[0])
prog = analysis.Prog(crates)
if '--raw' not in sys.argv:
    # (the same pipeline as ./check: devirtualised futures, representation pre-pass, role-keeping normal form)
    inline.devirtualise_boxed_futures(prog)
    inline.normalise(prog, inline.DEADPOOL_CRATES, (), only_newtypes=True)
    inline.normalise(prog, inline.DEADPOOL_CRATES, inline.default_keep(prog))
for n, b in sorted(prog.bodies.items()):
    if sys.argv[1] in n:
        print('=====', n); print(b.dump())

#!/usr/bin/env python3
"""Regenerate MANIFEST.json from the rule modules that exist (keeps it valid at all times)."""
import importlib, json, os, sys
HERE = os.path.dirname(os.path.dirname(os.path.abspath(__file__)))
sys.path.insert(0, HERE)
props = [json.loads(l) for l in open(os.path.join(HERE, 'properties.jsonl'))]
NA = {}
na_path = os.path.join(HERE, 'tools', 'not_applicable.json')
if os.path.exists(na_path):
    NA = json.load(open(na_path))
man = {
    "version": 1,
    "setup_cmd": "cd /verif/dpa && cargo build --release --offline && cd /verif && python3 dprules/extract.py full",
    "hooks": {
        "guard": "deadpool_verif",
        "enable": "none needed: the checks analyse the unmodified sources through a rustc_private driver injected with RUSTC_WORKSPACE_WRAPPER; no cfg-guarded code exists in /repo",
        "baseline_off_cmd": "cd /repo && (cargo nextest run --workspace --no-fail-fast --test-threads 8 --offline || cargo test --workspace --no-fail-fast --offline)",
        "source_commits": [],
        "add_only": True,
    },
    "engines": [
        {"name": "dpa", "path": "dpa/", "serves_properties": [], "kind_free_text": "rustc_private driver exporting mir_built event CFGs (unwind + coroutine-drop edges), coroutine layouts, ADTs and impls as JSON facts"},
        {"name": "dprules", "path": "dprules/", "serves_properties": [], "kind_free_text": "Python rule engine: role binding by type / public API, dominators, must-pass-through, must/may-init dataflow, inventories, match tables, def-use origins"},
    ],
    "checks": [],
    "not_applicable": [],
    "notes": "Technique family: static analysis only. Fix commits in /repo: see known_findings.json. DESIGN.md describes rules per property.",
}
for p in props:
    pid = p['id']
    try:
        mod = importlib.import_module('dprules.rules_' + pid)
    except ImportError:
        mod = None
    if mod is None or pid in NA:
        man['not_applicable'].append({"property_id": pid, "reason": NA.get(pid, "check not built yet (work in progress)")})
        continue
    for e in man['engines']:
        e['serves_properties'].append(pid)
    man['checks'].append({
        "property_id": pid,
        "quick_cmd": "./check %s --tier quick" % pid,
        "thorough_cmd": "./check %s --tier thorough" % pid,
        "evidence_file": "/verif/evidence/%s.json" % pid,
        "replay_cmd_template": "./check %s --explain {path}" % pid,
        "engine": "dpa+dprules",
        "level_claimed": {
            "category": "other",
            "text": "static analysis: " + getattr(mod, 'LEVEL_TEXT', '') + ". Every rule instance of the property's structural clauses is discharged on the current tree; these are necessary conditions of the behavioural statement, which itself is not proven (see not_decided in the evidence).",
            "design_ref": "DESIGN.md section 6, " + pid,
        },
        "level_note": "trusted: rustc MIR construction / coroutine layout / callee resolution, the libraries deadpool is built on (tokio, std, backend crates); the rule tables and role bindings, which are printed in the evidence",
        "technique": getattr(mod, 'TECHNIQUE', 'custom MIR-level static analysis'),
    })
json.dump(man, open(os.path.join(HERE, 'MANIFEST.json'), 'w'), indent=1)
print('claimed:', [c['property_id'] for c in man['checks']])
print('not applicable:', [c['property_id'] for c in man['not_applicable']])

#!/bin/sh
# usage: try_patch.sh <patch.diff> <scratch dir> [checks...]   — scratch copy of /repo with the patch applied; runs the given checks against it
set -e
P=$(realpath "$1"); W="$2"; shift 2
rm -rf "$W"; mkdir -p "$W"
rsync -a --exclude /target --exclude .git /repo/ "$W/"
(cd "$W" && patch -p1 -s -i "$P")
for c in "$@"; do DP_REPO="$W" "$(dirname "$0")/../check" "$c" --no-evidence | grep -v '^INFO' | cut -c1-300 || true; done

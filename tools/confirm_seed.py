#!/usr/bin/env python3
"""Confirm a seeded change independently and run the checks against it.

usage: confirm_seed.py <seed_dir> [--skip-confirm]
 1. in a scratch worktree of /repo (under /tmp): demo passes on the clean tree, fails with the patch,
    the existing suite of the touched package(s) passes with the patch;
 2. apply the patch to /repo (git apply), run every check, undo (git checkout -- .);
 3. copy patch.diff, demo.rs, meta.json (+ our results) to /verif/seeded/<id>/."""
import json, os, re, shutil, subprocess, sys, time

VERIF = os.path.dirname(os.path.dirname(os.path.abspath(__file__)))
REPO = '/repo'
WT = os.environ.get('DP_CONFIRM_WT', '/tmp/dp_confirm_wt')
CCACHE = WT + '_cache'


def sh(cmd, cwd=None, timeout=3000):
    r = subprocess.run(cmd, shell=True, cwd=cwd, capture_output=True, text=True, timeout=timeout)
    return r.returncode, (r.stdout + r.stderr)


def main():
    seed = sys.argv[1].rstrip('/')
    sid = os.path.basename(seed)
    skip = '--skip-confirm' in sys.argv
    meta = json.load(open(os.path.join(seed, 'meta.json')))
    patch = os.path.join(seed, 'patch.diff')
    demo = open(os.path.join(seed, 'demo.rs')).read()
    m = re.search(r'place at (\S+)', demo.splitlines()[0] + ' ' + (demo.splitlines()[1] if len(demo.splitlines()) > 1 else ''))
    place = m.group(1).rstrip('.,;') if m else 'tests/seed_demo.rs'
    pkg = 'deadpool'
    for d in ('postgres', 'redis', 'sqlite', 'r2d2', 'diesel', 'sync', 'runtime'):
        if place.startswith(d + '/'):
            pkg = {'runtime': 'deadpool-runtime', 'sync': 'deadpool-sync'}.get(d, 'deadpool-' + d)
    tname = os.path.splitext(os.path.basename(place))[0]
    feats = {'deadpool': '--features rt_tokio_1,serde', 'deadpool-diesel': '--features sqlite', 'deadpool-redis': '--features serde,cluster,sentinel',
             'deadpool-postgres': '--features serde', 'deadpool-sqlite': '--features serde'}.get(pkg, '')
    res = {'seed': sid, 'property': meta.get('property'), 'demo_place': place, 'package': pkg}
    if not skip:
        if not os.path.isdir(WT):
            rc, out = sh('git -C %s worktree add --detach %s HEAD' % (REPO, WT))
            if rc != 0:
                print(out); return 3
        sh('git checkout -- . && git clean -fdq -e target', cwd=WT)
        sh('git checkout --detach $(git -C %s rev-parse HEAD)' % REPO, cwd=WT)
        os.makedirs(os.path.dirname(os.path.join(WT, place)), exist_ok=True)
        shutil.copy(os.path.join(seed, 'demo.rs'), os.path.join(WT, place))
        # a demonstration that needs the release profile says so in its header (`run: cargo test --offline --release ..`)
        rel = '--release ' if '--release' in ' '.join(demo.splitlines()[:3]) else ''
        cmd = 'cargo test --offline %s-p %s %s --test %s' % (rel, pkg, feats, tname)
        res['demo_profile'] = 'release' if rel else 'dev'
        rc0, out0 = sh(cmd, cwd=WT)
        res['demo_clean'] = 'PASS' if rc0 == 0 else 'FAIL'
        rc, out = sh('git apply %s' % patch, cwd=WT)
        if rc != 0:
            res['apply'] = 'FAILED: ' + out[-300:]
        else:
            rc1, out1 = sh(cmd, cwd=WT)
            res['demo_patched'] = 'PASS' if rc1 == 0 else 'FAIL'
            res['demo_patched_tail'] = '\n'.join([l for l in out1.splitlines() if 'panicked' in l or 'assert' in l.lower() or 'test result' in l][-6:])
            os.remove(os.path.join(WT, place))
            touched = sorted({l.split(' b/')[-1].strip() for l in open(patch) if l.startswith('diff --git')})
            pkgs = {'deadpool'}
            for f in touched:
                top = f.split('/')[0]
                if top in ('postgres', 'redis', 'sqlite', 'r2d2', 'diesel'):
                    pkgs.add('deadpool-' + top)
                if top in ('sync', 'runtime'):
                    pkgs.add('deadpool-' + top); pkgs.add('deadpool-sqlite')
            suite = {}
            for pk in sorted(pkgs):
                f2 = '--features rt_tokio_1,serde' if pk == 'deadpool' else ('--features serde' if pk in ('deadpool-postgres', 'deadpool-sqlite') else ('--features sqlite' if pk == 'deadpool-diesel' else ''))
                rc2, out2 = sh('cargo test --offline -p %s %s 2>&1' % (pk, f2), cwd=WT)
                fails = sorted(set(re.findall(r'^test (\S+) \.\.\. FAILED', out2, re.M)))
                known = {'basic', 'generic_client', 'prepare_typed_cached', 'prepare_typed_error', 'recycling_methods', 'statement_cache_clear', 'statement_caches_clear',
                         'transaction_1', 'transaction_2', 'transaction_builder', 'transaction_pipeline'}
                unexpected = [x for x in fails if x not in known]
                suite[pk] = 'PASS' if not unexpected and ('test result' in out2) else 'FAIL: %s' % unexpected
            res['existing_suite_with_patch'] = suite
        sh('git checkout -- . && git clean -fdq -e target', cwd=WT)
    # ---- run the checks against the patched scratch worktree (same rules; /repo itself stays untouched so that
    # other checks can run meanwhile) ------------------------------------------------------------------------
    if not os.path.isdir(WT):
        sh('git -C %s worktree add --detach %s HEAD' % (REPO, WT))
    sh('git checkout -- . && git clean -fdq -e target', cwd=WT)
    rc, out = sh('git apply %s' % patch, cwd=WT)
    if rc != 0:
        res['apply_repo'] = 'FAILED ' + out[-200:]
    else:
        try:
            checks = {}
            env = 'DP_REPO=%s DP_CACHE=%s' % (WT, CCACHE)
            if not os.path.isdir(CCACHE + '/target') and os.path.isdir(os.path.join(VERIF, '.cache', 'target')):
                os.makedirs(CCACHE, exist_ok=True)
                sh('cp -a %s %s/target' % (os.path.join(VERIF, '.cache', 'target'), CCACHE))
            for i in range(1, 20):
                pid = 'C%02d' % i
                rc, out = sh('%s %s/check %s --tier quick --no-evidence' % (env, VERIF, pid))
                rules = sorted(set(re.findall(r'^  rule (\S+),', out, re.M)))
                if rc != 0:
                    checks[pid] = {'rc': rc, 'rules': rules, 'lines': [l for l in out.splitlines() if l.startswith(('  rule', '  at', 'UNDECIDED', 'MACHINERY'))][:8]}
            res['checks_firing'] = checks
            res['detected_by_own_property'] = checks.get(meta.get('property'), {}).get('rc') == 1
            res['detected_by_any'] = any(v['rc'] == 1 for v in checks.values())
        finally:
            sh('git checkout -- . && git clean -fdq -e target', cwd=WT)
    dst = os.path.join(VERIF, 'seeded', sid)
    os.makedirs(dst, exist_ok=True)
    for f in ('patch.diff', 'demo.rs'):
        if os.path.abspath(os.path.join(seed, f)) != os.path.abspath(os.path.join(dst, f)):
            shutil.copy(os.path.join(seed, f), os.path.join(dst, f))
    prev = {}
    if skip and os.path.exists(os.path.join(dst, 'meta.json')):
        try:
            prev = json.load(open(os.path.join(dst, 'meta.json'))).get('confirmation', {})
        except Exception:
            prev = {}
    prev.update(res)
    res = prev
    meta['confirmation'] = res
    meta['confirmed_at_repo_head'] = sh('git -C %s rev-parse --short HEAD' % REPO)[1].strip()
    json.dump(meta, open(os.path.join(dst, 'meta.json'), 'w'), indent=1)
    print(json.dumps(res, indent=1))
    return 0


if __name__ == '__main__':
    sys.exit(main())

//! Type-level witnesses for the deadpool properties: each `compile_fail,E0xxx`
//! doc-test is a program that must NOT type-check; each is paired with a
//! compiling twin that differs only by the offending line, so a witness whose
//! path is merely wrong cannot pass.
//!
//! Run with `cargo +nightly test --doc --offline` (the error code is only
//! checked on nightly).

/// Common scaffolding used by the witnesses (a trivial manager).
pub mod common {
    use deadpool::managed;

    #[derive(Debug)]
    pub struct Mgr;

    impl managed::Manager for Mgr {
        type Type = usize;
        type Error = ();
        async fn create(&self) -> Result<usize, ()> {
            Ok(0)
        }
        async fn recycle(&self, _: &mut usize, _: &managed::Metrics) -> managed::RecycleResult<()> {
            Ok(())
        }
    }
    pub type Pool = managed::Pool<Mgr>;
}

/// W01 (C01): a managed `Object` cannot be duplicated.
/// ```compile_fail,E0277
/// # use dp_witness::common::*;
/// # async fn f(pool: Pool) {
/// let obj = pool.get().await.unwrap();
/// let dup = <deadpool::managed::Object<Mgr> as Clone>::clone(&obj); // Object<M> is not Clone
/// # }
/// ```
/// twin:
/// ```
/// # use dp_witness::common::*;
/// # async fn f(pool: Pool) {
/// let obj = pool.get().await.unwrap();
/// let dup = pool.clone(); // the pool handle is Clone
/// # drop((obj, dup));
/// # }
/// ```
pub struct W01ObjectNotClone;

/// W03a (C03): the accounting types cannot be named from outside the crate.
/// ```compile_fail,E0603
/// use deadpool::managed::PoolInner;
/// ```
/// ```compile_fail,E0603
/// use deadpool::managed::UnreadyObject;
/// ```
/// ```compile_fail,E0603
/// use deadpool::managed::dropguard::DropGuard;
/// ```
/// ```compile_fail,E0603
/// use deadpool::managed::Slots;
/// ```
/// twin:
/// ```
/// use deadpool::managed::Object;
/// use deadpool::managed::Pool;
/// ```
pub struct W03PrivateAccounting;

/// W03b (C03/C02): the inner option of an `Object` cannot be emptied by a user.
/// ```compile_fail,E0616
/// # use dp_witness::common::*;
/// # async fn f(pool: Pool) {
/// let mut obj = pool.get().await.unwrap();
/// let stolen = obj.inner.take(); // field `inner` is private
/// # }
/// ```
/// twin:
/// ```
/// # use dp_witness::common::*;
/// # async fn f(pool: Pool) {
/// let obj = pool.get().await.unwrap();
/// let taken: usize = deadpool::managed::Object::take(obj);
/// # drop(taken);
/// # }
/// ```
pub struct W03InnerPrivate;

/// W05 (C05): an unmanaged `Object` cannot be duplicated.
/// ```compile_fail,E0277
/// # async fn f() {
/// let pool = deadpool::unmanaged::Pool::from(vec![String::from("a")]);
/// let obj = pool.get().await.unwrap();
/// let dup = <deadpool::unmanaged::Object<String> as Clone>::clone(&obj); // Object<T> is not Clone
/// # }
/// ```
/// twin:
/// ```
/// # async fn f() {
/// let pool = deadpool::unmanaged::Pool::from(vec![String::from("a")]);
/// let obj = pool.get().await.unwrap();
/// let dup = deadpool::unmanaged::Pool::clone(&pool);
/// # drop((obj, dup));
/// # }
/// ```
pub struct W05UnmanagedObjectNotClone;

/// W13 (C13): metrics handed out by `Object::metrics` are read-only.
/// ```compile_fail,E0594
/// # use dp_witness::common::*;
/// # async fn f(pool: Pool) {
/// let obj = pool.get().await.unwrap();
/// deadpool::managed::Object::metrics(&obj).recycle_count = 7; // behind a `&` reference
/// # }
/// ```
/// twin:
/// ```
/// # use dp_witness::common::*;
/// # async fn f(pool: Pool) {
/// let obj = pool.get().await.unwrap();
/// let n = deadpool::managed::Object::metrics(&obj).recycle_count;
/// # drop(n);
/// # }
/// ```
pub struct W13MetricsReadOnly;

/// W13b (C13): hooks receive `&Metrics`.
/// ```compile_fail,E0594
/// use deadpool::managed::{Hook, Metrics};
/// # use dp_witness::common::*;
/// let h: Hook<Mgr> = Hook::sync_fn(|_obj: &mut usize, m: &Metrics| { m.recycle_count = 1; Ok(()) });
/// ```
/// twin:
/// ```
/// use deadpool::managed::{Hook, Metrics};
/// # use dp_witness::common::*;
/// let h: Hook<Mgr> = Hook::sync_fn(|_obj: &mut usize, m: &Metrics| { let _ = m.recycle_count; Ok(()) });
/// ```
pub struct W13HookMetricsReadOnly;

/// W14 (C14): `interact` closures must be `Send + 'static` (they run on another thread).
/// ```compile_fail,E0277
/// # async fn f(w: deadpool_sync::SyncWrapper<u32>) {
/// let rc = std::rc::Rc::new(1u32);
/// let _ = w.interact(move |v| *v + *rc).await; // Rc is not Send
/// # }
/// ```
/// twin:
/// ```
/// # async fn f(w: deadpool_sync::SyncWrapper<u32>) {
/// let rc = std::sync::Arc::new(1u32);
/// let _ = w.interact(move |v| *v + *rc).await;
/// # }
/// ```
pub struct W14InteractSend;

/// W14b (C14): the wrapped value is not reachable except through `interact` / `lock`.
/// ```compile_fail,E0616
/// # fn f(w: deadpool_sync::SyncWrapper<u32>) {
/// let inner = w.obj.clone(); // private field
/// # }
/// ```
/// twin:
/// ```
/// # fn f(w: deadpool_sync::SyncWrapper<u32>) {
/// let poisoned = w.is_mutex_poisoned();
/// # drop(poisoned);
/// # }
/// ```
pub struct W14ObjPrivate;

#!/usr/bin/env python3
"""Self-test of the checker: apply one-instance-broken edits (and benign variants)
to scratch copies of /repo (outside /repo and /verif), run the named checks on them
and compare with the expectation.  Never touches /repo; never prints VIOLATION
lines of its own (child output is summarised).

usage: run_mutants.py [--only ID[,ID..]] [--jobs N] [--keep] [--benign] [--props Cxx,..]"""
import json, os, shutil, subprocess, sys, tempfile, time, re
from concurrent.futures import ThreadPoolExecutor

HERE = os.path.dirname(os.path.abspath(__file__))
VERIF = os.path.dirname(HERE)
sys.path.insert(0, HERE)
from mutants import MUTANTS, BENIGN

REPO = '/repo'


def apply_edit(root, m):
    for ed in m['edits']:
        p = os.path.join(root, ed['file'])
        with open(p) as f:
            t = f.read()
        if ed.get('count') == 'any':
            if t.count(ed['old']) == 0:
                return 'edit does not apply (0 matches of old text in %s)' % ed['file']
        elif t.count(ed['old']) != ed.get('count', 1):
            return 'edit does not apply (%d matches of old text in %s)' % (t.count(ed['old']), ed['file'])
        t = t.replace(ed['old'], ed['new'])
        with open(p, 'w') as f:
            f.write(t)
    return None


def run_one(m, worker_cache, keep=False, props=None):
    work = tempfile.mkdtemp(prefix='dpmut_%s_' % m['id'], dir='/tmp')
    res = {'id': m['id'], 'desc': m['desc'], 'expect': m.get('expect', []), 'props': {}}
    try:
        subprocess.run(['rsync', '-a', '--exclude', '/target', '--exclude', '.git', REPO + '/', work + '/repo/'], check=True)
        err = apply_edit(work + '/repo', m)
        if err:
            res['status'] = 'skipped'; res['why'] = err
            return res
        env = dict(os.environ, DP_REPO=work + '/repo', DP_CACHE=worker_cache)
        for prop in (props or m['props']):
            t0 = time.time()
            r = subprocess.run([os.path.join(VERIF, 'check'), prop, '--tier', 'quick', '--no-evidence'], env=env, capture_output=True, text=True)
            out = r.stdout
            rules = sorted(set(re.findall(r'^  rule (R[0-9.]+)', out, re.M)))
            res['props'][prop] = {'rc': r.returncode, 'rules': rules, 'wall': round(time.time() - t0, 1),
                                  'lines': [l for l in out.splitlines() if l.startswith(('  rule', '  at', 'UNDECIDED', 'MACHINERY', 'KNOWN'))][:12]}
            if r.returncode == 3:
                res['props'][prop]['tail'] = (out + r.stderr)[-1500:]
        return res
    finally:
        if not keep:
            shutil.rmtree(work, ignore_errors=True)


def main():
    args = sys.argv[1:]
    only = None; jobs = 4; keep = False; benign = False; props = None; result_path = os.path.join(HERE, 'last_result.json')
    i = 0
    while i < len(args):
        if args[i] == '--only': only = set(args[i + 1].split(',')); i += 2
        elif args[i] == '--jobs': jobs = int(args[i + 1]); i += 2
        elif args[i] == '--keep': keep = True; i += 1
        elif args[i] == '--benign': benign = True; i += 1
        elif args[i] == '--props': props = args[i + 1].split(','); i += 2
        elif args[i] == '--result': result_path = args[i + 1]; i += 2
        else: i += 1
    todo = BENIGN if benign else MUTANTS
    if only:
        todo = [m for m in todo if m['id'] in only]
    base = tempfile.mkdtemp(prefix='dpmut_cache_', dir='/tmp')
    caches = []
    try:
        for k in range(jobs):
            c = os.path.join(base, 'c%d' % k)
            os.makedirs(c)
            src = os.path.join(VERIF, '.cache', 'target')
            if os.path.isdir(src):
                subprocess.run(['cp', '-a', src, os.path.join(c, 'target')], check=True)
            caches.append(c)
        import queue
        q = queue.Queue()
        for c in caches: q.put(c)
        def work(m):
            c = q.get()
            try:
                return run_one(m, c, keep, props)
            finally:
                q.put(c)
        with ThreadPoolExecutor(max_workers=jobs) as ex:
            results = list(ex.map(work, todo))
    finally:
        shutil.rmtree(base, ignore_errors=True)
    killed = missed = skipped = broken = falsealarm = 0
    for r in results:
        if r.get('status') == 'skipped':
            skipped += 1
            print('SKIP  %-8s %s: %s' % (r['id'], r['desc'], r['why'])); continue
        rcs = {p: v['rc'] for p, v in r['props'].items()}
        fired = sorted({x for v in r['props'].values() for x in v['rules']})
        if any(rc == 3 for rc in rcs.values()):
            broken += 1; tag = 'BROKEN'
        elif benign:
            if any(rc != 0 for rc in rcs.values()):
                falsealarm += 1; tag = 'FALSE-ALARM'
            else:
                tag = 'quiet'
        else:
            hit = any(rc == 1 for rc in rcs.values())
            exp = set(r['expect'])
            if hit and (not exp or exp & set(fired)):
                killed += 1; tag = 'killed'
            elif hit:
                killed += 1; tag = 'killed*'   # fired, but by another rule than listed
            else:
                missed += 1; tag = 'MISSED'
        print('%-11s %-8s %s  rc=%s fired=%s' % (tag, r['id'], r['desc'], rcs, fired))
        if tag in ('MISSED', 'BROKEN', 'FALSE-ALARM', 'killed*'):
            for p, v in r['props'].items():
                for l in v['lines']:
                    print('      ', p, l.replace('VIOLATION', 'violation'))
                if 'tail' in v:
                    print(v['tail'].replace('VIOLATION', 'violation'))
    print('summary: applied=%d killed=%d missed=%d skipped=%d broken=%d false_alarms=%d' % (
        len(results) - skipped, killed, missed, skipped, broken, falsealarm))
    with open(result_path, 'w') as f:
        json.dump({'benign': benign, 'results': results}, f, indent=1)
    return 0


if __name__ == '__main__':
    sys.exit(main())

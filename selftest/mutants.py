"""Catalogue of one-instance-broken edits (MUTANTS) and behaviour-preserving
variants (BENIGN).  Each edit is an exact-text replacement that must match once."""

M = 'src/managed/mod.rs'
U = 'src/unmanaged/mod.rs'

def m(id, desc, props, expect, *edits):
    return {'id': id, 'desc': desc, 'props': props, 'expect': expect,
            'edits': [{'file': f, 'old': o, 'new': n} for f, o, n in edits]}

MUTANTS = [
    m('B01-1', 'delete permit.forget() in timeout_get', ['C01'], ['R01.2'],
      (M, "        users_guard.disarm();\n        permit.forget();\n", "        users_guard.disarm();\n        drop(permit);\n")),
    m('B01-2', 'permit.forget() moved above the loop', ['C01'], ['R01.2', 'R01.1'],
      (M, "        let inner_obj = loop {\n            let inner_obj = match self.inner.config.queue_mode {", "        permit.forget();\n        let inner_obj = loop {\n            let inner_obj = match self.inner.config.queue_mode {"),
      (M, "        users_guard.disarm();\n        permit.forget();\n", "        users_guard.disarm();\n")),
    m('B01-3', 'size += 1 before the awaited create', ['C01'], ['R01.5'],
      (M, "        let mut unready_obj = UnreadyObject {\n            inner: Some(ObjectInner {\n                obj: apply_timeout(", "        self.inner.slots.lock().unwrap().size += 1;\n        let mut unready_obj = UnreadyObject {\n            inner: Some(ObjectInner {\n                obj: apply_timeout("),
      (M, "            pool: &self.inner,\n        };\n\n        self.inner.slots.lock().unwrap().size += 1;\n", "            pool: &self.inner,\n        };\n\n")),
    m('B01-4', 'add_permits(2) in return_object', ['C01'], ['R01.4'],
      (M, "            drop(slots);\n            self.semaphore.add_permits(1);\n        } else {", "            drop(slots);\n            self.semaphore.add_permits(2);\n        } else {")),
    m('B01-5', 'detach_object: <= becomes <', ['C01'], ['R01.4'],
      (M, "let add_permits = slots.size <= slots.max_size;", "let add_permits = slots.size < slots.max_size;")),
    m('B01-6', 'retain adds a permit', ['C01'], ['R01.4'],
      (M, "        guard.size -= removed.len();\n", "        guard.size -= removed.len();\n        self.inner.semaphore.add_permits(1);\n")),
    m('B01-7', 'return_object: >= instead of <=', ['C01'], ['R01.4'],
      (M, "        if slots.size <= slots.max_size {\n            slots.vec.push_back(inner);", "        if slots.size >= slots.max_size {\n            slots.vec.push_back(inner);")),
    m('B01-8', 'acquire result dropped: let _ = permit before loop', ['C01'], ['R01.1', 'R01.3'],
      (M, "        let inner_obj = loop {\n            let inner_obj = match self.inner.config.queue_mode {", "        drop(permit);\n        let inner_obj = loop {\n            let inner_obj = match self.inner.config.queue_mode {"),
      (M, "        users_guard.disarm();\n        permit.forget();\n", "        users_guard.disarm();\n")),
    m('B01-9', 'mem::forget the permit instead of SemaphorePermit::forget early', ['C01'], ['R01.2'],
      (M, "            .await?\n        };\n\n        let inner_obj = loop {", "            .await?\n        };\n        let permit = std::mem::ManuallyDrop::new(permit);\n\n        let inner_obj = loop {"),
      (M, "        users_guard.disarm();\n        permit.forget();\n", "        users_guard.disarm();\n")),
    m('B01-10', 'UnreadyObject::drop: no size -= 1', ['C01'], ['R01.6'],
      (M, "            self.pool.slots.lock().unwrap().size -= 1;\n            self.pool.manager.detach(&mut inner.obj);", "            self.pool.manager.detach(&mut inner.obj);")),
    m('B01-11', 'Semaphore::new(max_size + 1) in from_builder', ['C01'], ['R01.8'],
      (M, "semaphore: Semaphore::new(builder.config.max_size),", "semaphore: Semaphore::new(builder.config.max_size + 1),")),
    m('B01-12', 'try_create: size += 1 after the post_create hooks', ['C01'], ['R01.5'],
      (M, "        self.inner.slots.lock().unwrap().size += 1;\n\n        // Apply post_create hooks", "        // Apply post_create hooks"),
      (M, "            return Err(PoolError::PostCreateHook(e));\n        }\n\n        Ok(Some(unready_obj.ready()))", "            return Err(PoolError::PostCreateHook(e));\n        }\n        self.inner.slots.lock().unwrap().size += 1;\n\n        Ok(Some(unready_obj.ready()))")),
]

BENIGN = [
    m('N01-1', 'return_object: max_size >= size', ['C01'], [],
      (M, "        if slots.size <= slots.max_size {\n            slots.vec.push_back(inner);", "        if slots.max_size >= slots.size {\n            slots.vec.push_back(inner);")),
    m('N01-2', 'detach_object: compare after decrement with <', ['C01'], [],
      (M, "        let add_permits = slots.size <= slots.max_size;\n        slots.size -= 1;\n", "        slots.size -= 1;\n        let add_permits = slots.size < slots.max_size;\n")),
    m('N01-3', 'return_object: negated test with swapped branches', ['C01'], [],
      (M, "        if slots.size <= slots.max_size {\n            slots.vec.push_back(inner);\n            drop(slots);\n            self.semaphore.add_permits(1);\n        } else {\n            slots.size -= 1;\n            drop(slots);\n            self.manager.detach(&mut inner.obj);\n        }",
          "        if slots.size > slots.max_size {\n            slots.size -= 1;\n            drop(slots);\n            self.manager.detach(&mut inner.obj);\n        } else {\n            slots.vec.push_back(inner);\n            drop(slots);\n            self.semaphore.add_permits(1);\n        }")),
    m('N01-4', 'rename try_create / try_recycle / return_object', ['C01'], [],
      ),
]
BENIGN[-1]['edits'] = [
    {'file': M, 'old': 'try_create', 'new': 'make_new', 'count': 2},
    {'file': M, 'old': 'try_recycle', 'new': 'reuse_idle', 'count': 2},
    {'file': M, 'old': 'return_object', 'new': 'give_back', 'count': 2},
    {'file': M, 'old': 'detach_object', 'new': 'unlink_obj', 'count': 2},
]

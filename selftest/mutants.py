"""Catalogue of one-instance-broken edits (MUTANTS) and behaviour-preserving
variants (BENIGN).  Each edit is an exact-text replacement that must match once."""

M = 'src/managed/mod.rs'
U = 'src/unmanaged/mod.rs'

def m(id, desc, props, expect, *edits):
    return {'id': id, 'desc': desc, 'props': props, 'expect': expect,
            'edits': [e if isinstance(e, dict) else {'file': e[0], 'old': e[1], 'new': e[2]} for e in edits]}

MUTANTS = [
    m('B01-1', 'delete permit.forget() in timeout_get', ['C01'], ['R01.2'],
      (M, "        users_guard.disarm();\n        permit.forget();\n", "        users_guard.disarm();\n        drop(permit);\n")),
    m('B01-2', 'permit.forget() moved above the loop', ['C01'], ['R01.2', 'R01.1'],
      (M, "        let inner_obj = loop {\n            let inner_obj = match self.inner.config.queue_mode {", "        permit.forget();\n        let inner_obj = loop {\n            let inner_obj = match self.inner.config.queue_mode {"),
      (M, "        users_guard.disarm();\n        permit.forget();\n", "        users_guard.disarm();\n")),
    m('B01-3', 'size += 1 before the awaited create', ['C01'], ['R01.5'],
      (M, "        let mut unready_obj = UnreadyObject {\n            inner: Some(ObjectInner {\n                obj: apply_timeout(", "        self.inner.slots.lock().unwrap().size += 1;\n        let mut unready_obj = UnreadyObject {\n            inner: Some(ObjectInner {\n                obj: apply_timeout("),
      (M, "            pool: &self.inner,\n        };\n\n        self.inner.slots.lock().unwrap().size += 1;\n", "            pool: &self.inner,\n        };\n\n")),
    m('B01-4', 'add_permits(2) in return_object', ['C01'], ['R01.4'],
      (M, "            drop(slots);\n            self.semaphore.add_permits(1);\n        } else {", "            drop(slots);\n            self.semaphore.add_permits(2);\n        } else {")),
    m('B01-5', 'detach_object: <= becomes <', ['C01'], ['R01.4'],
      (M, "let add_permits = slots.size <= slots.max_size;", "let add_permits = slots.size < slots.max_size;")),
    m('B01-6', 'retain adds a permit', ['C01'], ['R01.4'],
      (M, "        guard.size -= removed.len();\n", "        guard.size -= removed.len();\n        self.inner.semaphore.add_permits(1);\n")),
    m('B01-7', 'return_object: >= instead of <=', ['C01'], ['R01.4'],
      (M, "        if slots.size <= slots.max_size {\n            slots.vec.push_back(inner);", "        if slots.size >= slots.max_size {\n            slots.vec.push_back(inner);")),
    m('B01-8', 'acquire result dropped: let _ = permit before loop', ['C01'], ['R01.1', 'R01.3'],
      (M, "        let inner_obj = loop {\n            let inner_obj = match self.inner.config.queue_mode {", "        drop(permit);\n        let inner_obj = loop {\n            let inner_obj = match self.inner.config.queue_mode {"),
      (M, "        users_guard.disarm();\n        permit.forget();\n", "        users_guard.disarm();\n")),
    m('B01-9', 'mem::forget the permit instead of SemaphorePermit::forget early', ['C01'], ['R01.2'],
      (M, "            .await?\n        };\n\n        let inner_obj = loop {", "            .await?\n        };\n        let permit = std::mem::ManuallyDrop::new(permit);\n\n        let inner_obj = loop {"),
      (M, "        users_guard.disarm();\n        permit.forget();\n", "        users_guard.disarm();\n")),
    m('B01-10', 'UnreadyObject::drop: no size -= 1', ['C01'], ['R01.6'],
      (M, "            self.pool.slots.lock().unwrap().size -= 1;\n            self.pool.manager.detach(&mut inner.obj);", "            self.pool.manager.detach(&mut inner.obj);")),
    m('B01-11', 'Semaphore::new(max_size + 1) in from_builder', ['C01'], ['R01.8'],
      (M, "semaphore: Semaphore::new(builder.config.max_size),", "semaphore: Semaphore::new(builder.config.max_size + 1),")),
    m('B01-12', 'try_create: size += 1 after the post_create hooks', ['C01'], ['R01.5'],
      (M, "        self.inner.slots.lock().unwrap().size += 1;\n\n        // Apply post_create hooks", "        // Apply post_create hooks"),
      (M, "            return Err(PoolError::PostCreateHook(e));\n        }\n\n        Ok(Some(unready_obj.ready()))", "            return Err(PoolError::PostCreateHook(e));\n        }\n        self.inner.slots.lock().unwrap().size += 1;\n\n        Ok(Some(unready_obj.ready()))")),
    m('B01-13', 'return_object: permit released before the object is queued (woken waiter creates one too many)', ['C01'], ['R01.4'],
      (M, "            slots.vec.push_back(inner);\n            drop(slots);\n            self.semaphore.add_permits(1);", "            drop(slots);\n            self.semaphore.add_permits(1);\n            self.slots.lock().unwrap().vec.push_back(inner);")),
]

MUTANTS += [
    m('B02-1', 'return_object: no add_permits', ['C02'], ['R02.2'],
      (M, "            drop(slots);\n            self.semaphore.add_permits(1);\n        } else {", "            drop(slots);\n        } else {")),
    m('B02-2', 'recycler: failed pre-hook ends the call with an error', ['C02', 'C04'], ['R02.3', 'R04.5'],
      (M, "            // TODO log pre_recycle error\n            return Ok(None);", "            // TODO log pre_recycle error\n            return Err(PoolError::Closed);")),
    m('B02-3', 'retain: status() under the lock', ['C02'], ['R02.6'],
      (M, "        let mut i = 0;\n        // This code can be simplified", "        let mut i = self.status().size - self.status().size;\n        // This code can be simplified")),
    m('B02-4', 'slots guard held across try_create().await', ['C02'], ['R02.6'],
      (M, "            } else {\n                self.try_create(timeouts).await?\n            };", "            } else {\n                let _g = self.inner.slots.lock().unwrap();\n                self.try_create(timeouts).await?\n            };")),
    m('B02-5', 'Object::drop unwraps the upgrade', ['C02'], ['R02.4'],
      (M, "            if let Some(pool) = self.pool.upgrade() {\n                pool.return_object(inner)\n            }", "            self.pool.upgrade().unwrap().return_object(inner)")),
    m('B02-6', 'return_object: early return keeps the permit', ['C02'], ['R02.2'],
      (M, "        let mut slots = self.slots.lock().unwrap();\n        if slots.size <= slots.max_size {\n            slots.vec.push_back(inner);", "        let mut slots = self.slots.lock().unwrap();\n        if inner.metrics.recycle_count > 100_000 {\n            slots.size -= 1;\n            return;\n        }\n        if slots.size <= slots.max_size {\n            slots.vec.push_back(inner);")),
    m('B02-7', 'Object gets a method emptying inner through &mut', ['C02'], ['R02.5'],
      (M, "    /// Get object statistics\n    pub fn metrics(this: &Self) -> &Metrics {", "    /// Invalidate\n    pub fn invalidate(this: &mut Self) {\n        drop(this.inner.take());\n    }\n\n    /// Get object statistics\n    pub fn metrics(this: &Self) -> &Metrics {")),
    m('B02-8', 'post_recycle hook invoked under the slots lock', ['C02'], ['R02.6'],
      (M, "        if let Err(_e) = self.inner.hooks.post_recycle.apply(inner).await {", "        let _g = self.inner.slots.lock().unwrap();\n        if let Err(_e) = self.inner.hooks.post_recycle.apply(inner).await {")),
    m('B02-9', 'getter breaks out of the loop on a rejected object', ['C02'], ['R02.3'],
      (M, "            if let Some(inner_obj) = inner_obj {\n                break inner_obj;\n            }\n        };", "            match inner_obj {\n                Some(inner_obj) => break inner_obj,\n                None => return Err(PoolError::Closed),\n            }\n        };")),
]

MUTANTS += [
    m('B03-1', 'users guard dropped immediately (let _ =) and no disarm', ['C03'], ['R03.1'],
      (M, "        let users_guard = DropGuard(|| {", "        let _ = DropGuard(|| {"),
      (M, "        users_guard.disarm();\n", "")),
    m('B03-2', 'recycler wraps the object only after the pre_recycle hooks', ['C03'], ['R03.1', 'R03.4'],
      (M, """        let mut unready_obj = UnreadyObject {
            inner: Some(inner_obj),
            pool: &self.inner,
        };
        let inner = unready_obj.inner();

        // Apply pre_recycle hooks
        if let Err(_e) = self.inner.hooks.pre_recycle.apply(inner).await {
            // TODO log pre_recycle error
            return Ok(None);
        }
""", """        let mut inner_obj = inner_obj;
        // Apply pre_recycle hooks
        if let Err(_e) = self.inner.hooks.pre_recycle.apply(&mut inner_obj).await {
            // TODO log pre_recycle error
            self.inner.slots.lock().unwrap().size -= 1;
            self.inner.manager.detach(&mut inner_obj.obj);
            return Ok(None);
        }
        let mut unready_obj = UnreadyObject {
            inner: Some(inner_obj),
            pool: &self.inner,
        };
        let inner = unready_obj.inner();
""")),
    m('B03-3', 'users_guard.disarm() moved above the loop', ['C03'], ['R03.2', 'R03.1'],
      (M, "        let inner_obj = loop {\n            let inner_obj = match self.inner.config.queue_mode {", "        users_guard.disarm();\n        let inner_obj = loop {\n            let inner_obj = match self.inner.config.queue_mode {"),
      (M, "        users_guard.disarm();\n        permit.forget();\n", "        permit.forget();\n")),
    m('B03-4', 'Drop for UnreadyObject: no size -= 1', ['C03'], ['R03.3'],
      (M, "            self.pool.slots.lock().unwrap().size -= 1;\n            self.pool.manager.detach(&mut inner.obj);", "            self.pool.manager.detach(&mut inner.obj);")),
    m('B03-5', 'Drop for UnreadyObject: no detach', ['C03'], ['R03.3'],
      (M, "            self.pool.slots.lock().unwrap().size -= 1;\n            self.pool.manager.detach(&mut inner.obj);", "            self.pool.slots.lock().unwrap().size -= 1;\n            let _ = &mut inner;")),
    m('B03-6', 'guard closure subtracts 0', ['C03'], ['R03.3'],
      (M, "            let _ = self.inner.users.fetch_sub(1, Ordering::Relaxed);\n        });", "            let _ = self.inner.users.fetch_sub(0, Ordering::Relaxed);\n        });")),
    m('B03-7', 'creator: post_create hooks run on the bare object, wrapped afterwards', ['C03', 'C01'], ['R03.1', 'R01.5'],
      (M, """        let mut unready_obj = UnreadyObject {
            inner: Some(ObjectInner {
                obj: apply_timeout(
                    self.inner.runtime,
                    TimeoutType::Create,
                    timeouts.create,
                    self.inner.manager.create(),
                )
                .await?,
                metrics: Metrics::default(),
            }),
            pool: &self.inner,
        };

        self.inner.slots.lock().unwrap().size += 1;

        // Apply post_create hooks
        if let Err(e) = self
            .inner
            .hooks
            .post_create
            .apply(unready_obj.inner())
            .await
        {
            return Err(PoolError::PostCreateHook(e));
        }
""", """        let mut bare = ObjectInner {
                obj: apply_timeout(
                    self.inner.runtime,
                    TimeoutType::Create,
                    timeouts.create,
                    self.inner.manager.create(),
                )
                .await?,
                metrics: Metrics::default(),
            };

        // Apply post_create hooks
        if let Err(e) = self
            .inner
            .hooks
            .post_create
            .apply(&mut bare)
            .await
        {
            self.inner.manager.detach(&mut bare.obj);
            return Err(PoolError::PostCreateHook(e));
        }
        let unready_obj = UnreadyObject {
            inner: Some(bare),
            pool: &self.inner,
        };
        self.inner.slots.lock().unwrap().size += 1;
""")),
    m('B03-8', 'DropGuard::drop does not call the closure', ['C03'], ['R03.3'],
      ('src/managed/dropguard.rs', "    fn drop(&mut self) {\n        (self.0)()\n    }", "    fn drop(&mut self) {\n        let _ = &self.0;\n    }")),
    m('B03-9', 'recycler: ready() before the post_recycle hooks', ['C03', 'C04'], ['R03.2', 'R04.1'],
      (M, """        // Apply post_recycle hooks
        if let Err(_e) = self.inner.hooks.post_recycle.apply(inner).await {
            // TODO log post_recycle error
            return Ok(None);
        }

        inner.metrics.recycle_count += 1;
        #[cfg(not(target_arch = "wasm32"))]
        {
            inner.metrics.recycled = Some(Instant::now());
        }

        Ok(Some(unready_obj.ready()))""", """        inner.metrics.recycle_count += 1;
        #[cfg(not(target_arch = "wasm32"))]
        {
            inner.metrics.recycled = Some(Instant::now());
        }
        let mut ready = unready_obj.ready();
        // Apply post_recycle hooks
        if let Err(_e) = self.inner.hooks.post_recycle.apply(&mut ready).await {
            // TODO log post_recycle error
            self.inner.slots.lock().unwrap().size -= 1;
            self.inner.manager.detach(&mut ready.obj);
            return Ok(None);
        }

        Ok(Some(ready))""")),
    m('B03-10', 'users += 1 twice', ['C03'], ['R03.3'],
      (M, "        let _ = self.inner.users.fetch_add(1, Ordering::Relaxed);\n        let users_guard", "        let _ = self.inner.users.fetch_add(1, Ordering::Relaxed);\n        let _ = self.inner.users.fetch_add(1, Ordering::Relaxed);\n        let users_guard")),
]

H = 'src/managed/hooks.rs'
MUTANTS += [
    m('B04-1', 'recycler: pre and post hooks swapped', ['C04'], ['R04.1'],
      (M, "if let Err(_e) = self.inner.hooks.pre_recycle.apply(inner).await {", "if let Err(_e) = self.inner.hooks.post_recycle.apply(inner).await {"),
      (M, "if let Err(_e) = self.inner.hooks.post_recycle.apply(inner).await {\n            // TODO log post_recycle error", "if let Err(_e) = self.inner.hooks.pre_recycle.apply(inner).await {\n            // TODO log post_recycle error")),
    m('B04-2', 'post_recycle failure ignored', ['C04'], ['R04.1'],
      (M, "        if let Err(_e) = self.inner.hooks.post_recycle.apply(inner).await {\n            // TODO log post_recycle error\n            return Ok(None);\n        }", "        let _ = self.inner.hooks.post_recycle.apply(inner).await;")),
    m('B04-3', 'HookVec::apply ignores sync hook errors', ['C04'], ['R04.3'],
      (H, "Hook::Fn(f) => f(&mut inner.obj, &inner.metrics)?,", "Hook::Fn(f) => { let _ = f(&mut inner.obj, &inner.metrics); }")),
    m('B04-4', 'hooks iterated in reverse', ['C04'], ['R04.3'],
      (H, "for hook in &self.vec {", "for hook in self.vec.iter().rev() {")),
    m('B04-5', 'PostCreateHook error reported as Closed', ['C04'], ['R04.5'],
      (M, "            return Err(PoolError::PostCreateHook(e));", "            let _ = e;\n            return Err(PoolError::Closed);")),
    m('B04-6', 'creator uses TimeoutType::Wait', ['C04', 'C10'], ['R04.1', 'R10.3'],
      (M, "                    TimeoutType::Create,", "                    TimeoutType::Wait,")),
    m('B04-7', 'recycle result ignored entirely', ['C04'], ['R04.1'],
      (M, "            Ok(()) => {}\n", "            Ok(()) => {}\n            Err(PoolError::Backend(_)) => {}\n")),
    m('B04-8', 'getter hands out a popped object directly when recycle_count is 0', ['C04'], ['R04.2'],
      (M, "            let inner_obj = if let Some(inner_obj) = inner_obj {\n                self.try_recycle(timeouts, inner_obj).await?", "            let inner_obj = if let Some(inner_obj) = inner_obj {\n                if inner_obj.metrics.recycle_count == usize::MAX {\n                    break inner_obj;\n                }\n                self.try_recycle(timeouts, inner_obj).await?")),
    m('B04-9', 'post_create hooks skipped', ['C04'], ['R04.1'],
      (M, """        if let Err(e) = self
            .inner
            .hooks
            .post_create
            .apply(unready_obj.inner())
            .await
        {
            return Err(PoolError::PostCreateHook(e));
        }
""", "")),
    m('B04-10', 'try_acquire NoPermits mapped to Closed', ['C04'], ['R04.5'],
      (M, "                TryAcquireError::NoPermits => PoolError::Timeout(TimeoutType::Wait),", "                TryAcquireError::NoPermits => PoolError::Closed,")),
    m('B04-11', 'HookVec::push inserts at the front', ['C04'], ['R04.3'],
      (H, "        self.vec.push(hook);", "        self.vec.insert(0, hook);")),
    m('B04-12', 'builder: pre_recycle() registers into post_recycle', ['C04'], ['binding', 'R04.1'],
      ('src/managed/builder.rs', "        self.hooks.pre_recycle.push(hook.into());", "        self.hooks.post_recycle.push(hook.into());")),
    m('B04-13', 'recycle timeout uses the pool-level instead of the per-call value', ['C04', 'C10'], ['R04.1', 'R10.3'],
      (M, "            timeouts.recycle,\n            self.inner.manager.recycle", "            self.inner.config.timeouts.create,\n            self.inner.manager.recycle")),
]

MUTANTS += [
    m('B09-1', 'retain: predicate negated', ['C09'], ['R09.1'],
      (M, "            if predicate(&mut obj.obj, obj.metrics) {", "            if !predicate(&mut obj.obj, obj.metrics) {")),
    m('B09-2', 'retain: size not reduced', ['C09', 'C11'], ['R09.1', 'R11.2'],
      (M, "        guard.size -= removed.len();\n", "")),
    m('B09-3', 'retain: no detach', ['C09'], ['R09.1', 'R09.3'],
      (M, "                self.manager().detach(&mut obj.obj);\n", "")),
    m('B09-4', 'detach_object: no Manager::detach', ['C09'], ['R09.2', 'R09.3'],
      (M, "            self.semaphore.add_permits(1);\n        }\n        self.manager.detach(obj);", "            self.semaphore.add_permits(1);\n        }\n        let _ = obj;")),
    m('B09-5', 'revert D2: shrink drops objects without detach', ['C09'], ['R09.4', 'R09.3'],
      (M, "                    if let Some(mut obj) = slots.vec.pop_front() {\n                        slots.size -= 1;\n                        self.inner.manager.detach(&mut obj.obj);\n                    }", "                    if slots.vec.pop_front().is_some() {\n                        slots.size -= 1;\n                    }")),
    m('B09-6', 'retain: swap_remove_back instead of remove', ['C09', 'C08'], ['R09.1', 'R08.2'],
      (M, "let mut obj = guard.vec.remove(i).unwrap();", "let mut obj = guard.vec.swap_remove_back(i).unwrap();")),
    m('B09-7', 'retain: removes index 0 instead of i', ['C09'], ['R09.1'],
      (M, "let mut obj = guard.vec.remove(i).unwrap();", "let mut obj = guard.vec.remove(0).unwrap();")),
    m('B09-8', 'return_object: surplus object dropped without detach', ['C09'], ['R09.4', 'R09.3'],
      (M, "            slots.size -= 1;\n            drop(slots);\n            self.manager.detach(&mut inner.obj);", "            slots.size -= 1;\n            drop(slots);")),
    m('B09-9', 'detach_object: users not decremented', ['C09', 'C11'], ['R09.2', 'R11.2'],
      (M, "    fn detach_object(&self, obj: &mut M::Type) {\n        let _ = self.users.fetch_sub(1, Ordering::Relaxed);", "    fn detach_object(&self, obj: &mut M::Type) {")),
    m('B09-10', 'retain also adds permits for removed objects', ['C09', 'C01'], ['R09.1', 'R01.4'],
      (M, "        guard.size -= removed.len();\n", "        guard.size -= removed.len();\n        self.inner.semaphore.add_permits(removed.len());\n")),
    m('B09-11', 'return_object detaches and still keeps the object', ['C09'], ['R09.3'],
      (M, "        if slots.size <= slots.max_size {\n            slots.vec.push_back(inner);", "        if slots.size <= slots.max_size {\n            self.manager.detach(&mut inner.obj);\n            slots.vec.push_back(inner);")),
    m('B09-12', 'retain: retained reports the number removed', ['C09'], ['R09.1'],
      (M, "            retained: i,", "            retained: removed.len(),")),
    m('B09-13', 'resize clears the queue without detach', ['C09'], ['R09.4'],
      (M, "            // Create a new VecDeque with a smaller capacity", "            if max_size == 0 {\n                slots.size -= slots.vec.len();\n                slots.vec.clear();\n            }\n            // Create a new VecDeque with a smaller capacity")),
]

MUTANTS += [
    m('B07-1', 'grow adds max_size permits instead of the delta', ['C07'], ['R07.2'],
      (M, "            self.inner.semaphore.add_permits(additional);", "            self.inner.semaphore.add_permits(slots.max_size);")),
    m('B07-2', 'resize does not store max_size', ['C07'], ['R07.1', 'R07.2'],
      (M, "        slots.max_size = max_size;\n", "")),
    m('B07-3', 'shrink pops without size -= 1', ['C07', 'C11'], ['R07.3'],
      (M, "                    if let Some(mut obj) = slots.vec.pop_front() {\n                        slots.size -= 1;\n", "                    if let Some(mut obj) = slots.vec.pop_front() {\n")),
    m('B07-4', 'shrink pops without forgetting a permit', ['C07', 'C01'], ['R07.3'],
      (M, "                if let Ok(permit) = self.inner.semaphore.try_acquire() {\n                    permit.forget();", "                if let Ok(_permit) = self.inner.semaphore.try_acquire() {")),
    m('B07-5', 'grow condition >=', ['C07'], ['R07.2'],
      (M, "        if max_size > old_max_size {\n            let additional = slots.max_size - old_max_size;", "        if max_size >= old_max_size {\n            let additional = slots.max_size - old_max_size;")),
    m('B07-6', 'grow computes old - new (swapped, guarded by <)', ['C07'], ['R07.2'],
      (M, "        if max_size > old_max_size {\n            let additional = slots.max_size - old_max_size;", "        if max_size < old_max_size {\n            let additional = old_max_size - slots.max_size;")),
    m('B07-7', 'resize stores max_size + 1', ['C07'], ['R07.1'],
      (M, "        slots.max_size = max_size;\n", "        slots.max_size = max_size + 1;\n")),
    m('B07-8', 'return_object keeps surplus objects when only one over', ['C07', 'C01'], ['R07.4', 'R01.4'],
      (M, "        if slots.size <= slots.max_size {\n            slots.vec.push_back(inner);", "        if slots.size <= slots.max_size + 1 {\n            slots.vec.push_back(inner);")),
    m('B07-9', 'forget a permit without try_acquire success check (forget many)', ['C07'], ['R07.3'],
      (M, "                    permit.forget();\n                    if let Some(mut obj)", "                    permit.forget();\n                    if let Ok(p2) = self.inner.semaphore.try_acquire() { p2.forget(); }\n                    if let Some(mut obj)")),
]

MUTANTS += [
    m('B06-1', 'close: Semaphore::close before resize(0)', ['C06'], ['R06.1'],
      (M, "        self.resize(0);\n        self.inner.semaphore.close();\n", "        self.inner.semaphore.close();\n        self.resize(0);\n")),
    m('B06-2', 'close: resize(1)', ['C06'], ['R06.1'],
      (M, "        self.resize(0);\n        self.inner.semaphore.close();\n", "        self.resize(1);\n        self.inner.semaphore.close();\n")),
    m('B06-3', 'resize: no early return when closed', ['C06'], ['R06.2'],
      (M, "        if self.inner.semaphore.is_closed() {\n            return;\n        }\n        let old_max_size", "        let old_max_size")),
    m('B06-4', 'revert D6: close does not drain', ['C06'], ['R06.5'],
      (M, """        while let Some(mut obj) = slots.vec.pop_front() {
            slots.size -= 1;
            self.inner.manager.detach(&mut obj.obj);
        }
    }""", "    }")),
    m('B06-5', 'close drains only one object', ['C06'], ['R06.5'],
      (M, "        while let Some(mut obj) = slots.vec.pop_front() {\n            slots.size -= 1;\n            self.inner.manager.detach(&mut obj.obj);\n        }\n    }", "        if let Some(mut obj) = slots.vec.pop_front() {\n            slots.size -= 1;\n            self.inner.manager.detach(&mut obj.obj);\n        }\n    }")),
    m('B06-6', 'blocking acquire error mapped to Timeout(Wait)', ['C06', 'C04'], ['R06.3', 'R04.5'],
      (M, "                        .map_err(|_| PoolError::Closed)\n                },", "                        .map_err(|_| PoolError::Timeout(TimeoutType::Wait))\n                },")),
    m('B06-7', 'try_acquire Closed mapped to Timeout', ['C06'], ['R06.3'],
      (M, "                TryAcquireError::Closed => PoolError::Closed,", "                TryAcquireError::Closed => PoolError::Timeout(TimeoutType::Wait),")),
    m('B06-8', 'close drain does not release the size slot', ['C06', 'C11'], ['R06.5', 'R11.2'],
      (M, "        while let Some(mut obj) = slots.vec.pop_front() {\n            slots.size -= 1;\n            self.inner.manager.detach", "        while let Some(mut obj) = slots.vec.pop_front() {\n            self.inner.manager.detach")),
    m('B06-9', 'is_closed reports on max_size instead of the semaphore', ['C06'], ['R06.2'],
      (M, "    pub fn is_closed(&self) -> bool {\n        self.inner.semaphore.is_closed()", "    pub fn is_closed(&self) -> bool {\n        self.inner.slots.lock().unwrap().max_size == 0")),
    m('B06-10', 'revert D10a: resize tests is_closed() before taking the lock', ['C06'], ['R06.2'],
      (M, "        let mut slots = self.inner.slots.lock().unwrap();\n        // This check needs to happen while holding the lock. Otherwise a\n        // concurrent `close()` could finish between the check and the update\n        // and the closed pool would end up with a non-zero `max_size`.\n        if self.inner.semaphore.is_closed() {\n            return;\n        }\n", "        if self.inner.semaphore.is_closed() {\n            return;\n        }\n        let mut slots = self.inner.slots.lock().unwrap();\n")),
    m('B06-11', 'revert D10b: close does not zero max_size', ['C06'], ['R06.7'],
      (M, "        slots.max_size = 0;\n        while let Some(mut obj)", "        while let Some(mut obj)")),
    m('B06-12', 'resize writes max_size before the closed test', ['C06'], ['R06.2'],
      (M, "        if self.inner.semaphore.is_closed() {\n            return;\n        }\n        let old_max_size = slots.max_size;\n        slots.max_size = max_size;\n", "        let old_max_size = slots.max_size;\n        slots.max_size = max_size;\n        if self.inner.semaphore.is_closed() {\n            return;\n        }\n")),

    m('B08-1', 'pop_front / pop_back swapped between the modes', ['C08'], ['R08.1'],
      (M, "                QueueMode::Fifo => self.inner.slots.lock().unwrap().vec.pop_front(),\n                QueueMode::Lifo => self.inner.slots.lock().unwrap().vec.pop_back(),", "                QueueMode::Fifo => self.inner.slots.lock().unwrap().vec.pop_back(),\n                QueueMode::Lifo => self.inner.slots.lock().unwrap().vec.pop_front(),")),
    m('B08-2', 'return_object: push_front', ['C08'], ['R08.2'],
      (M, "            slots.vec.push_back(inner);", "            slots.vec.push_front(inner);")),
    m('B08-3', 'from_builder eagerly calls detach on nothing (manager touched at build)', ['C08'], ['R08.4'],
      (M, "    pub(crate) fn from_builder(builder: PoolBuilder<M, W>) -> Self {\n        Self {", "    pub(crate) fn from_builder(builder: PoolBuilder<M, W>) -> Self {\n        drop(builder.manager.create());\n        Self {")),
    m('B08-4', 'getter creates a spare object even when an idle one was found', ['C08'], ['R08.3'],
      (M, "            let inner_obj = if let Some(inner_obj) = inner_obj {\n                self.try_recycle(timeouts, inner_obj).await?", "            let inner_obj = if let Some(inner_obj) = inner_obj {\n                if inner_obj.metrics.recycle_count > 1_000_000 {\n                    self.inner.slots.lock().unwrap().vec.push_back(inner_obj);\n                    return self.try_create(timeouts).await.map(|o| Object { inner: o, pool: Arc::downgrade(&self.inner) }.into());\n                }\n                self.try_recycle(timeouts, inner_obj).await?")),
    m('B08-5', 'both modes pop from the front', ['C08'], ['R08.1'],
      (M, "                QueueMode::Lifo => self.inner.slots.lock().unwrap().vec.pop_back(),", "                QueueMode::Lifo => self.inner.slots.lock().unwrap().vec.pop_front(),")),
    m('B08-6', 'resize re-queues idle objects reversed', ['C08'], ['R08.2'],
      (M, "            for obj in slots.vec.drain(..) {\n                vec.push_back(obj);", "            for obj in slots.vec.drain(..) {\n                vec.push_front(obj);")),
    m('B08-7', 'status() pings the manager', ['C08'], ['R08.4'],
      (M, "        let slots = self.inner.slots.lock().unwrap();\n        let users = self.inner.users.load(Ordering::Relaxed);", "        drop(self.inner.manager.create());\n        let slots = self.inner.slots.lock().unwrap();\n        let users = self.inner.users.load(Ordering::Relaxed);")),
    m('B08-8', 'getter ignores the configured mode (uses default)', ['C08'], ['R08.1'],
      (M, "            let inner_obj = match self.inner.config.queue_mode {", "            let inner_obj = match QueueMode::default() {")),

    m('B11-1', 'status: both branches subtract size - users', ['C11'], ['R11.1'],
      (M, "            (0, users - slots.size)", "            (0, slots.size - users)")),
    m('B11-2', 'status: users loaded after the guard is dropped', ['C11'], ['R11.1'],
      (M, "        let slots = self.inner.slots.lock().unwrap();\n        let users = self.inner.users.load(Ordering::Relaxed);\n        let (available, waiting) = if users < slots.size {\n            (slots.size - users, 0)\n        } else {\n            (0, users - slots.size)\n        };\n        Status {\n            max_size: slots.max_size,\n            size: slots.size,",
          "        let slots = self.inner.slots.lock().unwrap();\n        let (size, max_size) = (slots.size, slots.max_size);\n        drop(slots);\n        let users = self.inner.users.load(Ordering::Relaxed);\n        let (available, waiting) = if users < size {\n            (size - users, 0)\n        } else {\n            (0, users - size)\n        };\n        Status {\n            max_size,\n            size,")),
    m('B11-3', 'status: comparison <= swapped to >', ['C11'], ['R11.1'],
      (M, "        let (available, waiting) = if users < slots.size {", "        let (available, waiting) = if users > slots.size {")),
    m('B11-4', 'status reports max_size as size', ['C11'], ['R11.4'],
      (M, "            max_size: slots.max_size,\n            size: slots.size,", "            max_size: slots.max_size,\n            size: slots.max_size,")),
    m('B11-5', 'status swaps available and waiting', ['C11'], ['R11.4'],
      (M, "            available,\n            waiting,\n        }", "            available: waiting,\n            waiting: available,\n        }")),
    m('B11-6', 'return_object forgets users -= 1', ['C11'], ['R11.2'],
      (M, "    fn return_object(&self, mut inner: ObjectInner<M>) {\n        let _ = self.users.fetch_sub(1, Ordering::Relaxed);", "    fn return_object(&self, mut inner: ObjectInner<M>) {")),
    m('B11-7', 'retain also writes max_size', ['C11'], ['R11.2'],
      (M, "        guard.size -= removed.len();\n", "        guard.size -= removed.len();\n        guard.max_size = guard.max_size.max(guard.size);\n")),

    m('B13-1', 'recycle_count bumped before the post_recycle hooks', ['C13'], ['R13.2'],
      (M, "        // Apply post_recycle hooks\n        if let Err(_e) = self.inner.hooks.post_recycle.apply(inner).await {", "        inner.metrics.recycle_count += 1;\n        // Apply post_recycle hooks\n        if let Err(_e) = self.inner.hooks.post_recycle.apply(inner).await {"),
      (M, "        inner.metrics.recycle_count += 1;\n        #[cfg(not(target_arch", "        #[cfg(not(target_arch")),
    m('B13-2', 'return_object stamps metrics.recycled', ['C13'], ['R13.1'],
      (M, "        let mut slots = self.slots.lock().unwrap();\n        if slots.size <= slots.max_size {\n            slots.vec.push_back(inner);", "        inner.metrics.recycled = Some(Instant::now());\n        let mut slots = self.slots.lock().unwrap();\n        if slots.size <= slots.max_size {\n            slots.vec.push_back(inner);")),
    m('B13-3', 'recycler resets metrics on success', ['C13'], ['R13.1'],
      (M, "        inner.metrics.recycle_count += 1;\n        #[cfg(not(target_arch", "        inner.metrics = Metrics::default();\n        inner.metrics.recycle_count += 1;\n        #[cfg(not(target_arch")),
    m('B13-4', 'recycle_count += 2', ['C13'], ['R13.1'],
      (M, "        inner.metrics.recycle_count += 1;", "        inner.metrics.recycle_count += 2;")),
    m('B13-5', 'retain passes fresh default metrics to the predicate', ['C13'], ['R13.3'],
      (M, "            if predicate(&mut obj.obj, obj.metrics) {", "            if predicate(&mut obj.obj, Metrics::default()) {")),
    m('B13-6', 'recycled set to created instead of now', ['C13'], ['R13.1'],
      (M, "            inner.metrics.recycled = Some(Instant::now());", "            inner.metrics.recycled = Some(inner.metrics.created);")),
    m('B13-7', 'metrics bumped before Manager::recycle', ['C13'], ['R13.2'],
      (M, "        match apply_timeout(\n            self.inner.runtime,\n            TimeoutType::Recycle,", "        inner.metrics.recycle_count += 1;\n        match apply_timeout(\n            self.inner.runtime,\n            TimeoutType::Recycle,"),
      (M, "        inner.metrics.recycle_count += 1;\n        #[cfg(not(target_arch", "        #[cfg(not(target_arch")),
    m('B13-8', 'new objects start with recycle_count 1', ['C13'], ['R13.1'],
      ('src/managed/metrics.rs', "            recycle_count: 0,", "            recycle_count: 1,")),
]

B = 'src/managed/builder.rs'
MUTANTS += [
    m('B05-1', '_add: permit added before the push', ['C05'], ['R05.3'],
      (U, "    fn _add(&self, object: T) -> Result<(), T> {\n        {", "    fn _add(&self, object: T) -> Result<(), T> {\n        self.inner.semaphore.add_permits(1);\n        {"),
      (U, "        let _ = self.inner.available.fetch_add(1, Ordering::Relaxed);\n        self.inner.semaphore.add_permits(1);\n        Ok(())", "        let _ = self.inner.available.fetch_add(1, Ordering::Relaxed);\n        Ok(())")),
    m('B05-13', 'revert D9: _add pushes without re-checking closed', ['C12', 'C05'], ['R12.4'],
      (U, "            if self.inner.is_closed() {\n                return Err(object);\n            }\n", "")),
    m('B05-2', 'take does not return the size slot', ['C05'], ['R05.4'],
      (U, "            let _ = pool.size.fetch_sub(1, Ordering::Relaxed);\n            pool.size_semaphore.add_permits(1);", "            let _ = pool.size.fetch_sub(1, Ordering::Relaxed);")),
    m('B05-3', 'try_add: NoPermits reported as Closed', ['C05'], ['R05.5'],
      (U, "                TryAcquireError::NoPermits => (object, PoolError::Timeout),", "                TryAcquireError::NoPermits => (object, PoolError::Closed),")),
    m('B05-4', 'From<I>: size semaphore gets len permits', ['C05'], ['R05.4'],
      (U, "                size_semaphore: Semaphore::new(0),", "                size_semaphore: Semaphore::new(len),")),
    m('B05-5', 'clean_up clears an open pool', ['C05'], ['R05.2'],
      (U, "        if self.is_closed() {\n            self.clear();\n        }", "        self.clear();")),
    m('B05-6', 'try_add publishes without a size permit on NoPermits', ['C05'], ['R05.4'],
      (U, "                TryAcquireError::NoPermits => (object, PoolError::Timeout),\n                TryAcquireError::Closed => (object, PoolError::Closed),\n            }),", "                TryAcquireError::NoPermits => {\n                    self._add(object);\n                    return Ok(());\n                }\n                TryAcquireError::Closed => (object, PoolError::Closed),\n            }),")),
    m('B05-7', 'Object::drop drops the object when the queue is long', ['C05'], ['R05.2'],
      (U, "                {\n                    let mut queue = pool.queue.lock().unwrap();\n                    queue.push(obj);\n                }", "                {\n                    let mut queue = pool.queue.lock().unwrap();\n                    if queue.len() > 1_000_000 {\n                        drop(obj);\n                        return;\n                    }\n                    queue.push(obj);\n                }")),
    m('B05-8', 'revert D5: available decremented only after success', ['C05'], ['R05.7'],
      (U, "        let guard = GetGuard::new(&inner.available);\n        let permit = inner.semaphore.try_acquire()", "        let permit = inner.semaphore.try_acquire()"),
      (U, "        let guard = GetGuard::new(&inner.available);\n        let permit = match (timeout, inner.config.runtime) {", "        let permit = match (timeout, inner.config.runtime) {"),
            {'file': U, 'old': "        guard.success();\n", 'new': "        let _ = inner.available.fetch_sub(1, Ordering::Relaxed);\n", 'count': 2},
      ),
    m('B05-9', 'try_get acquires on the size semaphore', ['C05'], ['R05.3', 'binding'],
      (U, "        let permit = inner.semaphore.try_acquire().map_err(|e| match e {\n            TryAcquireError::NoPermits => PoolError::Timeout,", "        let permit = inner.size_semaphore.try_acquire().map_err(|e| match e {\n            TryAcquireError::NoPermits => PoolError::Timeout,")),
    m('B05-10', 'from_config: object semaphore starts with max_size permits', ['C05'], ['R05.4'],
      (U, "                available: AtomicIsize::new(0),\n                semaphore: Semaphore::new(0),", "                available: AtomicIsize::new(0),\n                semaphore: Semaphore::new(config.max_size),")),
    m('B05-11', 'try_add error loses the object (default in tuple impossible -> drop and rebuild)', ['C05'], ['R05.2', 'R05.5'],
      (U, "    pub fn try_add(&self, object: T) -> Result<(), (T, PoolError)> {\n        match self.inner.size_semaphore.try_acquire() {", "    pub fn try_add(&self, object: T) -> Result<(), (T, PoolError)> {\n        if self.inner.size.load(Ordering::Relaxed) > 1_000_000 {\n            drop(object);\n            return Ok(());\n        }\n        match self.inner.size_semaphore.try_acquire() {")),
    m('B05-12', 'GetGuard disarmed before the pop', ['C05'], ['R05.7'],
      (U, "        let permit = inner.semaphore.try_acquire().map_err(|e| match e {\n            TryAcquireError::NoPermits => PoolError::Timeout,\n            TryAcquireError::Closed => PoolError::Closed,\n        })?;\n", "        let permit = inner.semaphore.try_acquire().map_err(|e| match e {\n            TryAcquireError::NoPermits => PoolError::Timeout,\n            TryAcquireError::Closed => PoolError::Closed,\n        })?;\n        guard.success();\n        let guard = GetGuard::new(&inner.available);\n        std::mem::forget(guard);\n        let guard = GetGuard(&inner.available);\n")),

    m('B10-1', 'non-blocking test uses as_secs() == 0', ['C10'], ['R10.1'],
      (M, "            Some(t) => t.as_nanos() == 0,", "            Some(t) => t.as_secs() == 0,")),
    m('B10-2', 'apply_timeout: no runtime -> awaits the future without timeout', ['C10'], ['R10.2'],
      (M, "        (None, Some(_)) => Err(PoolError::NoRuntimeSpecified),", "        (None, Some(_)) => future.await.map_err(Into::into),")),
    m('B10-3', 'build() does not test recycle', ['C10'], ['R10.5'],
      (B, "if (t.wait.is_some() || t.create.is_some() || t.recycle.is_some()) && self.runtime.is_none()", "if (t.wait.is_some() || t.create.is_some()) && self.runtime.is_none()")),
    m('B10-4', 'unmanaged: runtime test above the zero test', ['C10'], ['R10.7'],
      (U, """            (Some(timeout), _) if timeout.as_nanos() == 0 => {
                inner.semaphore.try_acquire().map_err(|e| match e {
                    TryAcquireError::NoPermits => PoolError::Timeout,
                    TryAcquireError::Closed => PoolError::Closed,
                })
            }
""", """            (Some(_), None) => Err(PoolError::NoRuntimeSpecified),
            (Some(timeout), _) if timeout.as_nanos() == 0 => {
                inner.semaphore.try_acquire().map_err(|e| match e {
                    TryAcquireError::NoPermits => PoolError::Timeout,
                    TryAcquireError::Closed => PoolError::Closed,
                })
            }
""")),
    m('B10-5', 'revert D3: recycle result collapsed with is_err()', ['C10', 'C04'], ['R10.6'],
      (M, """        .await
        {
            Ok(()) => {}
            // A recycle timeout without a runtime is a usage error and not a
            // broken object: report it instead of discarding one idle object
            // after the other.
            Err(PoolError::NoRuntimeSpecified) => return Err(PoolError::NoRuntimeSpecified),
            Err(_) => return Ok(None),
        }
""", """        .await
        .is_err()
        {
            return Ok(None);
        }
"""),
      (M, "        match apply_timeout(\n            self.inner.runtime,\n            TimeoutType::Recycle,", "        if apply_timeout(\n            self.inner.runtime,\n            TimeoutType::Recycle,")),
    m('B10-6', 'apply_timeout reports Timeout(Wait) regardless of the type passed', ['C10'], ['R10.2'],
      (M, "            .ok_or(PoolError::Timeout(timeout_type))?", "            .ok_or(PoolError::Timeout(TimeoutType::Wait))?")),
    m('B10-7', 'build() rejects timeouts even with a runtime', ['C10'], ['R10.5'],
      (B, "if (t.wait.is_some() || t.create.is_some() || t.recycle.is_some()) && self.runtime.is_none()", "if t.wait.is_some() || t.create.is_some() || t.recycle.is_some()")),
    m('B10-8', 'getter uses pool-level wait timeout instead of the per-call one', ['C10'], ['R10.3'],
      (M, "                TimeoutType::Wait,\n                timeouts.wait,", "                TimeoutType::Wait,\n                self.inner.config.timeouts.wait,")),
    m('B10-9', 'non-blocking mode also for wait == None', ['C10'], ['R10.1'],
      (M, "            None => false,\n        };\n\n        let permit", "            None => true,\n        };\n\n        let permit")),
    m('B10-10', 'unmanaged: zero timeout waits with the runtime', ['C10'], ['R10.7'],
      (U, "            (Some(timeout), _) if timeout.as_nanos() == 0 => {", "            (Some(timeout), None) if timeout.as_nanos() == 0 => {")),
    m('B10-11', 'Runtime::timeout ignores the duration (1s)', ['C10'], ['R10.8'],
      ('runtime/src/lib.rs', "Self::Tokio1 => tokio_1::time::timeout(duration, future).await.ok(),", "Self::Tokio1 => tokio_1::time::timeout(Duration::from_secs(1), future).await.ok(),")),
    m('B10-12', 'apply_timeout polls the future once before reporting NoRuntimeSpecified', ['C10'], ['R10.2'],
      (M, "        (None, Some(_)) => Err(PoolError::NoRuntimeSpecified),", "        (None, Some(_)) => {\n            let _ = future.await;\n            Err(PoolError::NoRuntimeSpecified)\n        }")),

    m('B12-1', 'unmanaged close: clear before closing the semaphores', ['C12'], ['R12.2'],
      (U, "        self.inner.semaphore.close();\n        self.inner.size_semaphore.close();\n        self.inner.clear();", "        self.inner.clear();\n        self.inner.semaphore.close();\n        self.inner.size_semaphore.close();")),
    m('B12-2', 'revert D4: queue.pop().unwrap()', ['C12'], ['R12.1'],
      (U, "            queue.pop().ok_or(PoolError::Closed)?\n        };\n        permit.forget();\n        guard.success();\n        Ok(Object {\n            pool: Arc::downgrade(&self.inner),\n            obj: Some(obj),\n        })\n    }\n\n    /// Retrieves an [`Object`] from this [`Pool`] using a different `timeout`", "            queue.pop().unwrap()\n        };\n        permit.forget();\n        guard.success();\n        Ok(Object {\n            pool: Arc::downgrade(&self.inner),\n            obj: Some(obj),\n        })\n    }\n\n    /// Retrieves an [`Object`] from this [`Pool`] using a different `timeout`")),
    m('B12-3', 'close does not close the size semaphore', ['C12', 'C05'], ['R12.2'],
      (U, "        self.inner.semaphore.close();\n        self.inner.size_semaphore.close();\n        self.inner.clear();", "        self.inner.semaphore.close();\n        self.inner.clear();")),
    m('B12-4', 'try_get: Closed reported as Timeout', ['C12'], ['R12.3'],
      (U, "        let permit = inner.semaphore.try_acquire().map_err(|e| match e {\n            TryAcquireError::NoPermits => PoolError::Timeout,\n            TryAcquireError::Closed => PoolError::Closed,", "        let permit = inner.semaphore.try_acquire().map_err(|e| match e {\n            TryAcquireError::NoPermits => PoolError::Timeout,\n            TryAcquireError::Closed => PoolError::Timeout,")),
    m('B12-5', 'status() panics on a negative counter (expect)', ['C12'], ['R12.1'],
      (U, "            available: if available > 0 { available as usize } else { 0 },", "            available: usize::try_from(available).expect(\"negative\"),")),
    m('B12-6', 'Object::drop does not clean up a closed pool', ['C12'], ['R12.2'],
      (U, "                pool.semaphore.add_permits(1);\n                pool.clean_up();", "                pool.semaphore.add_permits(1);")),
    m('B12-7', 'clear() forgets to reduce size', ['C12', 'C05'], ['R12.2', 'R05.6'],
      (U, "        let _ = self.size.fetch_sub(queue.len(), Ordering::Relaxed);\n", "")),
    m('B12-8', 'blocking acquire failure reported as Timeout', ['C12'], ['R12.3'],
      (U, "                .acquire()\n                .await\n                .map_err(|_| PoolError::Closed),", "                .acquire()\n                .await\n                .map_err(|_| PoolError::Timeout),")),
]

S = 'sync/src/lib.rs'
MUTANTS += [
    m('B14-1', 'Drop for SyncWrapper destroys the value inline', ['C14'], ['R14.2'],
      (S, """        let arc = self.obj.clone();
        // Drop the `rusqlite::Connection` inside a `spawn_blocking`
        // as the `drop` function of it can block.
        self.runtime
            .spawn_blocking_background(move || match arc.lock() {
                Ok(mut guard) => drop(guard.take()),
                Err(e) => drop(e.into_inner().take()),
            })
            .unwrap();""", """        match self.obj.lock() {
            Ok(mut guard) => drop(guard.take()),
            Err(e) => drop(e.into_inner().take()),
        }""")),
    m('B14-2', 'interact runs the closure inline when the lock is free', ['C14'], ['R14.1'],
      (S, "        let arc = self.obj.clone();\n        #[cfg(feature = \"tracing\")]\n        let span = tracing::Span::current();\n        self.runtime", "        if let Ok(mut guard) = self.obj.try_lock() {\n            if let Some(conn) = guard.as_mut() {\n                return Ok(f(conn));\n            }\n        }\n        let arc = self.obj.clone();\n        #[cfg(feature = \"tracing\")]\n        let span = tracing::Span::current();\n        self.runtime")),
    m('B14-3', 'panic reported as Aborted', ['C14'], ['R14.4'],
      (S, ".map_err(|SpawnBlockingError::Panic(p)| InteractError::Panic(p))?", ".map_err(|SpawnBlockingError::Panic(_p)| InteractError::Aborted)?")),
    m('B14-4', 'poisoned lock in Drop leaks the value', ['C14'], ['R14.2'],
      (S, "                Err(e) => drop(e.into_inner().take()),", "                Err(e) => drop(e),")),
    m('B14-5', 'new() runs the constructor inline', ['C14'], ['R14.1'],
      (S, "        let result = match runtime.spawn_blocking(f).await {", "        let result = match runtime.spawn_blocking(move || Ok::<_, std::convert::Infallible>(())).await.map(|_| f()) {")),
    m('B14-6', 'is_mutex_poisoned always false', ['C14'], ['R14.4'],
      (S, "    pub fn is_mutex_poisoned(&self) -> bool {\n        self.obj.is_poisoned()", "    pub fn is_mutex_poisoned(&self) -> bool {\n        let _ = self.obj.is_poisoned();\n        false")),
    m('B14-7', 'runtime: spawn_blocking_background runs the closure inline', ['C14'], ['R14.5'],
      ('runtime/src/lib.rs', "            Self::Tokio1 => {\n                drop(tokio_1::task::spawn_blocking(f));\n                Ok(())\n            }", "            Self::Tokio1 => {\n                f();\n                Ok(())\n            }")),

    m('B15-1', 'r2d2 recycle: no poisoned test', ['C15'], ['R15.1'],
      ('r2d2/src/manager.rs', """        if obj.is_mutex_poisoned() {
            return Err(RecycleError::message(
                "Mutex is poisoned. Connection is considered unusable.",
            ));
        }
""", "")),
    m('B15-2', 'r2d2 ignores has_broken', ['C15'], ['R15.3'],
      ('r2d2/src/manager.rs', "            if r2d2_manager.has_broken(obj) {", "            if false && r2d2_manager.has_broken(obj) {")),
    m('B15-3', 'diesel checks the transaction manager only for Verified', ['C15'], ['R15.4'],
      ('diesel/src/manager.rs', """        if C::TransactionManager::is_broken_transaction_manager(conn) {
            return Err(Error::BrokenTransactionManger);
        }
        match self {
            // For fast we are basically done
            RecyclingMethod::Fast => {}""", """        match self {
            // For fast we are basically done
            RecyclingMethod::Fast => {}"""),
      ('diesel/src/manager.rs', "            RecyclingMethod::Verified => {\n                let _ =", "            RecyclingMethod::Verified => {\n                if C::TransactionManager::is_broken_transaction_manager(conn) {\n                    return Err(Error::BrokenTransactionManger);\n                }\n                let _ =")),
    m('B15-4', 'sqlite: poisoned test logs but continues', ['C15'], ['R15.1'],
      ('sqlite/src/lib.rs', """        if conn.is_mutex_poisoned() {
            return Err(RecycleError::Message(
                "Mutex is poisoned. Connection is considered unusable.".into(),
            ));
        }""", """        if conn.is_mutex_poisoned() {
            let _ = RecycleError::<rusqlite::Error>::Message(
                "Mutex is poisoned. Connection is considered unusable.".into(),
            );
        }""")),
    m('B15-5', 'sqlite: mismatch accepted', ['C15'], ['R15.5'],
      ('sqlite/src/lib.rs', "            Err(RecycleError::message(\"Recycle count mismatch\"))", "            Ok(())")),
    m('B15-6', 'diesel: interaction failure (panic) treated as success', ['C15'], ['R15.2'],
      ('diesel/src/manager.rs', """            .await
            .map_err(|e| RecycleError::message(format!("Panic: {:?}", e)))
            .and_then(|r| r.map_err(RecycleError::Backend))""", """            .await
            .ok();
        Ok(())""")),
    m('B15-7', 'r2d2: is_valid result discarded', ['C15'], ['R15.3'],
      ('r2d2/src/manager.rs', "                r2d2_manager.is_valid(obj).map_err(RecycleError::Backend)", "                let _ = r2d2_manager.is_valid(obj);\n                Ok(())")),
    m('B15-8', 'diesel: Verified query error ignored', ['C15'], ['R15.4'],
      ('diesel/src/manager.rs', "                let _ = diesel::select(1.into_sql::<diesel::sql_types::Integer>())\n                    .execute(conn)\n                    .map_err(Error::Ping)?;", "                let _ = diesel::select(1.into_sql::<diesel::sql_types::Integer>())\n                    .execute(conn)\n                    .map_err(Error::Ping);")),
    m('B15-9', 'sqlite compares against a constant instead of the counter', ['C15'], ['R15.5'],
      ('sqlite/src/lib.rs', "        if n == recycle_count {", "        if n == n {")),
]

P = 'postgres/src/lib.rs'
PC = 'postgres/src/config.rs'
R = 'redis/src/lib.rs'
RC = 'redis/src/config.rs'
MUTANTS += [
    m('B16-1', 'postgres recycle: no is_closed test', ['C16'], ['R16.1'],
      (P, """        if client.is_closed() {
            tracing::warn!(target: "deadpool.postgres", "Connection could not be recycled: Connection closed");
            return Err(RecycleError::message("Connection closed"));
        }
""", "")),
    m('B16-2', 'Verified sends no query', ['C16'], ['R16.1'],
      (PC, "            Self::Verified => Some(\"\"),", "            Self::Verified => None,")),
    m('B16-3', 'cache lookup ignores the parameter types', ['C16'], ['R16.2'],
      (P, "        let key = StatementCacheKey {\n            query: Cow::Borrowed(query),\n            types: Cow::Borrowed(types),\n        };", "        let _ = types;\n        let key = StatementCacheKey {\n            query: Cow::Borrowed(query),\n            types: Cow::Borrowed(&[]),\n        };")),
    m('B16-4', 'insert counts every call', ['C16'], ['R16.4'],
      (P, "        if map.insert(key, stmt).is_none() {\n            let _ = self.size.fetch_add(1, Ordering::Relaxed);\n        }", "        let _ = map.insert(key, stmt);\n        let _ = self.size.fetch_add(1, Ordering::Relaxed);")),
    m('B16-5', 'create does not attach the statement cache', ['C16'], ['R16.6'],
      (P, "        self.statement_caches\n            .attach(&client_wrapper.statement_cache);\n", "")),
    m('B16-6', 'registry detach keeps only the matching entry', ['C16'], ['R16.6'],
      (P, "self.caches.lock().unwrap().retain(|sc| !sc.ptr_eq(&cache));", "self.caches.lock().unwrap().retain(|sc| sc.ptr_eq(&cache));")),
    m('B16-7', 'Clean script lacks DISCARD SEQUENCES', ['C16'], ['R16.1'],
      (PC, "        DISCARD TEMP; \\\n        DISCARD SEQUENCES;\\\n", "        DISCARD TEMP;\\\n")),
    m('B16-8', 'recycle query error ignored', ['C16'], ['R16.1'],
      (P, "                    Err(e.into())\n                }", "                    let _ = e;\n                    Ok(())\n                }")),
    m('B16-9', 'transaction gets a fresh statement cache', ['C16'], ['R16.5'],
      (P, "            txn: PgClient::transaction(&mut self.client).await?,\n            statement_cache: self.statement_cache.clone(),", "            txn: PgClient::transaction(&mut self.client).await?,\n            statement_cache: Arc::new(StatementCache::new()),")),
    m('B16-10', 'statement cached before the prepare succeeded (inserted clone of a stale hit)', ['C16'], ['R16.3', 'R16.2'],
      (P, "                let stmt = client.prepare_typed(query, types).await?;\n                self.insert(query, types, stmt.clone());", "                let stmt = client.prepare_typed(query, types).await?;\n                self.insert(query, &[], stmt.clone());")),
    m('B16-11', 'Manager::detach does nothing', ['C16', 'C09'], ['R16.6', 'R09.5'],
      (P, "        self.statement_caches.detach(&object.statement_cache);", "        let _ = object;")),
    m('B16-12', 'registry clear skips the first cache', ['C16'], ['R16.6'],
      (P, "        let caches = self.caches.lock().unwrap();\n        for cache in caches.iter() {\n            if let Some(cache) = cache.upgrade() {\n                cache.clear();", "        let caches = self.caches.lock().unwrap();\n        for cache in caches.iter().skip(1) {\n            if let Some(cache) = cache.upgrade() {\n                cache.clear();")),
    m('B16-13', 'remove decrements size unconditionally', ['C16'], ['R16.4'],
      (P, "        if removed.is_some() {\n            let _ = self.size.fetch_sub(1, Ordering::Relaxed);\n        }", "        let _ = self.size.fetch_sub(1, Ordering::Relaxed);")),

    m('B17-1', 'no UNWATCH', ['C17'], ['R17.1'],
      (R, "            .cmd(\"UNWATCH\")\n            .ignore()\n", "")),
    m('B17-2', 'PING with a constant argument', ['C17'], ['R17.1'],
      (R, "            .arg(&ping_number)", "            .arg(\"0\")")),
    m('B17-3', 'reply not checked', ['C17'], ['R17.1'],
      (R, "        if n == ping_number {\n            Ok(())\n        } else {\n            Err(managed::RecycleError::message(\"Invalid PING response\"))\n        }", "        let _ = n == ping_number;\n        Ok(())")),
    m('B17-4', 'counter not advanced (fetch_add 0)', ['C17'], ['R17.1'],
      (R, "self.ping_number.fetch_add(1, Ordering::Relaxed).to_string();", "self.ping_number.fetch_add(0, Ordering::Relaxed).to_string();")),
    m('B17-5', 'PING before UNWATCH', ['C17'], ['R17.1'],
      (R, "            .cmd(\"UNWATCH\")\n            .ignore()\n            .cmd(\"PING\")\n            .arg(&ping_number)\n            .query_async::<(String,)>(conn)", "            .cmd(\"PING\")\n            .arg(&ping_number)\n            .cmd(\"UNWATCH\")\n            .ignore()\n            .query_async::<(String,)>(conn)")),
    m('B17-6', 'mismatch accepted, match rejected (inverted)', ['C17'], ['R17.1'],
      (R, "        if n == ping_number {", "        if n != ping_number {")),
    m('B17-7', 'cluster Connection::take clones the connection instead of taking the object', ['C17'], ['R17.2'],
      ('redis/src/cluster/mod.rs', "        Object::take(this.conn)", "        (*this.conn).clone()")),

    m('B18-1', 'keepalives ignored', ['C18'], ['R18.1'],
      (PC, "        if let Some(keepalives) = self.keepalives {\n            cfg.keepalives(keepalives);\n        }\n", "")),
    m('B18-2', 'hosts applied before host', ['C18'], ['R18.2'],
      (PC, """        if let Some(host) = &self.host {
            cfg.host(host.as_str());
        }
        if let Some(hosts) = &self.hosts {
            for host in hosts.iter() {
                cfg.host(host.as_str());
            }
        }
""", """        if let Some(hosts) = &self.hosts {
            for host in hosts.iter() {
                cfg.host(host.as_str());
            }
        }
        if let Some(host) = &self.host {
            cfg.host(host.as_str());
        }
""")),
    m('B18-3', 'default socket dirs added unconditionally', ['C18'], ['R18.2'],
      (PC, "        if cfg.get_hosts().is_empty() {", "        if cfg.get_hosts().is_empty() || true {")),
    m('B18-4', 'SslMode::Prefer converts to Require', ['C18'], ['R18.3'],
      (PC, "            SslMode::Prefer => Self::Prefer,", "            SslMode::Prefer => Self::Require,")),
    m('B18-5', 'revert D8: target_session_attrs not applied', ['C18'], ['R18.1'],
      (PC, "        if let Some(target_session_attrs) = self.target_session_attrs {\n            cfg.target_session_attrs(target_session_attrs.into());\n        }\n", "")),
    m('B18-6', 'default hosts decided before host/hosts are applied', ['C18'], ['R18.2'],
      (PC, """        if let Some(host) = &self.host {
            cfg.host(host.as_str());
        }
        if let Some(hosts) = &self.hosts {
            for host in hosts.iter() {
                cfg.host(host.as_str());
            }
        }
        if cfg.get_hosts().is_empty() {""", """        let no_hosts = cfg.get_hosts().is_empty();
        if let Some(host) = &self.host {
            cfg.host(host.as_str());
        }
        if let Some(hosts) = &self.hosts {
            for host in hosts.iter() {
                cfg.host(host.as_str());
            }
        }
        if no_hosts {""")),
    m('B18-7', 'empty dbname accepted', ['C18'], ['R18.3'],
      (PC, "            Some(\"\") => {\n                return Err(ConfigError::DbnameEmpty);\n            }\n", "")),
    m('B18-8', 'connect_timeout fed from keepalives_idle', ['C18'], ['R18.1'],
      (PC, "        if let Some(connect_timeout) = self.connect_timeout {\n            cfg.connect_timeout(connect_timeout);", "        if let Some(connect_timeout) = self.keepalives_idle {\n            cfg.connect_timeout(connect_timeout);")),
    m('B18-9', 'create_pool ignores the runtime', ['C18'], ['R18.5'],
      (PC, "        if let Some(runtime) = runtime {\n            builder = builder.runtime(runtime);\n        }\n        builder.build().map_err(CreatePoolError::Build)\n    }\n\n    #[cfg(not(target_arch = \"wasm32\"))]\n    /// Creates a new [`PoolBuilder`]", "        let _ = runtime;\n        builder.build().map_err(CreatePoolError::Build)\n    }\n\n    #[cfg(not(target_arch = \"wasm32\"))]\n    /// Creates a new [`PoolBuilder`]")),
    m('B18-10', 'only the first of hosts is applied', ['C18'], ['R18.2'],
      (PC, "            for host in hosts.iter() {\n                cfg.host(host.as_str());\n            }", "            if let Some(host) = hosts.first() {\n                cfg.host(host.as_str());\n            }")),
    m('B18-11', 'user applied even when empty', ['C18'], ['R18.3'],
      (PC, "        if let Some(user) = self.user.as_ref().filter(|s| !s.is_empty()) {", "        if let Some(user) = self.user.as_ref() {")),
    m('B18-12', 'builder uses the default pool config', ['C18'], ['R18.5'],
      (PC, "        let pool_config = self.get_pool_config();\n        Ok(Pool::builder(manager).config(pool_config))", "        let pool_config = PoolConfig::default();\n        Ok(Pool::builder(manager).config(pool_config))")),
    m('B18-13', 'password unwrap (panic on None)', ['C18'], ['R18.4'],
      (PC, "        if let Some(password) = &self.password {\n            cfg.password(password);\n        }", "        cfg.password(self.password.as_ref().unwrap());")),

    m('B19-1', 'redis builder: url wins when both are given', ['C19'], ['R19.1'],
      (RC, "            (Some(_), Some(_)) => return Err(ConfigError::UrlAndConnectionSpecified),", "            (Some(url), Some(_)) => crate::Manager::new(url.as_str())?,")),
    m('B19-2', 'From<redis::RedisConnectionInfo>: username dropped', ['C19'], ['R19.2'],
      (RC, """        Self {
            db: info.db,
            username: info.username,
            password: info.password,
            protocol,
        }
    }
}

/// This error is returned""", """        Self {
            db: info.db,
            username: None,
            password: info.password,
            protocol,
        }
    }
}

/// This error is returned""")),
    m('B19-3', 'default queue mode Lifo', ['C19'], ['R19.3'],
      ('src/managed/config.rs', "impl Default for QueueMode {\n    fn default() -> Self {\n        Self::Fifo", "impl Default for QueueMode {\n    fn default() -> Self {\n        Self::Lifo")),
    m('B19-4', 'protocol RESP3 converts to RESP2', ['C19'], ['R19.2'],
      (RC, "            ProtocolVersion::RESP3 => redis::ProtocolVersion::RESP3,", "            ProtocolVersion::RESP3 => redis::ProtocolVersion::RESP2,")),
    m('B19-5', 'cluster builder: neither given uses the urls branch default of an empty list', ['C19'], ['R19.1'],
      ('redis/src/cluster/config.rs', "                super::Manager::new(vec![ConnectionInfo::default()], self.read_from_replicas)?", "                super::Manager::new(Vec::<ConnectionInfo>::new(), self.read_from_replicas)?")),
    m('B19-6', 'ConnectionAddr::TcpTls swaps host and port sources (insecure from default)', ['C19'], ['R19.2'],
      (RC, """            } => Self::TcpTls {
                host,
                port,
                insecure,
                tls_params: None,
            },""", """            } => Self::TcpTls {
                host,
                port,
                insecure: { let _ = insecure; false },
                tls_params: None,
            },""")),
    m('B19-7', 'timeouts no longer serde(default)', ['C19'], ['R19.3'],
      ('src/managed/config.rs', "    #[cfg_attr(feature = \"serde\", serde(default))]\n    pub timeouts: Timeouts,", "    pub timeouts: Timeouts,")),
    m('B19-8', 'sentinel builder: connections branch uses urls', ['C19'], ['R19.1'],
      ('redis/src/sentinel/config.rs', "            (None, Some(connections)) => super::Manager::new(\n                connections.clone(),", "            (None, Some(_connections)) => super::Manager::new(\n                vec![ConnectionInfo::default()],")),
    m('B19-9', 'Timeouts::new sets a wait timeout', ['C19'], ['R19.3'],
      ('src/managed/config.rs', "    pub const fn new() -> Self {\n        Self {\n            create: None,\n            wait: None,", "    pub const fn new() -> Self {\n        Self {\n            create: None,\n            wait: Some(Duration::from_secs(30)),")),
    m('B19-10', 'TlsMode::Insecure converts to Secure', ['C19'], ['R19.2'],
      ('redis/src/sentinel/config.rs', "            TlsMode::Insecure => redis::TlsMode::Insecure,", "            TlsMode::Insecure => redis::TlsMode::Secure,")),
    m('B19-11', 'ConnectionInfo: db section dropped (default redis info)', ['C19'], ['R19.2'],
      (RC, "impl From<ConnectionInfo> for redis::ConnectionInfo {\n    fn from(info: ConnectionInfo) -> Self {\n        Self {\n            addr: info.addr.into(),\n            redis: info.redis.into(),", "impl From<ConnectionInfo> for redis::ConnectionInfo {\n    fn from(info: ConnectionInfo) -> Self {\n        Self {\n            addr: info.addr.into(),\n            redis: redis::RedisConnectionInfo::default(),")),
]

BENIGN = [
    m('N01-1', 'return_object: max_size >= size', ['C01'], [],
      (M, "        if slots.size <= slots.max_size {\n            slots.vec.push_back(inner);", "        if slots.max_size >= slots.size {\n            slots.vec.push_back(inner);")),
    m('N01-2', 'detach_object: compare after decrement with <', ['C01'], [],
      (M, "        let add_permits = slots.size <= slots.max_size;\n        slots.size -= 1;\n", "        slots.size -= 1;\n        let add_permits = slots.size < slots.max_size;\n")),
    m('N01-3', 'return_object: negated test with swapped branches', ['C01'], [],
      (M, "        if slots.size <= slots.max_size {\n            slots.vec.push_back(inner);\n            drop(slots);\n            self.semaphore.add_permits(1);\n        } else {\n            slots.size -= 1;\n            drop(slots);\n            self.manager.detach(&mut inner.obj);\n        }",
          "        if slots.size > slots.max_size {\n            slots.size -= 1;\n            drop(slots);\n            self.manager.detach(&mut inner.obj);\n        } else {\n            slots.vec.push_back(inner);\n            drop(slots);\n            self.semaphore.add_permits(1);\n        }")),
    m('N01-4', 'rename try_create / try_recycle / return_object', ['C01'], [],
      ),
]
BENIGN[-1]['edits'] = [
    {'file': M, 'old': 'try_create', 'new': 'make_new', 'count': 2},
    {'file': M, 'old': 'try_recycle', 'new': 'reuse_idle', 'count': 2},
    {'file': M, 'old': 'return_object', 'new': 'give_back', 'count': 2},
    {'file': M, 'old': 'detach_object', 'new': 'unlink_obj', 'count': 2},
]

ALLP = ['C%02d' % i for i in range(1, 20)]
CORE = ['C01', 'C02', 'C03', 'C04', 'C06', 'C07', 'C08', 'C09', 'C10', 'C11', 'C13']

def bn(id, desc, props, *edits):
    return {'id': id, 'desc': desc, 'props': props, 'expect': [],
            'edits': [e if isinstance(e, dict) else {'file': e[0], 'old': e[1], 'new': e[2]} for e in edits]}

def ren(file, old, new, count):
    return {'file': file, 'old': old, 'new': new, 'count': count}

BENIGN += [
    bn('N02-1', 'return_object: lock before users.fetch_sub', CORE,
       (M, "        let _ = self.users.fetch_sub(1, Ordering::Relaxed);\n        let mut slots = self.slots.lock().unwrap();\n        if slots.size <= slots.max_size {", "        let mut slots = self.slots.lock().unwrap();\n        let _ = self.users.fetch_sub(1, Ordering::Relaxed);\n        if slots.size <= slots.max_size {")),
    bn('N02-2', 'getter: if let -> match on the pop result', CORE,
       (M, "            let inner_obj = if let Some(inner_obj) = inner_obj {\n                self.try_recycle(timeouts, inner_obj).await?\n            } else {\n                self.try_create(timeouts).await?\n            };", "            let inner_obj = match inner_obj {\n                Some(inner_obj) => self.try_recycle(timeouts, inner_obj).await?,\n                None => self.try_create(timeouts).await?,\n            };")),
    bn('N02-3', 'users guard as a named struct with Drop instead of DropGuard(closure)', CORE,
       (M, "        let users_guard = DropGuard(|| {\n            let _ = self.inner.users.fetch_sub(1, Ordering::Relaxed);\n        });", "        struct UsersGuard<'a>(&'a AtomicUsize);\n        impl Drop for UsersGuard<'_> {\n            fn drop(&mut self) {\n                let _ = self.0.fetch_sub(1, Ordering::Relaxed);\n            }\n        }\n        let users_guard = UsersGuard(&self.inner.users);"),
       (M, "        users_guard.disarm();\n", "        std::mem::forget(users_guard);\n"),
       (M, "use self::dropguard::DropGuard;\n", "")),
    bn('N02-4', 'rename private types and fields (Slots.size->count, UnreadyObject->Pending, users->active)', CORE,
       ren(M, 'UnreadyObject', 'Pending', 'any'), ren(M, 'slots.size', 'slots.live', 'any'), ren(M, 'guard.size', 'guard.live', 'any'), ren(M, '.unwrap().size', '.unwrap().live', 'any'), ren(M, '    size: usize,', '    live: usize,', 'any'), ren(M, '                    size: 0,', '                    live: 0,', 'any'), ren(M, 'unready_obj', 'pending', 'any'), ren(M, 'DropGuard', 'Undo', 'any'), ren('src/managed/dropguard.rs', 'DropGuard', 'Undo', 'any'), ren(M, 'apply_timeout', 'with_deadline', 'any'), ren(M, 'self.inner.users', 'self.inner.active', 'any'), ren(M, 'self.users', 'self.active', 'any'), ren(M, '    users: AtomicUsize', '    active: AtomicUsize', 'any')),
    bn('N02-5', 'try_create inlined into timeout_get', CORE,
       (M, "                self.try_create(timeouts).await?\n            };", """                let mut unready_obj = UnreadyObject {
                    inner: Some(ObjectInner {
                        obj: apply_timeout(
                            self.inner.runtime,
                            TimeoutType::Create,
                            timeouts.create,
                            self.inner.manager.create(),
                        )
                        .await?,
                        metrics: Metrics::default(),
                    }),
                    pool: &self.inner,
                };
                self.inner.slots.lock().unwrap().size += 1;
                if let Err(e) = self
                    .inner
                    .hooks
                    .post_create
                    .apply(unready_obj.inner())
                    .await
                {
                    return Err(PoolError::PostCreateHook(e));
                }
                Some(unready_obj.ready())
            };"""),
       (M, """    #[inline]
    async fn try_create(
        &self,
        timeouts: &Timeouts,
    ) -> Result<Option<ObjectInner<M>>, PoolError<M::Error>> {
        let mut unready_obj = UnreadyObject {
            inner: Some(ObjectInner {
                obj: apply_timeout(
                    self.inner.runtime,
                    TimeoutType::Create,
                    timeouts.create,
                    self.inner.manager.create(),
                )
                .await?,
                metrics: Metrics::default(),
            }),
            pool: &self.inner,
        };

        self.inner.slots.lock().unwrap().size += 1;

        // Apply post_create hooks
        if let Err(e) = self
            .inner
            .hooks
            .post_create
            .apply(unready_obj.inner())
            .await
        {
            return Err(PoolError::PostCreateHook(e));
        }

        Ok(Some(unready_obj.ready()))
    }
""", "")),
    bn('N02-6', 'status(): negated comparison with swapped branches', CORE,
       (M, "        let (available, waiting) = if users < slots.size {\n            (slots.size - users, 0)\n        } else {\n            (0, users - slots.size)\n        };", "        let (available, waiting) = if users >= slots.size {\n            (0, users - slots.size)\n        } else {\n            (slots.size - users, 0)\n        };")),
    bn('N02-7', 'resize: grow amount computed from the argument', CORE,
       (M, "            let additional = slots.max_size - old_max_size;", "            let additional = max_size - old_max_size;")),
    bn('N02-8', 'close: drain with a for loop over drain(..)', CORE,
       (M, "        while let Some(mut obj) = slots.vec.pop_front() {\n            slots.size -= 1;\n            self.inner.manager.detach(&mut obj.obj);\n        }\n    }", "        loop {\n            match slots.vec.pop_front() {\n                None => break,\n                Some(mut obj) => {\n                    slots.size -= 1;\n                    self.inner.manager.detach(&mut obj.obj);\n                }\n            }\n        }\n    }")),
    bn('N02-9', 'comments, blank lines and a debug log line outside lock regions', CORE,
       (M, "        let inner_obj = loop {\n            let inner_obj = match self.inner.config.queue_mode {", "        // take an idle object or create one\n\n        let inner_obj = loop {\n            let inner_obj = match self.inner.config.queue_mode {")),
    bn('N02-10', 'recycler: failure branches via match instead of if let Err', CORE,
       (M, "        if let Err(_e) = self.inner.hooks.pre_recycle.apply(inner).await {\n            // TODO log pre_recycle error\n            return Ok(None);\n        }", "        match self.inner.hooks.pre_recycle.apply(inner).await {\n            Ok(()) => {}\n            Err(_e) => return Ok(None),\n        }")),
    bn('N02-11', 'detach_object: add_permits before... no: same order, branch via if/else', CORE,
       (M, "        let add_permits = slots.size <= slots.max_size;\n        slots.size -= 1;\n        drop(slots);\n        if add_permits {\n            self.semaphore.add_permits(1);\n        }", "        if slots.size <= slots.max_size {\n            slots.size -= 1;\n            drop(slots);\n            self.semaphore.add_permits(1);\n        } else {\n            slots.size -= 1;\n            drop(slots);\n        }")),
    bn('N05-1', 'unmanaged: rename GetGuard / _add / clean_up', ['C05', 'C10', 'C12'],
       ren(U, 'GetGuard', 'InFlight', 'any'), ren(U, 'self._add(', 'self.publish(', 'any'), ren(U, 'fn _add(', 'fn publish(', 'any'), ren(U, 'clean_up', 'tidy', 'any')),
    bn('N05-2', 'unmanaged try_get: match instead of map_err closure', ['C05', 'C10', 'C12'],
       (U, "        let permit = inner.semaphore.try_acquire().map_err(|e| match e {\n            TryAcquireError::NoPermits => PoolError::Timeout,\n            TryAcquireError::Closed => PoolError::Closed,\n        })?;", "        let permit = match inner.semaphore.try_acquire() {\n            Ok(p) => p,\n            Err(TryAcquireError::NoPermits) => return Err(PoolError::Timeout),\n            Err(TryAcquireError::Closed) => return Err(PoolError::Closed),\n        };")),
    bn('N18-1', 'get_pg_config: independent setter blocks reordered', ['C18', 'C16'],
       (PC, "        if let Some(connect_timeout) = self.connect_timeout {\n            cfg.connect_timeout(connect_timeout);\n        }\n        if let Some(keepalives) = self.keepalives {\n            cfg.keepalives(keepalives);\n        }", "        if let Some(keepalives) = self.keepalives {\n            cfg.keepalives(keepalives);\n        }\n        if let Some(connect_timeout) = self.connect_timeout {\n            cfg.connect_timeout(connect_timeout);\n        }")),
    bn('N18-2', 'get_pg_config: options via as_deref', ['C18'],
       (PC, "        if let Some(options) = &self.options {\n            cfg.options(options.as_str());\n        }", "        if let Some(options) = self.options.as_deref() {\n            cfg.options(options);\n        }")),
    bn('N16-1', 'postgres recycle: early return for the None method', ['C16'],
       (P, "        match self.config.recycling_method.query() {\n            Some(sql) => match client.simple_query(sql).await {", "        let sql = match self.config.recycling_method.query() {\n            Some(sql) => sql,\n            None => return Ok(()),\n        };\n        match Some(sql) {\n            Some(sql) => match client.simple_query(sql).await {")),
    bn('N17-1', 'redis recycle: compare the other way round', ['C17'],
       (R, "        if n == ping_number {", "        if ping_number == n {")),
    bn('N14-1', 'sync: Drop closure with if let instead of match', ['C14', 'C15'],
       (S, "            .spawn_blocking_background(move || match arc.lock() {\n                Ok(mut guard) => drop(guard.take()),\n                Err(e) => drop(e.into_inner().take()),\n            })", "            .spawn_blocking_background(move || {\n                let mut guard = match arc.lock() {\n                    Ok(guard) => guard,\n                    Err(e) => e.into_inner(),\n                };\n                drop(guard.take());\n            })")),
    bn('N19-1', 'redis builder: match arms reordered', ['C19'],
       (RC, "            (Some(url), None) => crate::Manager::new(url.as_str())?,\n            (None, Some(connection)) => crate::Manager::new(connection.clone())?,\n            (None, None) => crate::Manager::new(ConnectionInfo::default())?,\n            (Some(_), Some(_)) => return Err(ConfigError::UrlAndConnectionSpecified),", "            (Some(_), Some(_)) => return Err(ConfigError::UrlAndConnectionSpecified),\n            (None, None) => crate::Manager::new(ConnectionInfo::default())?,\n            (None, Some(connection)) => crate::Manager::new(connection.clone())?,\n            (Some(url), None) => crate::Manager::new(url.as_str())?,")),
]
for b in BENIGN:
    if b['id'].startswith('N01'):
        b['props'] = CORE

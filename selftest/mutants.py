"""Catalogue of one-instance-broken edits (MUTANTS) and behaviour-preserving
variants (BENIGN).  Each edit is an exact-text replacement that must match once."""

M = 'src/managed/mod.rs'
U = 'src/unmanaged/mod.rs'

def m(id, desc, props, expect, *edits):
    return {'id': id, 'desc': desc, 'props': props, 'expect': expect,
            'edits': [{'file': f, 'old': o, 'new': n} for f, o, n in edits]}

MUTANTS = [
    m('B01-1', 'delete permit.forget() in timeout_get', ['C01'], ['R01.2'],
      (M, "        users_guard.disarm();\n        permit.forget();\n", "        users_guard.disarm();\n        drop(permit);\n")),
    m('B01-2', 'permit.forget() moved above the loop', ['C01'], ['R01.2', 'R01.1'],
      (M, "        let inner_obj = loop {\n            let inner_obj = match self.inner.config.queue_mode {", "        permit.forget();\n        let inner_obj = loop {\n            let inner_obj = match self.inner.config.queue_mode {"),
      (M, "        users_guard.disarm();\n        permit.forget();\n", "        users_guard.disarm();\n")),
    m('B01-3', 'size += 1 before the awaited create', ['C01'], ['R01.5'],
      (M, "        let mut unready_obj = UnreadyObject {\n            inner: Some(ObjectInner {\n                obj: apply_timeout(", "        self.inner.slots.lock().unwrap().size += 1;\n        let mut unready_obj = UnreadyObject {\n            inner: Some(ObjectInner {\n                obj: apply_timeout("),
      (M, "            pool: &self.inner,\n        };\n\n        self.inner.slots.lock().unwrap().size += 1;\n", "            pool: &self.inner,\n        };\n\n")),
    m('B01-4', 'add_permits(2) in return_object', ['C01'], ['R01.4'],
      (M, "            drop(slots);\n            self.semaphore.add_permits(1);\n        } else {", "            drop(slots);\n            self.semaphore.add_permits(2);\n        } else {")),
    m('B01-5', 'detach_object: <= becomes <', ['C01'], ['R01.4'],
      (M, "let add_permits = slots.size <= slots.max_size;", "let add_permits = slots.size < slots.max_size;")),
    m('B01-6', 'retain adds a permit', ['C01'], ['R01.4'],
      (M, "        guard.size -= removed.len();\n", "        guard.size -= removed.len();\n        self.inner.semaphore.add_permits(1);\n")),
    m('B01-7', 'return_object: >= instead of <=', ['C01'], ['R01.4'],
      (M, "        if slots.size <= slots.max_size {\n            slots.vec.push_back(inner);", "        if slots.size >= slots.max_size {\n            slots.vec.push_back(inner);")),
    m('B01-8', 'acquire result dropped: let _ = permit before loop', ['C01'], ['R01.1', 'R01.3'],
      (M, "        let inner_obj = loop {\n            let inner_obj = match self.inner.config.queue_mode {", "        drop(permit);\n        let inner_obj = loop {\n            let inner_obj = match self.inner.config.queue_mode {"),
      (M, "        users_guard.disarm();\n        permit.forget();\n", "        users_guard.disarm();\n")),
    m('B01-9', 'mem::forget the permit instead of SemaphorePermit::forget early', ['C01'], ['R01.2'],
      (M, "            .await?\n        };\n\n        let inner_obj = loop {", "            .await?\n        };\n        let permit = std::mem::ManuallyDrop::new(permit);\n\n        let inner_obj = loop {"),
      (M, "        users_guard.disarm();\n        permit.forget();\n", "        users_guard.disarm();\n")),
    m('B01-10', 'UnreadyObject::drop: no size -= 1', ['C01'], ['R01.6'],
      (M, "            self.pool.slots.lock().unwrap().size -= 1;\n            self.pool.manager.detach(&mut inner.obj);", "            self.pool.manager.detach(&mut inner.obj);")),
    m('B01-11', 'Semaphore::new(max_size + 1) in from_builder', ['C01'], ['R01.8'],
      (M, "semaphore: Semaphore::new(builder.config.max_size),", "semaphore: Semaphore::new(builder.config.max_size + 1),")),
    m('B01-12', 'try_create: size += 1 after the post_create hooks', ['C01'], ['R01.5'],
      (M, "        self.inner.slots.lock().unwrap().size += 1;\n\n        // Apply post_create hooks", "        // Apply post_create hooks"),
      (M, "            return Err(PoolError::PostCreateHook(e));\n        }\n\n        Ok(Some(unready_obj.ready()))", "            return Err(PoolError::PostCreateHook(e));\n        }\n        self.inner.slots.lock().unwrap().size += 1;\n\n        Ok(Some(unready_obj.ready()))")),
]

MUTANTS += [
    m('B02-1', 'return_object: no add_permits', ['C02'], ['R02.2'],
      (M, "            drop(slots);\n            self.semaphore.add_permits(1);\n        } else {", "            drop(slots);\n        } else {")),
    m('B02-2', 'recycler: failed pre-hook ends the call with an error', ['C02', 'C04'], ['R02.3', 'R04.5'],
      (M, "            // TODO log pre_recycle error\n            return Ok(None);", "            // TODO log pre_recycle error\n            return Err(PoolError::Closed);")),
    m('B02-3', 'retain: status() under the lock', ['C02'], ['R02.6'],
      (M, "        let mut i = 0;\n        // This code can be simplified", "        let mut i = self.status().size - self.status().size;\n        // This code can be simplified")),
    m('B02-4', 'slots guard held across try_create().await', ['C02'], ['R02.6'],
      (M, "            } else {\n                self.try_create(timeouts).await?\n            };", "            } else {\n                let _g = self.inner.slots.lock().unwrap();\n                self.try_create(timeouts).await?\n            };")),
    m('B02-5', 'Object::drop unwraps the upgrade', ['C02'], ['R02.4'],
      (M, "            if let Some(pool) = self.pool.upgrade() {\n                pool.return_object(inner)\n            }", "            self.pool.upgrade().unwrap().return_object(inner)")),
    m('B02-6', 'return_object: early return keeps the permit', ['C02'], ['R02.2'],
      (M, "        let mut slots = self.slots.lock().unwrap();\n        if slots.size <= slots.max_size {\n            slots.vec.push_back(inner);", "        let mut slots = self.slots.lock().unwrap();\n        if inner.metrics.recycle_count > 100_000 {\n            slots.size -= 1;\n            return;\n        }\n        if slots.size <= slots.max_size {\n            slots.vec.push_back(inner);")),
    m('B02-7', 'Object gets a method emptying inner through &mut', ['C02'], ['R02.5'],
      (M, "    /// Get object statistics\n    pub fn metrics(this: &Self) -> &Metrics {", "    /// Invalidate\n    pub fn invalidate(this: &mut Self) {\n        drop(this.inner.take());\n    }\n\n    /// Get object statistics\n    pub fn metrics(this: &Self) -> &Metrics {")),
    m('B02-8', 'post_recycle hook invoked under the slots lock', ['C02'], ['R02.6'],
      (M, "        if let Err(_e) = self.inner.hooks.post_recycle.apply(inner).await {", "        let _g = self.inner.slots.lock().unwrap();\n        if let Err(_e) = self.inner.hooks.post_recycle.apply(inner).await {")),
    m('B02-9', 'getter breaks out of the loop on a rejected object', ['C02'], ['R02.3'],
      (M, "            if let Some(inner_obj) = inner_obj {\n                break inner_obj;\n            }\n        };", "            match inner_obj {\n                Some(inner_obj) => break inner_obj,\n                None => return Err(PoolError::Closed),\n            }\n        };")),
]

MUTANTS += [
    m('B03-1', 'users guard dropped immediately (let _ =) and no disarm', ['C03'], ['R03.1'],
      (M, "        let users_guard = DropGuard(|| {", "        let _ = DropGuard(|| {"),
      (M, "        users_guard.disarm();\n", "")),
    m('B03-2', 'recycler wraps the object only after the pre_recycle hooks', ['C03'], ['R03.1', 'R03.4'],
      (M, """        let mut unready_obj = UnreadyObject {
            inner: Some(inner_obj),
            pool: &self.inner,
        };
        let inner = unready_obj.inner();

        // Apply pre_recycle hooks
        if let Err(_e) = self.inner.hooks.pre_recycle.apply(inner).await {
            // TODO log pre_recycle error
            return Ok(None);
        }
""", """        let mut inner_obj = inner_obj;
        // Apply pre_recycle hooks
        if let Err(_e) = self.inner.hooks.pre_recycle.apply(&mut inner_obj).await {
            // TODO log pre_recycle error
            self.inner.slots.lock().unwrap().size -= 1;
            self.inner.manager.detach(&mut inner_obj.obj);
            return Ok(None);
        }
        let mut unready_obj = UnreadyObject {
            inner: Some(inner_obj),
            pool: &self.inner,
        };
        let inner = unready_obj.inner();
""")),
    m('B03-3', 'users_guard.disarm() moved above the loop', ['C03'], ['R03.2', 'R03.1'],
      (M, "        let inner_obj = loop {\n            let inner_obj = match self.inner.config.queue_mode {", "        users_guard.disarm();\n        let inner_obj = loop {\n            let inner_obj = match self.inner.config.queue_mode {"),
      (M, "        users_guard.disarm();\n        permit.forget();\n", "        permit.forget();\n")),
    m('B03-4', 'Drop for UnreadyObject: no size -= 1', ['C03'], ['R03.3'],
      (M, "            self.pool.slots.lock().unwrap().size -= 1;\n            self.pool.manager.detach(&mut inner.obj);", "            self.pool.manager.detach(&mut inner.obj);")),
    m('B03-5', 'Drop for UnreadyObject: no detach', ['C03'], ['R03.3'],
      (M, "            self.pool.slots.lock().unwrap().size -= 1;\n            self.pool.manager.detach(&mut inner.obj);", "            self.pool.slots.lock().unwrap().size -= 1;\n            let _ = &mut inner;")),
    m('B03-6', 'guard closure subtracts 0', ['C03'], ['R03.3'],
      (M, "            let _ = self.inner.users.fetch_sub(1, Ordering::Relaxed);\n        });", "            let _ = self.inner.users.fetch_sub(0, Ordering::Relaxed);\n        });")),
    m('B03-7', 'creator: post_create hooks run on the bare object, wrapped afterwards', ['C03', 'C01'], ['R03.1', 'R01.5'],
      (M, """        let mut unready_obj = UnreadyObject {
            inner: Some(ObjectInner {
                obj: apply_timeout(
                    self.inner.runtime,
                    TimeoutType::Create,
                    timeouts.create,
                    self.inner.manager.create(),
                )
                .await?,
                metrics: Metrics::default(),
            }),
            pool: &self.inner,
        };

        self.inner.slots.lock().unwrap().size += 1;

        // Apply post_create hooks
        if let Err(e) = self
            .inner
            .hooks
            .post_create
            .apply(unready_obj.inner())
            .await
        {
            return Err(PoolError::PostCreateHook(e));
        }
""", """        let mut bare = ObjectInner {
                obj: apply_timeout(
                    self.inner.runtime,
                    TimeoutType::Create,
                    timeouts.create,
                    self.inner.manager.create(),
                )
                .await?,
                metrics: Metrics::default(),
            };

        // Apply post_create hooks
        if let Err(e) = self
            .inner
            .hooks
            .post_create
            .apply(&mut bare)
            .await
        {
            self.inner.manager.detach(&mut bare.obj);
            return Err(PoolError::PostCreateHook(e));
        }
        let unready_obj = UnreadyObject {
            inner: Some(bare),
            pool: &self.inner,
        };
        self.inner.slots.lock().unwrap().size += 1;
""")),
    m('B03-8', 'DropGuard::drop does not call the closure', ['C03'], ['R03.3'],
      ('src/managed/dropguard.rs', "    fn drop(&mut self) {\n        (self.0)()\n    }", "    fn drop(&mut self) {\n        let _ = &self.0;\n    }")),
    m('B03-9', 'recycler: ready() before the post_recycle hooks', ['C03', 'C04'], ['R03.2', 'R04.1'],
      (M, """        // Apply post_recycle hooks
        if let Err(_e) = self.inner.hooks.post_recycle.apply(inner).await {
            // TODO log post_recycle error
            return Ok(None);
        }

        inner.metrics.recycle_count += 1;
        #[cfg(not(target_arch = "wasm32"))]
        {
            inner.metrics.recycled = Some(Instant::now());
        }

        Ok(Some(unready_obj.ready()))""", """        inner.metrics.recycle_count += 1;
        #[cfg(not(target_arch = "wasm32"))]
        {
            inner.metrics.recycled = Some(Instant::now());
        }
        let mut ready = unready_obj.ready();
        // Apply post_recycle hooks
        if let Err(_e) = self.inner.hooks.post_recycle.apply(&mut ready).await {
            // TODO log post_recycle error
            self.inner.slots.lock().unwrap().size -= 1;
            self.inner.manager.detach(&mut ready.obj);
            return Ok(None);
        }

        Ok(Some(ready))""")),
    m('B03-10', 'users += 1 twice', ['C03'], ['R03.3'],
      (M, "        let _ = self.inner.users.fetch_add(1, Ordering::Relaxed);\n        let users_guard", "        let _ = self.inner.users.fetch_add(1, Ordering::Relaxed);\n        let _ = self.inner.users.fetch_add(1, Ordering::Relaxed);\n        let users_guard")),
]

H = 'src/managed/hooks.rs'
MUTANTS += [
    m('B04-1', 'recycler: pre and post hooks swapped', ['C04'], ['R04.1'],
      (M, "if let Err(_e) = self.inner.hooks.pre_recycle.apply(inner).await {", "if let Err(_e) = self.inner.hooks.post_recycle.apply(inner).await {"),
      (M, "if let Err(_e) = self.inner.hooks.post_recycle.apply(inner).await {\n            // TODO log post_recycle error", "if let Err(_e) = self.inner.hooks.pre_recycle.apply(inner).await {\n            // TODO log post_recycle error")),
    m('B04-2', 'post_recycle failure ignored', ['C04'], ['R04.1'],
      (M, "        if let Err(_e) = self.inner.hooks.post_recycle.apply(inner).await {\n            // TODO log post_recycle error\n            return Ok(None);\n        }", "        let _ = self.inner.hooks.post_recycle.apply(inner).await;")),
    m('B04-3', 'HookVec::apply ignores sync hook errors', ['C04'], ['R04.3'],
      (H, "Hook::Fn(f) => f(&mut inner.obj, &inner.metrics)?,", "Hook::Fn(f) => { let _ = f(&mut inner.obj, &inner.metrics); }")),
    m('B04-4', 'hooks iterated in reverse', ['C04'], ['R04.3'],
      (H, "for hook in &self.vec {", "for hook in self.vec.iter().rev() {")),
    m('B04-5', 'PostCreateHook error reported as Closed', ['C04'], ['R04.5'],
      (M, "            return Err(PoolError::PostCreateHook(e));", "            let _ = e;\n            return Err(PoolError::Closed);")),
    m('B04-6', 'creator uses TimeoutType::Wait', ['C04', 'C10'], ['R04.1', 'R10.3'],
      (M, "                    TimeoutType::Create,", "                    TimeoutType::Wait,")),
    m('B04-7', 'recycle result ignored entirely', ['C04'], ['R04.1'],
      (M, "            Ok(()) => {}\n", "            Ok(()) => {}\n            Err(PoolError::Backend(_)) => {}\n")),
    m('B04-8', 'getter hands out a popped object directly when recycle_count is 0', ['C04'], ['R04.2'],
      (M, "            let inner_obj = if let Some(inner_obj) = inner_obj {\n                self.try_recycle(timeouts, inner_obj).await?", "            let inner_obj = if let Some(inner_obj) = inner_obj {\n                if inner_obj.metrics.recycle_count == usize::MAX {\n                    break inner_obj;\n                }\n                self.try_recycle(timeouts, inner_obj).await?")),
    m('B04-9', 'post_create hooks skipped', ['C04'], ['R04.1'],
      (M, """        if let Err(e) = self
            .inner
            .hooks
            .post_create
            .apply(unready_obj.inner())
            .await
        {
            return Err(PoolError::PostCreateHook(e));
        }
""", "")),
    m('B04-10', 'try_acquire NoPermits mapped to Closed', ['C04'], ['R04.5'],
      (M, "                TryAcquireError::NoPermits => PoolError::Timeout(TimeoutType::Wait),", "                TryAcquireError::NoPermits => PoolError::Closed,")),
    m('B04-11', 'HookVec::push inserts at the front', ['C04'], ['R04.3'],
      (H, "        self.vec.push(hook);", "        self.vec.insert(0, hook);")),
    m('B04-12', 'builder: pre_recycle() registers into post_recycle', ['C04'], ['binding', 'R04.1'],
      ('src/managed/builder.rs', "        self.hooks.pre_recycle.push(hook.into());", "        self.hooks.post_recycle.push(hook.into());")),
    m('B04-13', 'recycle timeout uses the pool-level instead of the per-call value', ['C04', 'C10'], ['R04.1', 'R10.3'],
      (M, "            timeouts.recycle,\n            self.inner.manager.recycle", "            self.inner.config.timeouts.create,\n            self.inner.manager.recycle")),
]

BENIGN = [
    m('N01-1', 'return_object: max_size >= size', ['C01'], [],
      (M, "        if slots.size <= slots.max_size {\n            slots.vec.push_back(inner);", "        if slots.max_size >= slots.size {\n            slots.vec.push_back(inner);")),
    m('N01-2', 'detach_object: compare after decrement with <', ['C01'], [],
      (M, "        let add_permits = slots.size <= slots.max_size;\n        slots.size -= 1;\n", "        slots.size -= 1;\n        let add_permits = slots.size < slots.max_size;\n")),
    m('N01-3', 'return_object: negated test with swapped branches', ['C01'], [],
      (M, "        if slots.size <= slots.max_size {\n            slots.vec.push_back(inner);\n            drop(slots);\n            self.semaphore.add_permits(1);\n        } else {\n            slots.size -= 1;\n            drop(slots);\n            self.manager.detach(&mut inner.obj);\n        }",
          "        if slots.size > slots.max_size {\n            slots.size -= 1;\n            drop(slots);\n            self.manager.detach(&mut inner.obj);\n        } else {\n            slots.vec.push_back(inner);\n            drop(slots);\n            self.semaphore.add_permits(1);\n        }")),
    m('N01-4', 'rename try_create / try_recycle / return_object', ['C01'], [],
      ),
]
BENIGN[-1]['edits'] = [
    {'file': M, 'old': 'try_create', 'new': 'make_new', 'count': 2},
    {'file': M, 'old': 'try_recycle', 'new': 'reuse_idle', 'count': 2},
    {'file': M, 'old': 'return_object', 'new': 'give_back', 'count': 2},
    {'file': M, 'old': 'detach_object', 'new': 'unlink_obj', 'count': 2},
]

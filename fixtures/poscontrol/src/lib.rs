//! Positive controls: one deliberate instance of every pattern that a
//! zero-expected rule looks for.  The rule predicates must fire on this crate
//! on every run; if one stays silent the machinery is broken.
#![allow(unused, clippy::all)]

use std::sync::Mutex;

pub async fn pc_spawn_task() {
    let _ = tokio::spawn(async {});
}

pub fn pc_spawn_thread() {
    let _ = std::thread::spawn(|| {});
}

pub async fn pc_spawn_blocking() {
    let _ = tokio::task::spawn_blocking(|| {}).await;
}

pub fn pc_option_unwrap(o: Option<u8>) -> u8 {
    o.unwrap()
}

pub fn pc_result_expect(r: Result<u8, ()>) -> u8 {
    r.expect("boom")
}

pub fn pc_explicit_panic() {
    panic!("boom")
}

pub fn pc_index(v: &[u8]) -> u8 {
    v[3]
}

pub fn pc_overflow(a: usize) -> usize {
    a - 1
}

pub async fn pc_await_under_lock(m: &Mutex<u8>) {
    let g = m.lock().unwrap();
    tokio::task::yield_now().await;
    drop(g);
}

pub fn pc_relock(m: &Mutex<u8>) -> u8 {
    let g = m.lock().unwrap();
    let h = m.lock().unwrap();
    *g + *h
}

pub fn pc_leak_permit(s: &tokio::sync::Semaphore) {
    let p = s.try_acquire().unwrap();
    std::mem::forget(p);
}

pub fn pc_clone<T: Clone>(t: &T) -> T {
    t.clone()
}

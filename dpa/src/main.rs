// dpa — deadpool analyser: a rustc_private driver that exports a JSON fact
// base (event CFGs from `mir_built`, coroutine layouts, ADTs, impls) for the
// crate being compiled.  Injected with RUSTC_WORKSPACE_WRAPPER.
//
// Environment:
//   DPA_OUT    directory to write fact files into (required to emit facts)
//   DPA_NONCE  run nonce recorded in the fact file and its name
#![feature(rustc_private)]

extern crate rustc_abi;
extern crate rustc_data_structures;
extern crate rustc_driver;
extern crate rustc_hir;
extern crate rustc_hir_pretty;
extern crate rustc_interface;
extern crate rustc_middle;
extern crate rustc_session;
extern crate rustc_span;

mod json;

use json::J;
use rustc_driver::{Callbacks, Compilation};
use rustc_hir::def::DefKind;
use rustc_hir::def_id::{DefId, LocalDefId};
use rustc_interface::interface;
use rustc_middle::mir::*;
use rustc_middle::ty::print::{with_crate_prefix, with_no_trimmed_paths};
use rustc_middle::ty::{self, GenericArgsRef, Instance, Ty, TyCtxt, TypingEnv};
use rustc_middle::util::Providers;
use rustc_span::Span;
use std::sync::{Mutex, OnceLock};

static ORIG_MIR_BUILT: OnceLock<usize> = OnceLock::new();
static BODIES: Mutex<Vec<(u32, usize)>> = Mutex::new(Vec::new());

type MirBuiltFn = for<'tcx> fn(
    TyCtxt<'tcx>,
    LocalDefId,
) -> &'tcx rustc_data_structures::steal::Steal<Body<'tcx>>;

fn mir_built_wrapper<'tcx>(
    tcx: TyCtxt<'tcx>,
    key: LocalDefId,
) -> &'tcx rustc_data_structures::steal::Steal<Body<'tcx>> {
    let orig: MirBuiltFn = unsafe { std::mem::transmute(*ORIG_MIR_BUILT.get().unwrap()) };
    let res = orig(tcx, key);
    let cloned: Body<'tcx> = res.borrow().clone();
    let ptr: &'tcx Body<'tcx> = tcx.arena.alloc(cloned);
    BODIES
        .lock()
        .unwrap()
        .push((key.local_def_index.as_u32(), ptr as *const Body<'tcx> as usize));
    res
}

fn override_queries(_sess: &rustc_session::Session, providers: &mut Providers) {
    let orig = providers.queries.mir_built;
    let _ = ORIG_MIR_BUILT.set(orig as usize);
    providers.queries.mir_built = mir_built_wrapper;
}

struct Dpa;

impl Callbacks for Dpa {
    fn config(&mut self, config: &mut interface::Config) {
        config.override_queries = Some(override_queries);
    }

    fn after_analysis<'tcx>(
        &mut self,
        _compiler: &interface::Compiler,
        tcx: TyCtxt<'tcx>,
    ) -> Compilation {
        if let Ok(out) = std::env::var("DPA_OUT") {
            if tcx.dcx().has_errors().is_none() {
                export(tcx, &out);
            }
        }
        Compilation::Continue
    }
}

fn main() {
    let mut args: Vec<String> = std::env::args().collect();
    // RUSTC_WORKSPACE_WRAPPER: argv[1] is the real rustc path; drop it.
    if args.len() > 1 && (args[1].ends_with("rustc") || args[1].contains("/rustc")) {
        args.remove(1);
    }
    let wants_info = args.iter().any(|a| a == "-vV" || a.starts_with("--print"));
    if wants_info {
        struct Nop;
        impl Callbacks for Nop {}
        rustc_driver::run_compiler(&args, &mut Nop);
        return;
    }
    rustc_driver::run_compiler(&args, &mut Dpa);
}

// ---------------------------------------------------------------------------

fn s(x: impl Into<String>) -> J {
    J::Str(x.into())
}
fn n(x: impl TryInto<i128>) -> J {
    J::Num(x.try_into().ok().unwrap_or(-1))
}

struct Cx<'tcx> {
    tcx: TyCtxt<'tcx>,
    krate: String,
}

/// `crate::a::B` -> `<crate name>::a::B` (only at identifier boundaries)
fn fix_crate(krate: &str, st: String) -> String {
    if !st.contains("crate::") {
        return st;
    }
    let bytes = st.as_bytes();
    let mut out = String::with_capacity(st.len() + 16);
    let mut i = 0;
    while i < bytes.len() {
        if st[i..].starts_with("crate::") {
            let boundary = i == 0 || {
                let c = bytes[i - 1] as char;
                !(c.is_alphanumeric() || c == '_')
            };
            if boundary {
                out.push_str(krate);
                out.push_str("::");
                i += 7;
                continue;
            }
        }
        let ch = st[i..].chars().next().unwrap();
        out.push(ch);
        i += ch.len_utf8();
    }
    out
}

impl<'tcx> Cx<'tcx> {
    fn path(&self, did: DefId) -> String {
        fix_crate(&self.krate, with_crate_prefix!(with_no_trimmed_paths!(self.tcx.def_path_str(did))))
    }
    fn path_args(&self, did: DefId, args: GenericArgsRef<'tcx>) -> String {
        fix_crate(&self.krate, with_crate_prefix!(with_no_trimmed_paths!(self.tcx.def_path_str_with_args(did, args))))
    }
    fn ty_str(&self, ty: Ty<'tcx>) -> String {
        fix_crate(&self.krate, with_crate_prefix!(with_no_trimmed_paths!(format!("{}", ty))))
    }
    fn disp(&self, x: impl std::fmt::Display) -> String {
        fix_crate(&self.krate, with_crate_prefix!(with_no_trimmed_paths!(format!("{}", x))))
    }
    fn loc(&self, span: Span) -> (String, usize, usize) {
        let sm = self.tcx.sess.source_map();
        let lo = sm.lookup_char_pos(span.lo());
        let hi = sm.lookup_char_pos(span.hi());
        let name = match &lo.file.name {
            rustc_span::FileName::Real(r) => match r.local_path() {
                Some(p) => p.to_string_lossy().into_owned(),
                None => format!("{:?}", lo.file.name),
            },
            other => format!("{:?}", other),
        };
        (name, lo.line, hi.line)
    }
    fn line(&self, span: Span) -> J {
        // line of the outermost call site, so macro-generated code is
        // attributed to the line the user wrote
        let sp = span.source_callsite();
        let (_, lo, _) = self.loc(sp);
        n(lo as i128)
    }

    /// ADTs, type parameters, projections, closures mentioned inside a type.
    fn ty_parts(&self, ty: Ty<'tcx>) -> J {
        let mut adts: Vec<String> = Vec::new();
        let mut params: Vec<String> = Vec::new();
        let mut closures: Vec<String> = Vec::new();
        for arg in ty.walk() {
            if let Some(t) = arg.as_type() {
                match t.kind() {
                    ty::Adt(def, _) => {
                        let p = self.path(def.did());
                        if !adts.contains(&p) {
                            adts.push(p)
                        }
                    }
                    ty::Param(p) => {
                        let p = p.name.to_string();
                        if !params.contains(&p) {
                            params.push(p)
                        }
                    }
                    ty::Alias(..) => {
                        let p = self.ty_str(t);
                        if !params.contains(&p) {
                            params.push(p)
                        }
                    }
                    ty::Closure(did, _) | ty::Coroutine(did, _) | ty::CoroutineClosure(did, _) => {
                        let p = self.path(*did);
                        if !closures.contains(&p) {
                            closures.push(p)
                        }
                    }
                    ty::FnDef(did, _) => {
                        let p = format!("fn:{}", self.path(*did));
                        if !closures.contains(&p) {
                            closures.push(p)
                        }
                    }
                    _ => {}
                }
            }
        }
        J::obj(vec![
            ("adts", J::Arr(adts.into_iter().map(s).collect())),
            ("params", J::Arr(params.into_iter().map(s).collect())),
            ("closures", J::Arr(closures.into_iter().map(s).collect())),
        ])
    }

    fn place(&self, body: &Body<'tcx>, p: &Place<'tcx>) -> J {
        let mut pr: Vec<J> = Vec::new();
        let mut own: Vec<J> = Vec::new();
        let mut pty = rustc_middle::mir::PlaceTy::from_ty(body.local_decls[p.local].ty);
        for elem in p.projection.iter() {
            match elem {
                ProjectionElem::Deref => pr.push(s("*")),
                ProjectionElem::Field(f, _) => {
                    let name = match pty.ty.kind() {
                        ty::Adt(def, _) => {
                            while own.len() < pr.len() {
                                own.push(J::Null);
                            }
                            own.push(s(self.path(def.did())));
                            let v = match pty.variant_index {
                                Some(v) => v,
                                None => rustc_abi::FIRST_VARIANT,
                            };
                            if def.is_enum() && pty.variant_index.is_none() {
                                format!("{}", f.as_usize())
                            } else {
                                def.variant(v).fields[f].name.to_string()
                            }
                        }
                        _ => format!("{}", f.as_usize()),
                    };
                    pr.push(s(format!(".{}", name)));
                }
                ProjectionElem::Downcast(name, idx) => {
                    let nm = match name {
                        Some(sym) => sym.to_string(),
                        None => format!("{}", idx.as_usize()),
                    };
                    pr.push(s(format!("@{}", nm)));
                }
                ProjectionElem::Index(l) => pr.push(s(format!("[_{}]", l.as_usize()))),
                ProjectionElem::ConstantIndex { offset, from_end, .. } => {
                    pr.push(s(format!("[{}{}]", if from_end { "-" } else { "" }, offset)))
                }
                ProjectionElem::Subslice { .. } => pr.push(s("[..]")),
                ProjectionElem::OpaqueCast(_) => pr.push(s("as")),
                ProjectionElem::UnwrapUnsafeBinder(_) => pr.push(s("unbind")),
            }
            pty = pty.projection_ty(self.tcx, elem);
        }
        J::obj(vec![
            ("l", n(p.local.as_usize() as i128)),
            ("pr", J::Arr(pr)),
            ("own", J::Arr(own)),
            ("ty", s(self.ty_str(pty.ty))),
        ])
    }

    fn fn_const(&self, owner: LocalDefId, did: DefId, args: GenericArgsRef<'tcx>) -> Vec<(&'static str, J)> {
        let mut v = vec![
            ("fn", s(self.path(did))),
            ("fn_inst", s(self.path_args(did, args))),
        ];
        let targs: Vec<J> = args.iter().map(|a| s(self.disp(a))).collect();
        v.push(("targs", J::Arr(targs)));
        // the trait or impl the callee belongs to
        if let Some(parent) = self.tcx.opt_parent(did) {
            match self.tcx.def_kind(parent) {
                DefKind::Trait => v.push(("trait", s(self.path(parent)))),
                DefKind::Impl { .. } => {
                    let self_ty = self.tcx.type_of(parent).instantiate_identity().skip_norm_wip();
                    v.push(("impl_self", s(self.ty_str(self_ty))));
                }
                _ => {}
            }
        }
        let kind = self.tcx.def_kind(did);
        if matches!(kind, DefKind::Fn | DefKind::AssocFn) {
            let env = TypingEnv::post_analysis(self.tcx, owner);
            let res = std::panic::catch_unwind(std::panic::AssertUnwindSafe(|| {
                Instance::try_resolve(self.tcx, env, did, args)
            }));
            if let Ok(Ok(Some(inst))) = res {
                let rdid = inst.def_id();
                v.push(("rfn", s(self.path(rdid))));
                v.push(("rfn_inst", s(self.path_args(rdid, inst.args))));
                v.push(("rkind", s(format!("{:?}", std::mem::discriminant(&inst.def)).to_string())));
                let k = match inst.def {
                    ty::InstanceKind::Item(_) => "item",
                    ty::InstanceKind::Virtual(..) => "virtual",
                    ty::InstanceKind::ClosureOnceShim { .. } => "closure_once_shim",
                    ty::InstanceKind::FnPtrShim(..) => "fnptr_shim",
                    ty::InstanceKind::DropGlue(..) => "drop_glue",
                    ty::InstanceKind::CloneShim(..) => "clone_shim",
                    ty::InstanceKind::Intrinsic(..) => "intrinsic",
                    _ => "other",
                };
                v.push(("rk", s(k)));
                if rdid.is_local() {
                    v.push(("rlocal", J::Bool(true)));
                }
            }
        }
        if did.is_local() {
            v.push(("local", J::Bool(true)));
        }
        v
    }

    fn operand(&self, owner: LocalDefId, body: &Body<'tcx>, op: &Operand<'tcx>) -> J {
        match op {
            Operand::Copy(p) => J::obj(vec![("c", self.place(body, p))]),
            Operand::Move(p) => J::obj(vec![("m", self.place(body, p))]),
            Operand::Constant(c) => {
                let ty = c.const_.ty();
                let mut v: Vec<(&'static str, J)> = vec![
                    ("v", s(self.disp(c.const_))),
                    ("ty", s(self.ty_str(ty))),
                ];
                if let ty::FnDef(did, args) = ty.kind() {
                    v.extend(self.fn_const(owner, *did, args));
                }
                J::obj(vec![("k", J::obj(v))])
            }
            #[allow(unreachable_patterns)]
            _ => J::obj(vec![("other", s(format!("{:?}", op)))]),
        }
    }

    fn rvalue(&self, owner: LocalDefId, body: &Body<'tcx>, rv: &Rvalue<'tcx>) -> J {
        match rv {
            Rvalue::Use(op, _) => J::obj(vec![("k", s("use")), ("op", self.operand(owner, body, op))]),
            Rvalue::Ref(_, bk, p) => J::obj(vec![
                ("k", s("ref")),
                ("mut", J::Bool(matches!(bk, BorrowKind::Mut { .. }))),
                ("fake", J::Bool(matches!(bk, BorrowKind::Fake(_)))),
                ("p", self.place(body, p)),
            ]),
            Rvalue::RawPtr(_, p) => J::obj(vec![("k", s("rawptr")), ("p", self.place(body, p))]),
            Rvalue::Cast(kind, op, ty) => J::obj(vec![
                ("k", s("cast")),
                ("ck", s(format!("{:?}", kind))),
                ("op", self.operand(owner, body, op)),
                ("ty", s(self.ty_str(*ty))),
            ]),
            Rvalue::BinaryOp(bop, ops) => J::obj(vec![
                ("k", s("bin")),
                ("op", s(format!("{:?}", bop))),
                ("a", self.operand(owner, body, &ops.0)),
                ("b", self.operand(owner, body, &ops.1)),
            ]),
            Rvalue::UnaryOp(uop, op) => J::obj(vec![
                ("k", s("un")),
                ("op", s(format!("{:?}", uop))),
                ("a", self.operand(owner, body, op)),
            ]),
            Rvalue::Discriminant(p) => J::obj(vec![("k", s("discr")), ("p", self.place(body, p))]),
            Rvalue::CopyForDeref(p) => J::obj(vec![("k", s("copyderef")), ("p", self.place(body, p))]),
            Rvalue::Aggregate(kind, ops) => {
                let mut v: Vec<(&'static str, J)> = vec![("k", s("agg"))];
                match &**kind {
                    AggregateKind::Array(_) => v.push(("ak", s("array"))),
                    AggregateKind::Tuple => v.push(("ak", s("tuple"))),
                    AggregateKind::Adt(did, vidx, _args, _, active) => {
                        v.push(("ak", s("adt")));
                        v.push(("adt", s(self.path(*did))));
                        let def = self.tcx.adt_def(*did);
                        let variant = def.variant(*vidx);
                        v.push(("variant", s(variant.name.to_string())));
                        let names: Vec<J> = if let Some(a) = active {
                            vec![s(variant.fields[*a].name.to_string())]
                        } else {
                            variant.fields.iter().map(|f| s(f.name.to_string())).collect()
                        };
                        v.push(("fields", J::Arr(names)));
                    }
                    AggregateKind::Closure(did, _) => {
                        v.push(("ak", s("closure")));
                        v.push(("def", s(self.path(*did))));
                    }
                    AggregateKind::Coroutine(did, _) => {
                        v.push(("ak", s("coroutine")));
                        v.push(("def", s(self.path(*did))));
                    }
                    AggregateKind::CoroutineClosure(did, _) => {
                        v.push(("ak", s("coroutine_closure")));
                        v.push(("def", s(self.path(*did))));
                    }
                    AggregateKind::RawPtr(..) => v.push(("ak", s("rawptr"))),
                }
                v.push(("ops", J::Arr(ops.iter().map(|o| self.operand(owner, body, o)).collect())));
                J::obj(v)
            }
            Rvalue::Repeat(op, _) => J::obj(vec![("k", s("repeat")), ("op", self.operand(owner, body, op))]),
            Rvalue::ThreadLocalRef(did) => J::obj(vec![("k", s("tls")), ("def", s(self.path(*did)))]),
            Rvalue::WrapUnsafeBinder(op, _) => J::obj(vec![("k", s("wrapbinder")), ("op", self.operand(owner, body, op))]),
        }
    }

    fn unwind(&self, u: &UnwindAction) -> J {
        match u {
            UnwindAction::Continue => s("continue"),
            UnwindAction::Unreachable => s("unreachable"),
            UnwindAction::Terminate(_) => s("terminate"),
            UnwindAction::Cleanup(bb) => n(bb.as_usize() as i128),
        }
    }

    fn switch_info(&self, body: &Body<'tcx>, bbdata: &BasicBlockData<'tcx>, discr: &Operand<'tcx>) -> Vec<(&'static str, J)> {
        let mut out = Vec::new();
        let dty = discr.ty(&body.local_decls, self.tcx);
        out.push(("dty", s(self.ty_str(dty))));
        if let Some(p) = discr.place() {
            if p.projection.is_empty() {
                // look for `_n = discriminant(place)` in this block
                for st in bbdata.statements.iter().rev() {
                    if let StatementKind::Assign(b) = &st.kind {
                        if b.0 == p {
                            if let Rvalue::Discriminant(src) = &b.1 {
                                let sty = src.ty(&body.local_decls, self.tcx).ty;
                                out.push(("on", self.place(body, src)));
                                if let ty::Adt(def, _) = sty.kind() {
                                    if def.is_enum() {
                                        let mut m: Vec<(String, J)> = Vec::new();
                                        for (vidx, d) in def.discriminants(self.tcx) {
                                            m.push((format!("{}", d.val), s(def.variant(vidx).name.to_string())));
                                        }
                                        out.push(("adt", s(self.path(def.did()))));
                                        out.push(("variants", J::Obj(m)));
                                    }
                                }
                            }
                            break;
                        }
                    }
                }
            }
        }
        out
    }

    fn terminator(&self, owner: LocalDefId, body: &Body<'tcx>, bbdata: &BasicBlockData<'tcx>) -> J {
        let term = bbdata.terminator();
        let mut v: Vec<(&'static str, J)> = Vec::new();
        match &term.kind {
            TerminatorKind::Goto { target } => {
                v.push(("k", s("goto")));
                v.push(("t", n(target.as_usize() as i128)));
            }
            TerminatorKind::SwitchInt { discr, targets } => {
                v.push(("k", s("switch")));
                v.push(("d", self.operand(owner, body, discr)));
                let mut arms: Vec<J> = Vec::new();
                for (val, bb) in targets.iter() {
                    arms.push(J::Arr(vec![s(format!("{}", val)), n(bb.as_usize() as i128)]));
                }
                v.push(("arms", J::Arr(arms)));
                v.push(("otherwise", n(targets.otherwise().as_usize() as i128)));
                v.extend(self.switch_info(body, bbdata, discr));
            }
            TerminatorKind::UnwindResume => v.push(("k", s("resume"))),
            TerminatorKind::UnwindTerminate(_) => v.push(("k", s("terminate"))),
            TerminatorKind::Return => v.push(("k", s("return"))),
            TerminatorKind::Unreachable => v.push(("k", s("unreachable"))),
            TerminatorKind::Drop { place, target, unwind, drop, .. } => {
                v.push(("k", s("drop")));
                v.push(("p", self.place(body, place)));
                let ty = place.ty(&body.local_decls, self.tcx).ty;
                v.push(("parts", self.ty_parts(ty)));
                v.push(("t", n(target.as_usize() as i128)));
                v.push(("u", self.unwind(unwind)));
                if let Some(d) = drop {
                    v.push(("cd", n(d.as_usize() as i128)));
                }
            }
            TerminatorKind::Call { func, args, destination, target, unwind, fn_span, .. } => {
                v.push(("k", s("call")));
                v.push(("f", self.operand(owner, body, func)));
                v.push(("args", J::Arr(args.iter().map(|a| self.operand(owner, body, &a.node)).collect())));
                v.push(("dest", self.place(body, destination)));
                if let Some(t) = target {
                    v.push(("t", n(t.as_usize() as i128)));
                }
                v.push(("u", self.unwind(unwind)));
                v.push(("fline", self.line(*fn_span)));
            }
            TerminatorKind::TailCall { func, args, .. } => {
                v.push(("k", s("tailcall")));
                v.push(("f", self.operand(owner, body, func)));
                v.push(("args", J::Arr(args.iter().map(|a| self.operand(owner, body, &a.node)).collect())));
            }
            TerminatorKind::Assert { cond, expected, msg, target, unwind } => {
                v.push(("k", s("assert")));
                v.push(("cond", self.operand(owner, body, cond)));
                v.push(("expected", J::Bool(*expected)));
                let mk = match &**msg {
                    AssertKind::BoundsCheck { .. } => "bounds".to_string(),
                    AssertKind::Overflow(op, ..) => format!("overflow:{:?}", op),
                    AssertKind::OverflowNeg(_) => "overflow:Neg".to_string(),
                    AssertKind::DivisionByZero(_) => "div0".to_string(),
                    AssertKind::RemainderByZero(_) => "rem0".to_string(),
                    AssertKind::ResumedAfterReturn(_) => "resumed_after_return".to_string(),
                    AssertKind::ResumedAfterPanic(_) => "resumed_after_panic".to_string(),
                    AssertKind::ResumedAfterDrop(_) => "resumed_after_drop".to_string(),
                    _ => "other".to_string(),
                };
                v.push(("msg", s(mk)));
                v.push(("t", n(target.as_usize() as i128)));
                v.push(("u", self.unwind(unwind)));
            }
            TerminatorKind::Yield { value, resume, drop, .. } => {
                v.push(("k", s("yield")));
                v.push(("value", self.operand(owner, body, value)));
                v.push(("t", n(resume.as_usize() as i128)));
                if let Some(d) = drop {
                    v.push(("cd", n(d.as_usize() as i128)));
                }
                let dk = term.source_info.span.desugaring_kind();
                v.push(("desugar", match dk { Some(k) => s(format!("{:?}", k)), None => J::Null }));
            }
            TerminatorKind::CoroutineDrop => v.push(("k", s("coroutine_drop"))),
            TerminatorKind::FalseEdge { real_target, .. } => {
                v.push(("k", s("goto")));
                v.push(("false_edge", J::Bool(true)));
                v.push(("t", n(real_target.as_usize() as i128)));
            }
            TerminatorKind::FalseUnwind { real_target, .. } => {
                v.push(("k", s("goto")));
                v.push(("false_unwind", J::Bool(true)));
                v.push(("t", n(real_target.as_usize() as i128)));
            }
            TerminatorKind::InlineAsm { .. } => v.push(("k", s("asm"))),
        }
        v.push(("line", self.line(term.source_info.span)));
        if term.source_info.span.from_expansion() {
            v.push(("exp", s(format!("{:?}", term.source_info.span.ctxt().outer_expn_data().kind))));
        }
        J::obj(v)
    }

    fn body(&self, def: LocalDefId, body: &Body<'tcx>) -> J {
        let tcx = self.tcx;
        let did = def.to_def_id();
        let mut v: Vec<(&'static str, J)> = Vec::new();
        v.push(("path", s(self.path(did))));
        let kind = tcx.def_kind(did);
        v.push(("def_kind", s(format!("{:?}", kind))));
        if let Some(ck) = tcx.coroutine_kind(did) {
            v.push(("coroutine", s(format!("{:?}", ck))));
        }
        if let Some(parent) = tcx.opt_parent(did) {
            v.push(("parent", s(self.path(parent))));
            let pk = tcx.def_kind(parent);
            if let DefKind::Impl { .. } = pk {
                let self_ty = tcx.type_of(parent).instantiate_identity().skip_norm_wip();
                v.push(("impl_self", s(self.ty_str(self_ty))));
                if let Some(tr) = tcx.impl_opt_trait_ref(parent) {
                    let tr = tr.instantiate_identity().skip_norm_wip();
                    v.push(("impl_trait", s(self.path(tr.def_id))));
                    v.push(("impl_trait_ref", s(self.disp(tr))));
                }
            }
            if let DefKind::Trait = pk {
                v.push(("in_trait", s(self.path(parent))));
            }
        }
        if matches!(kind, DefKind::Fn | DefKind::AssocFn) {
            let vis = tcx.visibility(did);
            v.push(("vis", s(if vis.is_public() { "pub".to_string() } else { format!("{:?}", vis) })));
            let sig = tcx.fn_sig(did).instantiate_identity().skip_norm_wip().skip_binder();
            v.push(("inputs", J::Arr(sig.inputs().iter().map(|t| s(self.ty_str(*t))).collect())));
            v.push(("output", s(self.ty_str(sig.output()))));
            v.push(("asyncness", J::Bool(tcx.asyncness(did).is_async())));
        }
        let (file, lo, hi) = self.loc(body.span);
        v.push(("file", s(file)));
        v.push(("line", n(lo as i128)));
        v.push(("end_line", n(hi as i128)));
        v.push(("arg_count", n(body.arg_count as i128)));

        let mut locals: Vec<J> = Vec::new();
        for (_l, decl) in body.local_decls.iter_enumerated() {
            let mut lv: Vec<(&'static str, J)> = vec![("ty", s(self.ty_str(decl.ty)))];
            lv.push(("parts", self.ty_parts(decl.ty)));
            lv.push(("user", J::Bool(decl.is_user_variable())));
            lv.push(("mut", J::Bool(decl.mutability.is_mut())));
            lv.push(("line", self.line(decl.source_info.span)));
            locals.push(J::obj(lv));
        }
        v.push(("locals", J::Arr(locals)));

        let mut dbg: Vec<J> = Vec::new();
        for vdi in &body.var_debug_info {
            let mut dv: Vec<(&'static str, J)> = vec![("name", s(vdi.name.to_string()))];
            match &vdi.value {
                VarDebugInfoContents::Place(p) => dv.push(("p", self.place(body, p))),
                VarDebugInfoContents::Const(c) => dv.push(("const", s(self.disp(c.const_)))),
            }
            if let Some(ai) = vdi.argument_index {
                dv.push(("arg", n(ai as i128)));
            }
            dbg.push(J::obj(dv));
        }
        v.push(("debug", J::Arr(dbg)));

        let mut blocks: Vec<J> = Vec::new();
        for (_bb, data) in body.basic_blocks.iter_enumerated() {
            let mut stmts: Vec<J> = Vec::new();
            for st in &data.statements {
                let mut sv: Vec<(&'static str, J)> = Vec::new();
                match &st.kind {
                    StatementKind::Assign(b) => {
                        sv.push(("k", s("assign")));
                        sv.push(("p", self.place(body, &b.0)));
                        sv.push(("rv", self.rvalue(def, body, &b.1)));
                    }
                    StatementKind::SetDiscriminant { place, variant_index } => {
                        sv.push(("k", s("setdiscr")));
                        sv.push(("p", self.place(body, place)));
                        sv.push(("variant", n(variant_index.as_usize() as i128)));
                    }
                    StatementKind::StorageLive(l) => {
                        sv.push(("k", s("live")));
                        sv.push(("l", n(l.as_usize() as i128)));
                    }
                    StatementKind::StorageDead(l) => {
                        sv.push(("k", s("dead")));
                        sv.push(("l", n(l.as_usize() as i128)));
                    }
                    _ => continue,
                }
                sv.push(("line", self.line(st.source_info.span)));
                stmts.push(J::obj(sv));
            }
            blocks.push(J::obj(vec![
                ("cleanup", J::Bool(data.is_cleanup)),
                ("stmts", J::Arr(stmts)),
                ("term", self.terminator(def, body, data)),
            ]));
        }
        v.push(("blocks", J::Arr(blocks)));

        // coroutine layout: the compiler's own saved-locals result
        if tcx.is_coroutine(did) {
            if let Some(layout) = tcx.mir_coroutine_witnesses(did) {
                let mut variants: Vec<J> = Vec::new();
                for (vidx, fields) in layout.variant_fields.iter_enumerated() {
                    let mut fs: Vec<J> = Vec::new();
                    for saved in fields.iter() {
                        let name = layout.field_names[*saved].map(|x| x.to_string());
                        let fty = layout.field_tys[*saved].ty;
                        fs.push(J::obj(vec![
                            ("name", match name { Some(x) => s(x), None => J::Null }),
                            ("ty", s(self.ty_str(fty))),
                            ("parts", self.ty_parts(fty)),
                            ("line", self.line(layout.field_tys[*saved].source_info.span)),
                        ]));
                    }
                    let si = layout.variant_source_info[vidx];
                    variants.push(J::obj(vec![
                        ("idx", n(vidx.as_usize() as i128)),
                        ("line", self.line(si.span)),
                        ("saved", J::Arr(fs)),
                    ]));
                }
                v.push(("layout", J::Arr(variants)));
            }
        }
        J::obj(v)
    }

    fn adts(&self) -> J {
        let tcx = self.tcx;
        let mut out: Vec<J> = Vec::new();
        for id in tcx.hir_free_items() {
            let did = id.owner_id.to_def_id();
            let kind = tcx.def_kind(did);
            if !matches!(kind, DefKind::Struct | DefKind::Enum | DefKind::Union) {
                continue;
            }
            let def = tcx.adt_def(did);
            let mut variants: Vec<J> = Vec::new();
            for vdef in def.variants().iter() {
                let mut fields: Vec<J> = Vec::new();
                for f in vdef.fields.iter() {
                    let fty = tcx.type_of(f.did).instantiate_identity().skip_norm_wip();
                    let mut attrs: Vec<J> = Vec::new();
                    if let Some(ld) = f.did.as_local() {
                        let hid = tcx.local_def_id_to_hir_id(ld);
                        for a in tcx.hir_attrs(hid) {
                            attrs.push(s(attr_str(tcx, a)));
                        }
                    }
                    fields.push(J::obj(vec![
                        ("name", s(f.name.to_string())),
                        ("ty", s(self.ty_str(fty))),
                        ("parts", self.ty_parts(fty)),
                        ("vis", s(if f.vis.is_public() { "pub".to_string() } else { format!("{:?}", f.vis) })),
                        ("attrs", J::Arr(attrs)),
                    ]));
                }
                let mut vattrs: Vec<J> = Vec::new();
                if let Some(ld) = vdef.def_id.as_local() {
                    let hid = tcx.local_def_id_to_hir_id(ld);
                    for a in tcx.hir_attrs(hid) {
                        vattrs.push(s(attr_str(tcx, a)));
                    }
                }
                variants.push(J::obj(vec![
                    ("name", s(vdef.name.to_string())),
                    ("fields", J::Arr(fields)),
                    ("attrs", J::Arr(vattrs)),
                ]));
            }
            let hid = tcx.local_def_id_to_hir_id(id.owner_id.def_id);
            let attrs: Vec<J> = tcx.hir_attrs(hid).iter().map(|a| s(attr_str(tcx, a))).collect();
            let vis = tcx.visibility(did);
            let (file, lo, _) = self.loc(tcx.def_span(did));
            out.push(J::obj(vec![
                ("path", s(self.path(did))),
                ("kind", s(format!("{:?}", kind))),
                ("vis", s(if vis.is_public() { "pub".to_string() } else { format!("{:?}", vis) })),
                ("variants", J::Arr(variants)),
                ("attrs", J::Arr(attrs)),
                ("file", s(file)),
                ("line", n(lo as i128)),
            ]));
        }
        J::Arr(out)
    }

    /// evaluated values of local `const` / associated `const` items (strings and scalars)
    fn consts(&self) -> J {
        let tcx = self.tcx;
        let mut out: Vec<J> = Vec::new();
        for def in tcx.hir_body_owners() {
            let did = def.to_def_id();
            if !matches!(tcx.def_kind(did), DefKind::Const { .. } | DefKind::AssocConst { .. }) {
                continue;
            }
            if tcx.generics_of(did).requires_monomorphization(tcx) {
                continue;
            }
            let ty = tcx.type_of(did).instantiate_identity().skip_norm_wip();
            let val = std::panic::catch_unwind(std::panic::AssertUnwindSafe(|| tcx.const_eval_poly(did)));
            if let Ok(Ok(cv)) = val {
                let c = rustc_middle::mir::Const::Val(cv, ty);
                out.push(J::obj(vec![
                    ("path", s(self.path(did))),
                    ("ty", s(self.ty_str(ty))),
                    ("value", s(self.disp(c))),
                ]));
            }
        }
        J::Arr(out)
    }

    fn impls(&self) -> J {
        let tcx = self.tcx;
        let mut out: Vec<J> = Vec::new();
        for id in tcx.hir_free_items() {
            let did = id.owner_id.to_def_id();
            if !matches!(tcx.def_kind(did), DefKind::Impl { .. }) {
                continue;
            }
            let self_ty = tcx.type_of(did).instantiate_identity().skip_norm_wip();
            let mut v: Vec<(&'static str, J)> = vec![
                ("self_ty", s(self.ty_str(self_ty))),
                ("parts", self.ty_parts(self_ty)),
            ];
            if let Some(tr) = tcx.impl_opt_trait_ref(did) {
                let tr = tr.instantiate_identity().skip_norm_wip();
                v.push(("trait", s(self.path(tr.def_id))));
                v.push(("trait_ref", s(self.disp(tr))));
            }
            v.push(("derived", J::Bool(tcx.is_automatically_derived(did))));
            let items: Vec<J> = tcx
                .associated_items(did)
                .in_definition_order()
                .filter_map(|it| it.opt_name().map(|x| s(x.to_string())))
                .collect();
            v.push(("items", J::Arr(items)));
            let (file, lo, _) = self.loc(tcx.def_span(did));
            v.push(("file", s(file)));
            v.push(("line", n(lo as i128)));
            out.push(J::obj(v));
        }
        J::Arr(out)
    }
}

fn export<'tcx>(tcx: TyCtxt<'tcx>, out_dir: &str) {
    let crate_name = tcx.crate_name(rustc_hir::def_id::LOCAL_CRATE).to_string();
    let cx = Cx { tcx, krate: crate_name.clone() };
    // make sure every body has been built (and therefore captured)
    for def in tcx.hir_body_owners() {
        let _ = tcx.ensure_ok().mir_built(def);
    }
    let captured: Vec<(u32, usize)> = BODIES.lock().unwrap().clone();
    let mut bodies: Vec<J> = Vec::new();
    let mut seen = std::collections::HashSet::new();
    for def in tcx.hir_body_owners() {
        let idx = def.local_def_index.as_u32();
        if !seen.insert(idx) {
            continue;
        }
        let kind = tcx.def_kind(def.to_def_id());
        if !matches!(kind, DefKind::Fn | DefKind::AssocFn | DefKind::Closure) {
            continue;
        }
        if let Some((_, ptr)) = captured.iter().find(|(i, _)| *i == idx) {
            let body: &Body<'tcx> = unsafe { &*(*ptr as *const Body<'tcx>) };
            bodies.push(cx.body(def, body));
        }
    }

    // feature set
    let mut features: Vec<String> = Vec::new();
    let mut cfgs: Vec<String> = Vec::new();
    for (name, val) in tcx.sess.config.iter() {
        if name.as_str() == "feature" {
            if let Some(v) = val {
                features.push(v.to_string());
            }
        }
        if name.as_str() == "test" {
            cfgs.push("test".into());
        }
    }
    features.sort();
    let crate_types: Vec<String> = tcx.crate_types().iter().map(|c| format!("{:?}", c)).collect();
    let hid = rustc_hir::CRATE_HIR_ID;
    let crate_attrs: Vec<J> = tcx
        .hir_attrs(hid)
        .iter()
        .map(|a| s(attr_str(tcx, a)))
        .collect();
    let lint_forbid_unsafe = {
        String::new()
    };

    let nonce = std::env::var("DPA_NONCE").unwrap_or_default();
    let root = J::obj(vec![
        ("crate", s(crate_name.clone())),
        ("features", J::Arr(features.iter().cloned().map(s).collect())),
        ("cfg_test", J::Bool(!cfgs.is_empty())),
        ("crate_types", J::Arr(crate_types.iter().cloned().map(s).collect())),
        ("nonce", s(nonce.clone())),
        ("crate_attrs", J::Arr(crate_attrs)),
        ("unsafe_code_level", s(lint_forbid_unsafe)),
        ("n_bodies", n(bodies.len() as i128)),
        ("bodies", J::Arr(bodies)),
        ("consts", cx.consts()),
        ("adts", cx.adts()),
        ("impls", cx.impls()),
    ]);
    let mut text = String::new();
    root.write(&mut text);
    // file name: crate, feature hash, test flag, crate type
    let mut h: u64 = 0xcbf29ce484222325;
    for f in &features {
        for b in f.bytes().chain(std::iter::once(b',')) {
            h ^= b as u64;
            h = h.wrapping_mul(0x100000001b3);
        }
    }
    let fname = format!(
        "{}/{}-{:016x}{}-{}.json",
        out_dir,
        crate_name,
        h,
        if cfgs.is_empty() { "" } else { "-test" },
        crate_types.join("_")
    );
    let _ = std::fs::create_dir_all(out_dir);
    let tmp = format!("{}.tmp{}", fname, std::process::id());
    std::fs::write(&tmp, text).expect("dpa: cannot write fact file");
    std::fs::rename(&tmp, &fname).expect("dpa: cannot rename fact file");
}

fn attr_str<'tcx>(tcx: TyCtxt<'tcx>, a: &rustc_hir::Attribute) -> String {
    let st = rustc_hir_pretty::attribute_to_string(&tcx, a);
    let st = st.trim().to_string();
    if st.starts_with("#[doc") || st.starts_with("#![doc") || st.starts_with("//") || st.starts_with("/*") {
        "#[doc]".to_string()
    } else {
        st.trim().to_string()
    }
}

"""Effect-ledger analysis of the managed pool (conservation on every path).

A path-sensitive abstract interpretation over the normalised mir_built CFGs.
Every event that changes one of the pool's books has a fixed effect on three
*ledger expressions*; the analysis propagates, per program point, the set of
reachable (ledger vector, ownership state) pairs - along normal edges, the
unwind edges of *user code* (Manager methods, hooks, predicates, opaque
futures) and the cancellation edges of every suspension point, with summaries
for local callees and for awaited local coroutines - and every exit of every
entry point has to balance.  A violation is reported with a witness path.

    E1 = P + H + O - D      capacity: free permits + held permits + objects out - shrink debt   (= max_size at rest)
    E2 = S - Q - O - W - B  objects:  size - idle - out - wrapped (in flight) - bare (in hand)   (= 0 at rest)
    E3 = U - O - G          users:    users counter - objects out - getters in flight            (= 0 at rest)

event                                           E1   E2   E3
 acquire ok / RAII release of a permit            0    0    0   (P and H move together)
 SemaphorePermit::forget (getter)                -1
 Semaphore::add_permits(1)                       +1
 Object { .. } constructed (O+1, B-1)            +1    0   -1
 users.fetch_add(1) / fetch_sub(1)                         +1 / -1
 users guard constructed (G+1) / disarmed (G-1)            -1 / +1
 users guard dropped while armed (U-1, G-1)                 0
 ObjectInner { .. } constructed (B+1)                 -1
 wrapper constructed (B-1, W+1)                         0
 wrapper consumed by ready() (W-1, B+1)                 0
 wrapper dropped while owning (S-1, W-1)                0   (its Drop body is an entry point of its own)
 size += 1 / size -= 1                                +1 / -1
 pop Some (Q-1, B+1) / push_back (Q+1, B-1)             0
 bare object dropped (B-1)                            +1
 entry of the return helper (O-1, B+1)           -1    0   +1
 entry of the take helper (O-1, value to caller) -1   +1   +1
 surplus branch `size > max_size` (D-1)          +1

Not modelled (decided by other rules, named in the evidence): resize()/close()
permit arithmetic (R07.x ledger rules; E1 is skipped there), retain()'s bulk
`size -= removed.len()` (R09.1; E2 is skipped there), that the users guard's
Drop really does `users -= 1` (R03.3), that the wrapper's Drop is what `drop`
of a wrapper runs (Rust semantics).
"""
from .facts import strip_generics, Operand, Place, norm_path
from .roles import adt_of, classify_write
from .mcommon import queue_calls, cmp_relation, is_dyn_call, contradicted_arms
from .analysis import sources

ZERO = (0, 0, 0)
CAP = 3          # |component| beyond this = unbounded drift in a loop


def vadd(a, b):
    return tuple(x + y for x, y in zip(a, b))


def is_user_call(t):
    """does this call run caller-supplied code (which may panic)?  unresolved callee (generic M / F / opaque future),
    trait object, boxed dyn future"""
    if t.kind != 'call' or t.func.kind != 'const':
        return t.kind == 'call'
    c = t.func.const
    if not c.get('rfn'):
        return True
    if is_dyn_call(t):
        return True
    if c.get('rk') == 'virtual':
        return True
    fn = strip_generics(c.get('fn', ''))
    if fn.endswith('Future::poll') and any('dyn ' in a for a in (c.get('targs') or [])):
        return True
    if fn.endswith('Future::poll') and 'dyn ' in (c.get('impl_self') or ''):
        return True
    return False


OPPOSITE = {'Ok': 'Err', 'Err': 'Ok', 'Some': 'None', 'None': 'Some', 'Continue': 'Break', 'Break': 'Continue'}
ENUMS = ('std::result::Result', 'std::option::Option', 'std::ops::ControlFlow')
TESTS = {'is_err': 'Err', 'is_ok': 'Ok', 'is_some': 'Some', 'is_none': 'None'}
# combinators whose result variant is a function of the receiver's variant
CARRY = {'map_err': {'Ok': 'Ok', 'Err': 'Err'}, 'map': {'Ok': 'Ok', 'Err': 'Err', 'Some': 'Some', 'None': 'None'}, 'ok_or': {'Some': 'Ok', 'None': 'Err'},
         'ok_or_else': {'Some': 'Ok', 'None': 'Err'}, 'ok': {'Ok': 'Some', 'Err': 'None'}, 'err': {'Ok': 'None', 'Err': 'Some'},
         'branch': {'Ok': 'Continue', 'Err': 'Break', 'Some': 'Continue', 'None': 'Break'}, 'into_future': None, 'from': None, 'into': None}


def _kill(fl, l):
    return {f for f in fl if not (isinstance(f, tuple) and ((f[0] in ('var', 'test', 'retvar') and f[1] == l) or (f[0] == 'test' and f[2] == l)))}


def _var_of(fl, l):
    for f in fl:
        if isinstance(f, tuple) and f[0] == 'var' and f[1] == l:
            return f[2]
    return None


class Exit:
    __slots__ = ('kind', 'vec', 'key', 'flags', 'retvar')
    def __init__(self, kind, vec, key, flags, retvar=None):
        self.kind = kind; self.vec = vec; self.key = key; self.flags = flags; self.retvar = retvar


class BodyCtx:
    """per-body facts the model hooks need"""
    pass


class LedgerBase:
    """the fixpoint engine; a model supplies the events (hooks below)"""
    N = 3
    IGNORE_FLAGS = ('dead',)       # exits carrying one of these flags are outside the books

    def __init__(self, prog):
        self.prog = prog
        self.ZERO = tuple([0] * self.N)
        self.summaries = {}
        self.results = {}        # body path -> (exits, parents)
        self.in_progress = set()
        self.problems = []       # (body, line, message)
        self.n_states = 0
        self.n_events = 0
        self.n_user_unwinds = 0
        self.n_cancel_edges = 0
        self.touched = set()      # bodies in which a ledger event occurs
        self._drop_bodies = None

    # ---- hooks ------------------------------------------------------------------------------------------------
    def is_local(self, b):
        raise NotImplementedError
    def kind_of_ty(self, ty):
        return None
    def entry_vec(self, b):
        return self.ZERO
    def body_ctx(self, b, an, tr):
        return BodyCtx()
    def stmt_event(self, b, an, bc, s):
        """effect of an assignment statement: (vector or None, note)"""
        return None, ''
    def call_event(self, b, an, bc, blk, t, ini, tr, dest):
        """(vector, note) when the call is a ledger event, else None"""
        return None
    def call_disowns(self, b, an, bc, t, tr):
        """tracked locals that stop owning their resource because of this call (e.g. `obj.field.take()`)"""
        return ()
    def switch_event(self, b, an, bc, blk, t, lab, on, tr, fl=()):
        """(vector or None, note, flags to add) for one arm of a switch"""
        return None, '', ()
    def drop_effect(self, kind):
        """effect of dropping an owning tracked local of this kind (None: no effect on the books here)"""
        return None
    def _variant_holds(self, adt, lab):
        """does variant `lab` of a maybe-value hold the value?  Option / Result / ControlFlow by name; a two-state enum of the analysed
        crates (`enum Slot<T> { Held(T), Vacant }`) by its shape: the variant with a payload holds, the unit variant does not"""
        if lab in ('Some', 'Ok', 'Continue'):
            return True
        if lab in ('None', 'Err', 'Break'):
            return False
        for c_ in self.prog.crates.values():
            a_ = c_.adt(adt) if adt else None
            if a_ is not None:
                for v_ in a_.get('variants', []):
                    if v_.get('name') == lab:
                        return bool(v_.get('fields'))
        return None

    def pend_call(self, b, an, bc, blk, t):
        """effect id when the call yields a *maybe* resource (Option / Result): the effect is applied where the value is
        resolved to present (Some / Ok / Continue arm, unwrap) and not applied on the absent arm"""
        return None
    def pend_effect(self, eff):
        return self.ZERO, ''
    def unresumed_kinds(self):
        """kinds whose drop inside a never-polled future has an effect"""
        return ()

    # ---- machinery --------------------------------------------------------------------------------------------
    def _ev(self, b):
        self.n_events += 1
        self.touched.add(b.path)

    def drop_bodies(self):
        """{adt path: Drop::drop body} for the types of the modelled module that implement Drop: dropping an owning local of
        such a type runs that body (an RAII guard introduced by a refactoring is followed like a call)"""
        if self._drop_bodies is None:
            d = {}
            for b in self.prog.bodies.values():
                if b.j.get('impl_trait') == 'std::ops::Drop' and self.is_local(b):
                    d[adt_of(b.j.get('impl_self', ''))] = b
            self._drop_bodies = d
        return self._drop_bodies

    def tracked(self, b):
        out = {}
        db = self.drop_bodies()
        for i, l in enumerate(b.locals):
            k = self.kind_of_ty(l['ty'])
            if k:
                out[i] = k
            elif not l['ty'].startswith(('&', '*')) and adt_of(l['ty']) in db and db[adt_of(l['ty'])].path != b.path:
                out[i] = 'dropper:' + adt_of(l['ty'])
        return out

    def local_callee(self, t):
        if t.kind != 'call' or t.func.kind != 'const':
            return None
        p = t.func.const.get('rfn')          # unresolved (generic / trait-object) callees are user code, not local callees
        if not p or t.func.const.get('rk') == 'virtual':
            return None
        b = self.prog.bodies.get(p)
        if b is None or not self.is_local(b):
            return None
        return b

    def coroutine_of_ctor(self, fn_body):
        """the coroutine body built by an `async fn` constructor"""
        for blk in fn_body.blocks:
            for s in blk.stmts:
                if s.kind == 'assign' and s.rv.kind == 'agg' and s.rv.j.get('ak') == 'coroutine' and s.rv.j['def'] in self.prog.bodies:
                    return self.prog.bodies[s.rv.j['def']]
        return None

    def summary(self, b):
        s = self.summaries.get(b.path)
        if s is not None:
            return s
        Z = self.ZERO
        if b.path in self.in_progress:
            return {'return': {Z}, 'return_v': {(Z, None)}, 'unwind': set(), 'cancel': {Z}, 'unresumed': {Z}}
        self.in_progress.add(b.path)
        exits, parents = self.analyse(b)
        self.in_progress.discard(b.path)
        s = {'return': set(), 'unwind': set(), 'cancel': set(), 'unresumed': {Z}, 'return_flags': set()}
        for e in exits:
            if any(f in e.flags for f in self.IGNORE_FLAGS):
                if e.kind == 'return':
                    s['return_flags'].add(frozenset(f for f in e.flags if isinstance(f, str) and f in self.IGNORE_FLAGS))
                continue
            s.setdefault(e.kind, set()).add(e.vec)
            if e.kind == 'return':
                s.setdefault('return_v', set()).add((e.vec, e.retvar))
        self.summaries[b.path] = s
        self.results[b.path] = (exits, parents)
        return s

    def witness(self, b, exit_):
        """source lines along one path from the entry to the exit state (consecutive duplicates removed)"""
        exits, parents = self.results[b.path]
        path = []
        key = exit_.key
        guard = 0
        while key is not None and guard < 5000:
            guard += 1
            bb = key[0]
            par = parents.get(key)
            note = par[1] if par else ''
            path.append((b.blocks[bb].term.line, note))
            key = par[0] if par else None
        path.reverse()
        out = []
        for ln, note in path:
            item = 'L%d%s' % (ln, ('[' + note + ']') if note else '')
            if not out or out[-1] != item:
                if note or not out or not out[-1].startswith('L%d' % ln):
                    out.append(item)
        return out

    def _handed_over(self, b, t, lf_n, mf, to):
        for (l, cp, pd) in list(lf_n):
            if l == mf:
                sm = self.summary(self.prog.bodies[cp])
                allv = (sm['return'] | sm['cancel'] | sm.get('unresumed', set()))
                if allv - {self.ZERO}:
                    self.problems.append((b, t.line, 'a future with ledger effects %s is handed to %s: its completion cannot be followed' % (sorted(allv), to)))

    def analyse(self, b):
        prog = self.prog
        ZERO = self.ZERO
        an = prog.an(b)
        tr = self.tracked(b)
        bc = self.body_ctx(b, an, tr)
        poll_dest = {}     # local (dest of a poll call) -> coroutine body
        for blk in b.blocks:
            t = blk.term
            cb = self.local_callee(t)
            if cb is not None and t.dest is not None and t.dest.is_local() and cb.is_coroutine:
                poll_dest[t.dest.local] = cb
        start_vec = self.entry_vec(b)
        start_init = frozenset(l for l in range(1, b.arg_count + 1) if l in tr)
        # state = (vec, init, futs, flags);  futs: frozenset of (local, coroutine path, polled)
        s0 = (start_vec, start_init, frozenset(), frozenset())
        states = {0: {s0}}
        parents = {(0, s0): None}
        work = [0]
        exits = []
        steps = 0

        def fut_move(lf, src, dst):
            out = set()
            for (l, cp, pd) in lf:
                if l == src:
                    if dst is not None:
                        out.add((dst, cp, pd))
                else:
                    out.add((l, cp, pd))
            return out

        def fut_effect(cp, polled):
            """ledger effect of dropping a live (not completed) future of coroutine cp"""
            sm = self.summary(self.prog.bodies[cp])
            return (sm['cancel'] if polled else sm.get('unresumed', {ZERO})) or {ZERO}

        def futurish(ty):
            return ty.startswith('impl ') or 'Future' in ty or '{async' in ty or 'Pin<' in ty

        while work:
            steps += 1
            if steps > 60000:
                self.problems.append((b, b.line, 'ledger analysis did not converge'))
                break
            bb = work.pop()
            blk = b.blocks[bb]
            outs = []
            st = None

            def emit(kind, tgt, v2, ini2, lf2, fl2, line, note=''):
                if max(abs(x) for x in v2) > CAP:
                    self.problems.append((b, line, 'the ledger drifts without bound: a loop iteration (or repeated event) has a non-zero net effect %s' % (v2,)))
                    return
                outs.append((kind, tgt, (v2, frozenset(ini2), frozenset(lf2), frozenset(fl2)), note, st))

            for st in list(states[bb]):
                (vec, init, live, flags) = st
                self.n_states += 1
                v = vec; ini = set(init); lf = set(live); fl = set(flags)
                notes = []
                for s in blk.stmts:
                    if s.kind == 'assign':
                        rv = s.rv
                        dst = s.place.local if s.place.is_local() else None
                        # ---- variant facts (must-facts along this path; they prune infeasible arms of later switches)
                        if dst is not None:
                            inherit = []
                            if rv.kind == 'use' and rv.ops[0].kind != 'const':
                                sp = rv.ops[0].place
                                if not sp.proj:
                                    inherit = [(f[0],) + (dst,) + tuple(f[2:]) for f in fl if isinstance(f, tuple) and f[0] in ('var', 'test') and f[1] == sp.local]
                                elif tuple(sp.proj) == ('@Ready', '.0'):
                                    inherit = [('var', dst, f[2]) for f in fl if isinstance(f, tuple) and f[0] == 'retvar' and f[1] == sp.local and f[2]]
                            fl = _kill(fl, dst)
                            fl |= set(inherit)
                            if rv.kind == 'agg' and rv.j.get('ak') == 'adt' and rv.j.get('variant'):
                                fl.add(('var', dst, rv.j['variant']))          # any enum value built here has a known variant
                        if rv.kind in ('ref', 'rawptr') and rv.j.get('mut') and not [e for e in rv.place.proj if e != '*'] and '*' not in rv.place.proj:
                            fl = _kill(fl, rv.place.local)
                        for op in rv.ops:
                            if op.kind == 'move' and '*' not in op.place.proj:
                                src_l = op.place.local
                                if src_l in tr:
                                    ini.discard(src_l)
                                if not op.place.proj:
                                    lf = fut_move(lf, src_l, dst)
                                    if rv.kind == 'use' and dst is not None:
                                        for f_ in [f_ for f_ in fl if isinstance(f_, tuple) and f_[0] == 'pend' and f_[1] == src_l]:
                                            fl.discard(f_); fl.add(('pend', dst, f_[2]))
                        dv, nt = self.stmt_event(b, an, bc, s)
                        if dv is not None:
                            v = vadd(v, dv); self._ev(b)
                        if nt:
                            notes.append(nt)
                        if rv.kind == 'agg' and rv.j.get('ak') == 'coroutine' and dst is not None and rv.j['def'] in prog.bodies and self.is_local(prog.bodies[rv.j['def']]):
                            lf.add((dst, rv.j['def'], False))
                        if dst is not None and dst in tr:
                            if rv.kind == 'agg' and rv.j.get('ak') == 'adt' and rv.j.get('variant') == 'None':
                                ini.discard(dst)          # an empty Option owns nothing
                            else:
                                ini.add(dst)
                    elif s.kind == 'dead':
                        ini.discard(s.local)
                        fl = {f_ for f_ in fl if not (isinstance(f_, tuple) and f_[0] == 'pend' and f_[1] == s.local)}
                        fl = _kill(fl, s.local)
                        lf = {(l, cp, pd) for (l, cp, pd) in lf if l != s.local}
                note = ', '.join(notes)
                t = blk.term
                if t.kind == 'call':
                    names = t.callee_names()
                    ini2 = set(ini); lf2 = set(lf)
                    moved_futs = []
                    for a in t.args:
                        if a.kind == 'move' and '*' not in a.place.proj:
                            if a.place.local in tr:
                                ini2.discard(a.place.local)
                            if not a.place.proj and any(l == a.place.local for (l, cp, pd) in lf2):
                                moved_futs.append(a.place.local)
                    for l in self.call_disowns(b, an, bc, t, tr):
                        ini2.discard(l)
                    cb = self.local_callee(t)
                    dest = t.dest.local if t.dest is not None and t.dest.is_local() else None
                    evt = self.call_event(b, an, bc, blk, t, ini, tr, dest)
                    vn = v
                    ev = ''
                    if evt is not None:
                        dv, ev = evt
                        if dv is not None:
                            vn = vadd(v, dv)
                        self._ev(b)
                    # maybe-resources: created here, carried through combinators, resolved by unwrap
                    fl = set(fl)
                    for a in t.args:
                        if a.kind == 'move' and not a.place.proj:
                            for f_ in [f_ for f_ in fl if isinstance(f_, tuple) and f_[0] == 'pend' and f_[1] == a.place.local]:
                                fl.discard(f_)
                                if any(n.split('::')[-1] in ('unwrap', 'expect', 'unwrap_unchecked') for n in names):
                                    pv, pn = self.pend_effect(f_[2])
                                    vn = vadd(vn, pv); self._ev(b)
                                    ev = ', '.join(x for x in (ev, pn) if x)
                                elif dest is not None:
                                    fl.add(('pend', dest, f_[2]))
                                else:
                                    self.problems.append((b, t.line, 'a value that may hold a pooled object is handed to %s: cannot be followed' % sorted(names)))
                    pe = self.pend_call(b, an, bc, blk, t)
                    if pe is not None and dest is not None:
                        fl.add(('pend', dest, pe))
                    # variant facts across the call
                    recv_var = None; subject = None
                    if t.args and t.args[0].kind != 'const' and not t.args[0].place.proj:
                        a0l = t.args[0].place.local
                        recv_var = _var_of(fl, a0l)
                        # `x.is_err()`: the receiver is a reference to x
                        dd = an.single_def(a0l)
                        if dd and dd[0] == 'stmt' and dd[3].rv.kind == 'ref' and not dd[3].rv.place.proj:
                            subject = dd[3].rv.place.local
                    for a in t.args:
                        if a.kind == 'move' and not a.place.proj:
                            fl = _kill(fl, a.place.local)
                        if a.kind != 'const' and not a.place.proj:
                            # a `&mut x` handed to the callee: whatever was known about x's variant is void afterwards
                            da = an.single_def(a.place.local)
                            if da and da[0] == 'stmt' and da[3].rv.kind in ('ref', 'rawptr') and da[3].rv.j.get('mut') and '*' not in da[3].rv.place.proj:
                                fl = _kill(fl, da[3].rv.place.local)
                    if dest is not None:
                        fl = _kill(fl, dest)
                        meth = sorted(names)[0].split('::')[-1] if names else ''
                        if meth in TESTS and subject is not None and any(n.startswith(('std::result::Result::', 'std::option::Option::')) for n in names):
                            fl.add(('test', dest, subject, TESTS[meth]))
                        elif meth in ('eq', 'ne') and len(t.args) == 2 and any('PartialEq' in n for n in names):
                            # `x == Enum::V` (derived PartialEq on a field-less enum): a test of x's variant
                            refs = []
                            for a in t.args:
                                tgt = None
                                if a.kind != 'const' and not a.place.proj:
                                    da = an.single_def(a.place.local)
                                    if da and da[0] == 'stmt' and da[3].rv.kind == 'ref' and not da[3].rv.place.proj:
                                        tgt = da[3].rv.place.local
                                refs.append(tgt)
                            if None not in refs:
                                cvs = []
                                for l_ in refs:
                                    ds_ = an.defs(l_)
                                    cvs.append(ds_[0][3].rv.j['variant'] if len(ds_) == 1 and ds_[0][0] == 'stmt' and ds_[0][3].rv.kind == 'agg' and ds_[0][3].rv.j.get('variant') and not ds_[0][3].rv.ops else None)
                                if (cvs[0] is None) != (cvs[1] is None):
                                    subj = refs[1] if cvs[0] else refs[0]
                                    fl.add(('test', dest, subj, ('==' if meth == 'eq' else '!=') + (cvs[0] or cvs[1])))
                        elif meth in CARRY and CARRY[meth] and recv_var in CARRY[meth] and any(n.startswith(('std::result::Result::', 'std::option::Option::', '<std::result::Result', '<std::option::Option')) or n.endswith('Try::branch') for n in names):
                            fl.add(('var', dest, CARRY[meth][recv_var]))
                        elif any(n.endswith('from_residual') for n in names):
                            dty = b.locals[dest]['ty']
                            if dty.startswith('std::result::Result<'):
                                fl.add(('var', dest, 'Err'))
                            elif dty.startswith('std::option::Option<'):
                                fl.add(('var', dest, 'None'))
                    note2 = ', '.join(x for x in (note, ev) if x)
                    if evt is not None or cb is None:
                        ini_n = set(ini2)
                        if dest is not None and dest in tr:
                            ini_n.add(dest)
                        lf_n = set(lf2)
                        for mf in moved_futs:
                            # a live local future handed to foreign code (into_future, Pin::new, Box::pin ..) travels to the result;
                            # handed to a call without a future-typed result it is consumed there: account its whole life now
                            keep_in = dest if dest is not None and (futurish(b.locals[dest]['ty']) or b.locals[dest]['ty'] == b.locals[mf]['ty']) else None
                            if keep_in is None:
                                self._handed_over(b, t, lf_n, mf, sorted(names))
                            lf_n = fut_move(lf_n, mf, keep_in)
                        if t.target is not None:
                            emit('normal', t.target, vn, ini_n, lf_n, fl, t.line, note2)
                        if t.unwind is not None and is_user_call(t):
                            # on unwind the callee has consumed its by-value arguments
                            self.n_user_unwinds += 1
                            lf_u = set(lf2)
                            for mf in moved_futs:
                                lf_u = fut_move(lf_u, mf, None)
                            emit('unwind', t.unwind, v, ini2, lf_u, fl, t.line, (note + ', ' if note else '') + 'panic in %s' % (sorted(names)[0].split('::')[-1] if names else 'a callback'))
                        continue
                    # ---- local callee
                    sm = self.summary(cb)
                    if cb.is_coroutine:
                        # a poll: the outcome (Ready = returned / Pending = still alive) is decided at the switch on the result
                        lf_p = {(l, cp, True if cp == cb.path else pd) for (l, cp, pd) in lf2}
                        if t.target is not None:
                            emit('normal', t.target, v, ini2, lf_p, fl, t.line, note)
                        if t.unwind is not None:
                            for uv in sm['unwind']:
                                # the coroutine unwound: it has run its own clean-up; its future is finished
                                emit('unwind', t.unwind, vadd(v, uv), ini2, {(l, cp, pd) for (l, cp, pd) in lf_p if cp != cb.path}, fl, t.line, 'panic inside %s' % cb.name.split('::')[-2])
                        continue
                    co = self.coroutine_of_ctor(cb)
                    if co is not None:
                        # constructor of an async fn: the arguments move into the future, nothing runs yet
                        lf_n = set(lf2)
                        for mf in moved_futs:
                            self._handed_over(b, t, lf_n, mf, cb.name)
                            lf_n = fut_move(lf_n, mf, None)
                        if dest is not None:
                            lf_n.add((dest, co.path, False))
                        # by-value tracked arguments now live inside the future: if it is dropped before its first poll they are dropped with it
                        self._note_unresumed(co)
                        if t.target is not None:
                            emit('normal', t.target, v, ini2, lf_n, fl, t.line, note)
                        continue
                    for rv_, rvar in (sm.get('return_v') or {(x_, None) for x_ in sm['return']}):
                        ini_n = set(ini2)
                        if dest is not None and dest in tr:
                            ini_n.add(dest)
                        fl_r = set(fl)
                        if dest is not None and rvar:
                            fl_r.add(('var', dest, rvar))
                        if t.target is not None:
                            emit('normal', t.target, vadd(v, rv_), ini_n, lf2, fl_r, t.line, (note + ', ' if note else '') + cb.name.split('::')[-1] + '()')
                    for ff in sm.get('return_flags', ()):
                        # the callee can return on a path that is outside the books (pool gone / closed): so is the rest of this path
                        ini_n = set(ini2)
                        if dest is not None and dest in tr:
                            ini_n.add(dest)
                        if t.target is not None:
                            emit('normal', t.target, v, ini_n, lf2, set(fl) | set(ff), t.line, (note + ', ' if note else '') + cb.name.split('::')[-1] + '() [%s]' % ','.join(sorted(ff)))
                    if t.unwind is not None:
                        for uv in sm['unwind']:
                            emit('unwind', t.unwind, vadd(v, uv), ini2, lf2, fl, t.line, 'panic inside %s' % cb.name.split('::')[-1])
                elif t.kind == 'drop':
                    v2 = v; ini2 = set(ini); lf2 = set(lf)
                    cancels = [ZERO]
                    note2 = note
                    if t.place.is_local():
                        l = t.place.local
                        for f_ in [f_ for f_ in fl if isinstance(f_, tuple) and f_[0] == 'pend' and f_[1] == l]:
                            # dropped without having been looked at: if it held the resource, the resource goes with it
                            fl = set(fl); fl.discard(f_)
                            pv, pn = self.pend_effect(f_[2])
                            v2 = vadd(v2, pv); self._ev(b)
                            note2 = (note2 + ', ' if note2 else '') + pn + ' (dropped unexamined)'
                        if l in ini2 and l in tr and tr[l].startswith('opt') and _var_of(fl, l) == 'None':
                            ini2.discard(l)               # known to be None on this path
                        dvecs = None
                        if l in ini2 and l in tr and tr[l].startswith('dropper:'):
                            dsum = self.summary(self.drop_bodies()[tr[l][8:]])
                            dvecs = sorted(dsum['return']) or [ZERO]
                            note2 = (note2 + ', ' if note2 else '') + 'Drop of %s' % tr[l][8:].split('::')[-1]
                            ini2.discard(l)
                        elif l in ini2 and l in tr:
                            de = self.drop_effect(tr[l])
                            self._ev(b)
                            if de is not None:
                                v2 = vadd(v2, de[0])
                                note2 = (note + ', ' if note else '') + de[1]
                            ini2.discard(l)
                        if dvecs is not None and dvecs != [ZERO]:
                            self._ev(b)
                            cancels = [vadd(c_, d_) for c_ in cancels for d_ in dvecs] if cancels != [ZERO] else dvecs
                        hit = [(ll, cp, pd) for (ll, cp, pd) in lf2 if ll == l]
                        if hit:
                            lf2 -= set(hit)
                            cancels = sorted(fut_effect(hit[0][1], hit[0][2]))
                            note2 = (note2 + ', ' if note2 else '') + 'future of %s dropped%s' % (hit[0][1].split('::')[-2], '' if hit[0][2] else ' unpolled')
                    for cv in cancels:
                        for k_, tgt in an.edges(bb):
                            if k_ == 'unwind':
                                continue      # a destructor that panics: out of scope (double panic / abort territory)
                            emit(k_, tgt, vadd(v2, cv), ini2, lf2, fl, t.line, note2)
                elif t.kind == 'switch':
                    on = t.j.get('on')
                    for lab, tgt in t.switch_arms():
                        v2 = v; ini2 = set(ini); lf2 = set(lf); fl2 = set(fl)
                        note2 = note
                        # variant facts: prune arms that contradict what is known on this path, learn from the arm taken
                        if t.j.get('dty') == 'bool' and t.discr.kind != 'const' and not t.discr.place.proj and lab in ('true', 'false'):
                            tf = [f for f in fl2 if isinstance(f, tuple) and f[0] == 'test' and f[1] == t.discr.place.local]
                            dead_arm = False
                            for f in tf:
                                have = _var_of(fl2, f[2])
                                if isinstance(f[3], str) and f[3][:2] in ('==', '!='):
                                    v_ = f[3][2:]
                                    equal_arm = (lab == 'true') == (f[3][:2] == '==')
                                    if have is not None and ((equal_arm and have != v_) or (not equal_arm and have == v_)):
                                        dead_arm = True
                                    elif equal_arm:
                                        fl2.add(('var', f[2], v_))
                                    continue
                                want = f[3] if lab == 'true' else OPPOSITE.get(f[3])
                                if have is not None and want is not None and have != want:
                                    dead_arm = True
                                elif want is not None:
                                    fl2.add(('var', f[2], want))
                            if dead_arm:
                                continue
                        if on is not None and not on['pr'] and t.j.get('variants') and lab in t.j['variants'].values():
                            have = _var_of(fl2, on['l'])
                            if have is not None and have in t.j['variants'].values() and have != lab:
                                continue
                            fl2 = {f for f in fl2 if not (isinstance(f, tuple) and f[0] == 'var' and f[1] == on['l'])}
                            fl2.add(('var', on['l'], lab))
                        if on is not None and not on['pr'] and tr.get(on['l'], '').startswith('opt') and lab == 'None':
                            ini2.discard(on['l'])
                        if on is not None and not on['pr']:
                            for f_ in [f_ for f_ in fl2 if isinstance(f_, tuple) and f_[0] == 'pend' and f_[1] == on['l']]:
                                full = self._variant_holds(t.j.get('adt'), lab)
                                if full is True:
                                    fl2.discard(f_)
                                    pv, pn = self.pend_effect(f_[2])
                                    v2 = vadd(v2, pv); self._ev(b)
                                    note2 = (note2 + ', ' if note2 else '') + pn
                                elif full is False:
                                    fl2.discard(f_)
                        dv, nt, addf = self.switch_event(b, an, bc, blk, t, lab, on, tr, fl2)
                        if dv is not None:
                            v2 = vadd(v2, dv); self._ev(b)
                        if nt:
                            note2 = (note2 + ', ' if note2 else '') + nt
                        fl2 |= set(addf)
                        if t.j.get('adt') == 'std::task::Poll' and on is not None and not on['pr'] and on['l'] in poll_dest:
                            cb = poll_dest[on['l']]
                            if lab == 'Ready':
                                sm = self.summary(cb)
                                lf3 = {(l, cp, pd) for (l, cp, pd) in lf2 if cp != cb.path}
                                for rv_, rvar in (sm.get('return_v') or {(x_, None) for x_ in sm['return']}):
                                    fl3 = set(fl2)
                                    if rvar:
                                        fl3.add(('retvar', on['l'], rvar))
                                    emit('normal', tgt, vadd(v2, rv_), ini2, lf3, fl3, t.line, (note + ', ' if note else '') + '%s completed' % cb.name.split('::')[-2])
                                for ff in sm.get('return_flags', ()):
                                    emit('normal', tgt, v2, ini2, lf3, fl2 | set(ff), t.line, (note + ', ' if note else '') + '%s completed [%s]' % (cb.name.split('::')[-2], ','.join(sorted(ff))))
                                continue
                        emit('normal', tgt, v2, ini2, lf2, fl2, t.line, note2)
                elif t.kind == 'return':
                    exits.append(Exit('return', v, (bb, st), flags, _var_of(fl, 0)))
                elif t.kind == 'resume':
                    exits.append(Exit('unwind', v, (bb, st), flags))
                elif t.kind == 'coroutine_drop':
                    exits.append(Exit('cancel', v, (bb, st), flags))
                elif t.kind == 'yield':
                    for k_, tgt in an.edges(bb):
                        if k_ == 'cancel':
                            self.n_cancel_edges += 1
                        emit(k_, tgt, v, ini, lf, fl, t.line, (note + ', ' if note else '') + ('abandoned here' if k_ == 'cancel' else ''))
                else:
                    for k_, tgt in an.edges(bb):
                        if k_ == 'unwind':
                            continue          # assert / overflow checks: arithmetic panics are the no-wrap rules' subject
                        emit(k_, tgt, v, ini, lf, fl, t.line, note)
            for (k_, tgt, ns, note, from_st) in outs:
                cur = states.setdefault(tgt, set())
                if ns not in cur:
                    cur.add(ns)
                    parents[(tgt, ns)] = ((bb, from_st), note)
                    if tgt not in work:
                        work.append(tgt)
        return exits, parents

    def _note_unresumed(self, co):
        """effect of dropping the future of `co` before its first poll: its captured by-value arguments are dropped"""
        sm = self.summary(co)
        unres = self.ZERO
        for d in co.debug:
            if 'p' in d and d['p']['l'] == 1 and d['p']['pr']:
                k = self.kind_of_ty(d['p'].get('ty', ''))
                if k in self.unresumed_kinds():
                    de = self.drop_effect(k)
                    if de is not None:
                        unres = vadd(unres, de[0])
        sm['unresumed'] = {unres}


class Ledger(LedgerBase):
    """the managed pool (E1 capacity, E2 size, E3 users)"""
    N = 3

    def __init__(self, prog, r):
        LedgerBase.__init__(self, prog)
        self.r = r
        ug = r.users_guard()
        self.UG = ug[0] if ug else None
        # a closure-carrying guard type (DropGuard<F>) may be instantiated for other purposes too (a diagnostic gauge): the
        # users guard is the instantiation constructed at the bound site (the closure type is part of the local's type)
        self.UG_TY = None
        if ug and ug[3][0] == 'closure' and ug[2].place.is_local():
            self.UG_TY = r.TIMEOUT_GET.locals[ug[2].place.local]['ty']
        self.ret_helper = {h.path for h in r.RETURN if h.path != r.OBJ_DROP.path}
        self.take_helper = {h.path for h in r.TAKE if h.path != r.OBJ_TAKE.path}
        self.helper_paths = self.ret_helper | self.take_helper

    def is_local(self, b):
        return b.path.startswith('deadpool::managed') or b.path.startswith('<deadpool::managed') or (' as deadpool::managed::' in b.path.split('>::')[0] and str(b.file).startswith('src/'))
    is_managed = is_local

    def kind_of_ty(self, ty):
        if ty.startswith('&') or ty.startswith('*'):
            return None
        a = adt_of(ty)
        if a == self.r.UNREADY:
            return 'wrapper'
        if self.UG and a == self.UG:
            return 'uguard' if self.UG_TY is None or ty == self.UG_TY else None
        if a == self.r.OBJINNER:
            return 'bare'
        if a == 'std::option::Option' and ty.startswith('std::option::Option<') and adt_of(ty[len('std::option::Option<'):-1]) == self.r.OBJINNER:
            return 'optbare'
        return None

    def entry_vec(self, b):
        if b.path in self.ret_helper:
            return (-1, 0, 1)
        if b.path in self.take_helper:
            return (-1, 1, 1)
        return self.ZERO

    def body_ctx(self, b, an, tr):
        r = self.r
        bc = BodyCtx()
        bc.qc = {blk.idx: m for blk, m in queue_calls(r, b, an)}
        bc.skip_e1 = b.path in (r.RESIZE.path, r.CLOSE.path)
        bc.skip_e2 = b.path == r.RETAIN.path
        bc.users_f = ('field', '%s.%s' % (r.INNER, r.USERS))
        bc.upgrade_dest = set()
        for blk in b.blocks:
            t = blk.term
            if t.kind == 'call' and t.dest is not None and t.dest.is_local() and any(n.endswith('Weak::upgrade') or n.endswith('Weak::<T, A>::upgrade') for n in t.callee_names()):
                bc.upgrade_dest.add(t.dest.local)
        return bc

    def stmt_event(self, b, an, bc, s):
        r = self.r
        rv = s.rv
        if rv.kind == 'agg' and rv.j.get('ak') == 'adt':
            adt = norm_path(strip_generics(rv.j['adt']))
            if adt == r.OBJECT:
                return (1, 0, -1), 'Object built'
            if adt == r.OBJINNER:
                return (0, -1, 0), 'object created'
            if self.UG and adt == self.UG and (self.UG_TY is None or (s.place.is_local() and b.locals[s.place.local]['ty'] == self.UG_TY)):
                return (0, 0, -1), 'users guard armed'
        lf_ = s.place.last_field() if s.place.proj else None
        if lf_ == (r.SLOTS, r.SIZE) and s.place.proj[-1] == '.' + r.SIZE:
            op_, amt = classify_write(an, s)
            if op_ == '+=' and amt == '1_usize':
                return (0, 1, 0), 'size += 1'
            if op_ == '-=' and amt == '1_usize':
                # (retain: the size dimension is R09.1's - one decrement per removed object or `-= removed.len()` after the walk)
                return ((0, -1, 0), 'size -= 1') if not bc.skip_e2 else (self.ZERO, '')
            if not bc.skip_e2:
                self.problems.append((b, s.line, 'size is written with `%s %s`: not an accountable event' % (op_, amt)))
            return self.ZERO, ''
        return None, ''

    blind = None      # positive control: an event kind the model is made blind to (the books must then NOT balance)

    def call_event(self, b, an, bc, blk, t, ini, tr, dest):
        r = self.r
        names = t.callee_names()
        if self.blind == 'forget' and 'tokio::sync::SemaphorePermit::forget' in names:
            return None
        if 'tokio::sync::Semaphore::add_permits' in names:
            amt = an.resolve_operand(t.args[1]) if len(t.args) > 1 else '?'
            if bc.skip_e1:
                return (None, '')
            if amt == '1_usize':
                return ((1, 0, 0), 'add_permits(1)')
            self.problems.append((b, t.line, 'add_permits(%s): not an accountable amount' % amt))
            return (None, '')
        if 'tokio::sync::SemaphorePermit::forget' in names:
            return (None, '') if bc.skip_e1 else ((-1, 0, 0), 'permit forgotten')
        if any(n.endswith('::fetch_add') and 'atomic' in n for n in names) and t.args and bc.users_f in sources(an, t.args[0]):
            return ((0, 0, 1), 'users += 1')
        if any(n.endswith('::fetch_sub') and 'atomic' in n for n in names) and t.args and bc.users_f in sources(an, t.args[0]):
            return ((0, 0, -1), 'users -= 1')
        a0 = t.args[0] if t.args else None
        if a0 is not None and a0.kind == 'move' and not a0.place.proj and tr.get(a0.place.local) == 'uguard' and a0.place.local in ini:
            return ((0, 0, 1), 'users guard disarmed')          # the guard will never run (G-1)
        if a0 is not None and a0.kind == 'move' and not a0.place.proj and tr.get(a0.place.local) == 'wrapper' and dest is not None and tr.get(dest) == 'bare':
            return (None, 'wrapper -> ready object')                 # ready(): W-1, B+1
        if names & {'std::mem::drop', 'std::mem::forget'} and a0 is not None and a0.kind == 'move' and tr.get(a0.place.local) in ('bare', 'optbare') and a0.place.local in ini:
            return ((0, 1, 0), 'object dropped')                 # a bare object is destroyed (or leaked)
        if blk.idx in bc.qc and bc.qc[blk.idx] in ('clear', 'truncate', 'drain') and b.path not in (r.RESIZE.path, r.RETAIN.path):
            self.problems.append((b, t.line, 'VecDeque::%s on the idle queue: an unaccountable number of objects leaves the queue' % bc.qc[blk.idx]))
            return (None, '')
        return None

    def switch_event(self, b, an, bc, blk, t, lab, on, tr, fl=()):
        if on is not None and not on['pr'] and on['l'] in bc.upgrade_dest and lab == 'None':
            return None, 'pool gone', ('dead',)          # the pool is gone: there are no books to keep
        tgt_ = dict(t.switch_arms()).get(lab)
        if tgt_ is not None and (blk.idx, tgt_) in contradicted_arms(an, self.r, b):
            return None, 'infeasible: contradicts the dominating size / max_size test', ('dead',)
        if b.path in self.helper_paths and not bc.skip_e1:
            rel = cmp_relation(an, self.r, blk, lab)
            if rel and rel[0] in ('size>max', 'size>=max') and 'surplus' not in fl:
                # surplus: shrink debt paid - once per path, however many switches encode the same decision
                return (1, 0, 0), 'surplus branch', ('surplus',)
        return None, '', ()

    def drop_effect(self, kind):
        if kind in ('bare', 'optbare'):
            return ((0, 1, 0), 'object dropped')
        return None          # wrapper: S-1, W-1 (its Drop is an entry point); users guard: U-1, G-1 (R03.3)

    def unresumed_kinds(self):
        return ('bare', 'optbare')


class UnmanagedLedger(LedgerBase):
    """the unmanaged pool.

        U1 = P + H - Q        object semaphore:  free permits + held permits - queued objects            (= 0 at rest)
        U2 = S - Q - O        size counter:      size - queued - handed out                              (= 0 at rest)
        U3 = Z + Hz + S       size semaphore:    free slots + held slots + size                          (= max_size)
        U4 = A + G - Q        available counter: available + getters in flight - queued                  (= 0 at rest)

    event                                   U1   U2   U3   U4
     acquire ok / RAII release of a permit    0    0    0    0
     forget of an object-semaphore permit    -1
     forget of a size-semaphore permit                 -1
     semaphore.add_permits(1)                +1
     size_semaphore.add_permits(1)                     +1
     queue.push                              -1   -1        -1
     queue.pop resolved to Some              +1   +1        +1
     Object { .. } built (O+1)                    -1
     Object.obj taken out (O-1)                   +1
     size.fetch_add(1) / fetch_sub(1)           +1/-1 +1/-1
     available.fetch_add(1) / fetch_sub(1)                 +1/-1
     get guard built (G+1) / disarmed (G-1)                +1/-1
     get guard dropped while armed (A+1,G-1)                 0   (its Drop body is an entry point: entry G-1)

    Paths on which the pool is closed (true arm of the pool's own is_closed(), after Semaphore::close, after the
    clearing function) or gone (None arm of Weak::upgrade) are outside the books: close() resets them in bulk (R12.x).
    """
    N = 4
    IGNORE_FLAGS = ('dead', 'closed', 'disarmed')
    blind = None

    def __init__(self, prog, r):
        LedgerBase.__init__(self, prog)
        self.r = r
        self.guard_drop = None
        if r.GETGUARD:
            gd = [x for x in prog.bodies.values() if x.j.get('impl_trait') == 'std::ops::Drop' and adt_of(x.j.get('impl_self', '')) == r.GETGUARD]
            self.guard_drop = gd[0] if gd else None
        self.guard_skips = set()
        if self.guard_drop is not None:
            from .ucommon import armed_flag_skips
            restores = [blk for blk in self.guard_drop.blocks if blk.term.kind == 'call' and not blk.cleanup and any(n_.endswith('::fetch_add') for n_ in blk.term.callee_names())]
            self.guard_skips = set(armed_flag_skips(prog, r, self.guard_drop, restores))
        oadt = r.crate.adt(r.OBJECT)
        # the field of Object that holds the pooled value: an Option<T>, or a two-state enum of this crate over T
        def _maybe_T(ty):
            if ty.startswith('std::option::Option<'):
                return True
            a_ = r.crate.adt(adt_of(ty) or '')
            return a_ is not None and len(a_.get('variants', [])) == 2 and sorted(bool(v_['fields']) for v_ in a_['variants']) == [False, True]
        self.obj_fields = {f['name'] for v in oadt['variants'] for f in v['fields'] if _maybe_T(f['ty'])}

    def is_local(self, b):
        return b.path.startswith('deadpool::unmanaged') or b.path.startswith('<deadpool::unmanaged')

    def kind_of_ty(self, ty):
        if ty.startswith('&') or ty.startswith('*'):
            return None
        a = adt_of(ty)
        if self.r.GETGUARD and a == self.r.GETGUARD:
            return 'gguard'
        if a == self.r.OBJECT:
            return 'object'
        return None

    def entry_vec(self, b):
        if self.guard_drop is not None and b.path == self.guard_drop.path:
            return (0, 0, 0, -1)
        return self.ZERO

    def body_ctx(self, b, an, tr):
        r = self.r
        bc = BodyCtx()
        bc.queue = {blk.idx: m for blk, m in r.queue_calls(b)}
        bc.sems = {w for x, w in r.sem_calls(b, 'try_acquire') + r.sem_calls(b, 'acquire')}
        if not bc.sems:
            # the permit may come out of an awaited local helper: look at the acquisitions in the call region
            for p_ in self.prog.region([b.path]):
                cb = self.prog.bodies.get(p_)
                if cb is not None and self.is_local(cb) and p_ != b.path:
                    bc.sems |= {w for x, w in r.sem_calls(cb, 'try_acquire') + r.sem_calls(cb, 'acquire')}
        bc.upgrade_dest = set(); bc.closed_dest = set(); bc.otake = set()
        for blk in b.blocks:
            t = blk.term
            if t.kind != 'call' or t.dest is None or not t.dest.is_local():
                continue
            names = t.callee_names()
            if any(n.endswith('Weak::upgrade') or n.endswith('Weak::<T, A>::upgrade') for n in names):
                bc.upgrade_dest.add(t.dest.local)
            cb = self.local_callee(t)
            if cb is not None and cb.name.endswith('::is_closed'):
                bc.closed_dest.add(t.dest.local)
            if 'tokio::sync::Semaphore::is_closed' in names:
                bc.closed_dest.add(t.dest.local)
            # the value leaves the Object: `obj.take()` on an Option field, `mem::replace(&mut obj, Vacant)` / `mem::take` on a two-state enum
            if names & set(('std::option::Option::take', 'std::mem::replace', 'std::mem::take')) and t.args and any(s[0] == 'field' and s[1].rsplit('.', 1)[0] == r.OBJECT and s[1].rsplit('.', 1)[1] in self.obj_fields for s in sources(an, t.args[0])):
                bc.otake.add(blk.idx)
        return bc

    def stmt_event(self, b, an, bc, s):
        rv = s.rv
        if rv.kind == 'agg' and rv.j.get('ak') == 'adt':
            adt = norm_path(strip_generics(rv.j['adt']))
            if adt == self.r.OBJECT:
                return (0, -1, 0, 0), 'Object built'
            if self.r.GETGUARD and adt == self.r.GETGUARD:
                return (0, 0, 0, 1), 'get guard armed'
        return None, ''

    def call_disowns(self, b, an, bc, t, tr):
        # `this.obj.take()`: the Object local no longer owns an object (its Drop will find None)
        out = []
        if t.kind == 'call' and t.callee_names() & set(('std::option::Option::take', 'std::mem::replace', 'std::mem::take')) and t.args:
            for l, k in tr.items():
                if k == 'object' and any(s[0] == 'field' and s[1].rsplit('.', 1)[0] == self.r.OBJECT for s in sources(an, t.args[0])):
                    o = an.origin(t.args[0])
                    out.append(l)
        return out

    def pend_call(self, b, an, bc, blk, t):
        if bc.queue.get(blk.idx) == 'pop':
            return 'pop'
        if blk.idx in bc.otake:
            return 'otake'
        return None

    def pend_effect(self, eff):
        if eff == 'pop':
            return (1, 1, 0, 1), 'object popped'
        if eff == 'otake':
            return (0, 1, 0, 0), 'object taken out of its handle'
        return self.ZERO, ''

    def call_event(self, b, an, bc, blk, t, ini, tr, dest):
        r = self.r
        names = t.callee_names()
        if 'tokio::sync::Semaphore::add_permits' in names:
            w = r.sem_of_call(b, t)
            amt = an.resolve_operand(t.args[1]) if len(t.args) > 1 else '?'
            if amt != '1_usize' or w is None:
                self.problems.append((b, t.line, 'add_permits(%s) on %s: not an accountable event' % (amt, w)))
                return (None, '')
            return ((1, 0, 0, 0), 'semaphore.add_permits(1)') if w == 'SEM' else ((0, 0, 1, 0), 'size_semaphore.add_permits(1)')
        if 'tokio::sync::SemaphorePermit::forget' in names:
            if bc.sems == {'SEM'}:
                return ((-1, 0, 0, 0), 'object permit forgotten')
            if bc.sems == {'SIZESEM'}:
                return ((0, 0, -1, 0), 'size permit forgotten')
            self.problems.append((b, t.line, 'forget of a permit whose semaphore cannot be told (acquisitions here: %s)' % sorted(bc.sems)))
            return (None, '')
        if 'tokio::sync::Semaphore::close' in names:
            return (None, 'semaphore closed')
        for fld, vec in ((r.SIZE, (0, 1, 1, 0)), (r.AVAIL, (0, 0, 0, 1))):
            for x, op_, amt in r.atomic_calls(b, fld):
                if x.idx == blk.idx and op_ in ('fetch_add', 'fetch_sub'):
                    if self.guard_drop is not None and b.path == self.guard_drop.path and fld == r.AVAIL and op_ == 'fetch_add' and amt == '1_isize':
                        return ((0, 0, 0, 1), 'available += 1')
                    if amt not in ('1_usize', '1_isize'):
                        if r.CLEAR is not None and b.path == r.CLEAR.path:
                            return (None, '')
                        self.problems.append((b, t.line, '%s.%s(%s): not an accountable amount' % (fld, op_, amt)))
                        return (None, '')
                    sign = 1 if op_ == 'fetch_add' else -1
                    return (tuple(sign * c for c in vec), '%s %s 1' % (fld, '+=' if sign > 0 else '-='))
        if bc.queue.get(blk.idx) == 'push':
            if self.blind == 'push':
                return None
            return ((-1, -1, 0, -1), 'object pushed')
        if bc.queue.get(blk.idx) in ('clear', 'truncate', 'drain', 'remove', 'swap_remove', 'retain'):
            if not (r.CLEAR is not None and b.path == r.CLEAR.path):
                self.problems.append((b, t.line, 'Vec::%s on the queue: an unaccountable number of objects leaves the queue' % bc.queue[blk.idx]))
            return (None, '')
        a0 = t.args[0] if t.args else None
        if a0 is not None and a0.kind == 'move' and not a0.place.proj and tr.get(a0.place.local) == 'gguard' and a0.place.local in ini:
            return ((0, 0, 0, -1), 'get guard disarmed')
        return None

    def switch_event(self, b, an, bc, blk, t, lab, on, tr, fl=()):
        if on is not None and not on['pr'] and on['l'] in bc.upgrade_dest and lab == 'None':
            return None, 'pool gone', ('dead',)
        if self.guard_drop is not None and b.path == self.guard_drop.path and dict(t.switch_arms()).get(lab) in self.guard_skips:
            # `armed` flag form: this arm is taken only by a guard that was disarmed (G-1 was accounted at the disarm call)
            return None, 'guard was disarmed', ('disarmed',)
        if t.j.get('dty') == 'bool' and lab == 'true':
            src = sources(an, t.discr)
            if any(s[0] == 'call' and (s[1].endswith('::is_closed')) for s in src) and not any(s[0] == 'bin' and s[1] == 'Not' for s in src):
                return None, 'pool closed', ('closed',)
        return None, '', ()

    def drop_effect(self, kind):
        return None          # get guard: A+1, G-1 (its Drop is an entry point); Object: its Drop is an entry point

"""Effect-ledger analysis of the managed pool (conservation on every path).

A path-sensitive abstract interpretation over the normalised mir_built CFGs.
Every event that changes one of the pool's books has a fixed effect on three
*ledger expressions*; the analysis propagates, per program point, the set of
reachable (ledger vector, ownership state) pairs - along normal edges, the
unwind edges of *user code* (Manager methods, hooks, predicates, opaque
futures) and the cancellation edges of every suspension point, with summaries
for local callees and for awaited local coroutines - and every exit of every
entry point has to balance.  A violation is reported with a witness path.

    E1 = P + H + O - D      capacity: free permits + held permits + objects out - shrink debt   (= max_size at rest)
    E2 = S - Q - O - W - B  objects:  size - idle - out - wrapped (in flight) - bare (in hand)   (= 0 at rest)
    E3 = U - O - G          users:    users counter - objects out - getters in flight            (= 0 at rest)

event                                           E1   E2   E3
 acquire ok / RAII release of a permit            0    0    0   (P and H move together)
 SemaphorePermit::forget (getter)                -1
 Semaphore::add_permits(1)                       +1
 Object { .. } constructed (O+1, B-1)            +1    0   -1
 users.fetch_add(1) / fetch_sub(1)                         +1 / -1
 users guard constructed (G+1) / disarmed (G-1)            -1 / +1
 users guard dropped while armed (U-1, G-1)                 0
 ObjectInner { .. } constructed (B+1)                 -1
 wrapper constructed (B-1, W+1)                         0
 wrapper consumed by ready() (W-1, B+1)                 0
 wrapper dropped while owning (S-1, W-1)                0   (its Drop body is an entry point of its own)
 size += 1 / size -= 1                                +1 / -1
 pop Some (Q-1, B+1) / push_back (Q+1, B-1)             0
 bare object dropped (B-1)                            +1
 entry of the return helper (O-1, B+1)           -1    0   +1
 entry of the take helper (O-1, value to caller) -1   +1   +1
 surplus branch `size > max_size` (D-1)          +1

Not modelled (decided by other rules, named in the evidence): resize()/close()
permit arithmetic (R07.x ledger rules; E1 is skipped there), retain()'s bulk
`size -= removed.len()` (R09.1; E2 is skipped there), that the users guard's
Drop really does `users -= 1` (R03.3), that the wrapper's Drop is what `drop`
of a wrapper runs (Rust semantics).
"""
from .facts import strip_generics, Operand, Place, norm_path
from .roles import adt_of, classify_write
from .mcommon import queue_calls, cmp_relation, is_dyn_call
from .analysis import sources

ZERO = (0, 0, 0)
CAP = 3          # |component| beyond this = unbounded drift in a loop


def vadd(a, b):
    return (a[0] + b[0], a[1] + b[1], a[2] + b[2])


def is_user_call(t):
    """does this call run caller-supplied code (which may panic)?  unresolved callee (generic M / F / opaque future),
    trait object, boxed dyn future"""
    if t.kind != 'call' or t.func.kind != 'const':
        return t.kind == 'call'
    c = t.func.const
    if not c.get('rfn'):
        return True
    if is_dyn_call(t):
        return True
    if c.get('rk') == 'virtual':
        return True
    fn = strip_generics(c.get('fn', ''))
    if fn.endswith('Future::poll') and any('dyn ' in a for a in (c.get('targs') or [])):
        return True
    if fn.endswith('Future::poll') and 'dyn ' in (c.get('impl_self') or ''):
        return True
    return False


class Exit:
    __slots__ = ('kind', 'vec', 'key', 'flags')
    def __init__(self, kind, vec, key, flags):
        self.kind = kind; self.vec = vec; self.key = key; self.flags = flags


class Ledger:
    def __init__(self, prog, r):
        self.prog = prog
        self.r = r
        ug = r.users_guard()
        self.UG = ug[0] if ug else None
        self.summaries = {}
        self.results = {}        # body path -> (exits, parents)
        self.in_progress = set()
        self.problems = []       # (body, line, message)
        self.ret_helper = {h.path for h in r.RETURN if h.path != r.OBJ_DROP.path}
        self.take_helper = {h.path for h in r.TAKE if h.path != r.OBJ_TAKE.path}
        self.helper_paths = self.ret_helper | self.take_helper
        self.n_states = 0
        self.n_events = 0
        self.n_user_unwinds = 0
        self.n_cancel_edges = 0
        self.touched = set()      # bodies in which a ledger event occurs

    def _ev(self, b):
        self.n_events += 1
        self.touched.add(b.path)

    def is_managed(self, b):
        return b.path.startswith('deadpool::managed') or b.path.startswith('<deadpool::managed')

    def kind_of_ty(self, ty):
        if ty.startswith('&') or ty.startswith('*'):
            return None
        a = adt_of(ty)
        if a == self.r.UNREADY:
            return 'wrapper'
        if self.UG and a == self.UG:
            return 'uguard'
        if a == self.r.OBJINNER:
            return 'bare'
        if a == 'std::option::Option' and ty.startswith('std::option::Option<') and adt_of(ty[len('std::option::Option<'):-1]) == self.r.OBJINNER:
            return 'optbare'
        return None

    def tracked(self, b):
        out = {}
        for i, l in enumerate(b.locals):
            k = self.kind_of_ty(l['ty'])
            if k:
                out[i] = k
        return out

    def entry_vec(self, b):
        if b.path in self.ret_helper:
            return (-1, 0, 1)
        if b.path in self.take_helper:
            return (-1, 1, 1)
        return ZERO

    def local_callee(self, t):
        if t.kind != 'call' or t.func.kind != 'const':
            return None
        p = t.func.const.get('rfn')          # unresolved (generic / trait-object) callees are user code, not local callees
        if not p or t.func.const.get('rk') == 'virtual':
            return None
        b = self.prog.bodies.get(p)
        if b is None or not self.is_managed(b):
            return None
        return b

    def coroutine_of_ctor(self, fn_body):
        """the coroutine body built by an `async fn` constructor"""
        for blk in fn_body.blocks:
            for s in blk.stmts:
                if s.kind == 'assign' and s.rv.kind == 'agg' and s.rv.j.get('ak') == 'coroutine' and s.rv.j['def'] in self.prog.bodies:
                    return self.prog.bodies[s.rv.j['def']]
        return None

    def summary(self, b):
        s = self.summaries.get(b.path)
        if s is not None:
            return s
        if b.path in self.in_progress:
            return {'return': {ZERO}, 'unwind': set(), 'cancel': {ZERO}, 'unresumed': {ZERO}}
        self.in_progress.add(b.path)
        exits, parents = self.analyse(b)
        self.in_progress.discard(b.path)
        s = {'return': set(), 'unwind': set(), 'cancel': set(), 'unresumed': {ZERO}}
        for e in exits:
            if 'dead' in e.flags:
                continue
            s.setdefault(e.kind, set()).add(e.vec)
        self.summaries[b.path] = s
        self.results[b.path] = (exits, parents)
        return s

    # ------------------------------------------------------------------------------------------
    def witness(self, b, exit_):
        """source lines along one path from the entry to the exit state (consecutive duplicates removed)"""
        exits, parents = self.results[b.path]
        path = []
        key = exit_.key
        guard = 0
        while key is not None and guard < 5000:
            guard += 1
            bb = key[0]
            par = parents.get(key)
            note = par[1] if par else ''
            path.append((b.blocks[bb].term.line, note))
            key = par[0] if par else None
        path.reverse()
        out = []
        for ln, note in path:
            item = 'L%d%s' % (ln, ('[' + note + ']') if note else '')
            if not out or out[-1] != item:
                if note or not out or not out[-1].startswith('L%d' % ln):
                    out.append(item)
        return out

    # ------------------------------------------------------------------------------------------
    def analyse(self, b):
        prog = self.prog; r = self.r
        an = prog.an(b)
        tr = self.tracked(b)
        qc = {blk.idx: m for blk, m in queue_calls(r, b, an)}
        skip_e1 = b.path in (r.RESIZE.path, r.CLOSE.path)
        skip_e2 = b.path == r.RETAIN.path
        users_f = ('field', '%s.%s' % (r.INNER, r.USERS))
        poll_dest = {}     # local (dest of a poll call) -> coroutine body
        upgrade_dest = set()
        for blk in b.blocks:
            t = blk.term
            cb = self.local_callee(t)
            if cb is not None and t.dest is not None and t.dest.is_local() and cb.is_coroutine:
                poll_dest[t.dest.local] = cb
            if t.kind == 'call' and t.dest is not None and t.dest.is_local() and any(n.endswith('Weak::upgrade') or n.endswith('Weak::<T, A>::upgrade') for n in t.callee_names()):
                upgrade_dest.add(t.dest.local)
        start_vec = self.entry_vec(b)
        start_init = frozenset(l for l in range(1, b.arg_count + 1) if l in tr)
        # state = (vec, init, futs, flags);  futs: frozenset of (local, coroutine path, polled)
        s0 = (start_vec, start_init, frozenset(), frozenset())
        states = {0: {s0}}
        parents = {(0, s0): None}
        work = [0]
        exits = []
        steps = 0

        def fut_move(lf, src, dst):
            out = set()
            for (l, cp, pd) in lf:
                if l == src:
                    if dst is not None:
                        out.add((dst, cp, pd))
                else:
                    out.add((l, cp, pd))
            return out

        def fut_effect(cp, polled):
            """ledger effect of dropping a live (not completed) future of coroutine cp"""
            sm = self.summary(self.prog.bodies[cp])
            return (sm['cancel'] if polled else sm.get('unresumed', {ZERO})) or {ZERO}

        while work:
            steps += 1
            if steps > 60000:
                self.problems.append((b, b.line, 'ledger analysis did not converge'))
                break
            bb = work.pop()
            blk = b.blocks[bb]
            outs = []
            st = None

            def emit(kind, tgt, v2, ini2, lf2, fl2, line, note=''):
                if max(abs(x) for x in v2) > CAP:
                    self.problems.append((b, line, 'the ledger drifts without bound: a loop iteration (or repeated event) has a non-zero net effect %s' % (v2,)))
                    return
                outs.append((kind, tgt, (v2, frozenset(ini2), frozenset(lf2), frozenset(fl2)), note, st))

            for st in list(states[bb]):
                (vec, init, live, flags) = st
                self.n_states += 1
                v = vec; ini = set(init); lf = set(live); fl = set(flags)
                notes = []
                for s in blk.stmts:
                    if s.kind == 'assign':
                        rv = s.rv
                        dst = s.place.local if s.place.is_local() else None
                        for op in rv.ops:
                            if op.kind == 'move' and '*' not in op.place.proj:
                                src_l = op.place.local
                                if src_l in tr:
                                    ini.discard(src_l)
                                if not op.place.proj:
                                    lf = fut_move(lf, src_l, dst)
                        if rv.kind == 'agg' and rv.j.get('ak') == 'adt':
                            adt = norm_path(strip_generics(rv.j['adt']))
                            if adt == r.OBJECT:
                                v = vadd(v, (1, 0, -1)); self._ev(b); notes.append('Object built')
                            elif adt == r.OBJINNER:
                                v = vadd(v, (0, -1, 0)); self._ev(b); notes.append('object created')
                            elif self.UG and adt == self.UG:
                                v = vadd(v, (0, 0, -1)); self._ev(b); notes.append('users guard armed')
                        if rv.kind == 'agg' and rv.j.get('ak') == 'coroutine' and dst is not None and rv.j['def'] in prog.bodies and self.is_managed(prog.bodies[rv.j['def']]):
                            lf.add((dst, rv.j['def'], False))
                        if dst is not None and dst in tr:
                            ini.add(dst)
                        lf_ = s.place.last_field() if s.place.proj else None
                        if lf_ == (r.SLOTS, r.SIZE) and s.place.proj[-1] == '.' + r.SIZE:
                            op_, amt = classify_write(an, s)
                            self._ev(b)
                            if op_ == '+=' and amt == '1_usize':
                                v = vadd(v, (0, 1, 0)); notes.append('size += 1')
                            elif op_ == '-=' and amt == '1_usize':
                                v = vadd(v, (0, -1, 0)); notes.append('size -= 1')
                            elif not skip_e2:
                                self.problems.append((b, s.line, 'size is written with `%s %s`: not an accountable event' % (op_, amt)))
                    elif s.kind == 'dead':
                        ini.discard(s.local)
                        lf = {(l, cp, pd) for (l, cp, pd) in lf if l != s.local}
                note = ', '.join(notes)
                t = blk.term
                if t.kind == 'call':
                    names = t.callee_names()
                    ini2 = set(ini); lf2 = set(lf)
                    moved_futs = []
                    for a in t.args:
                        if a.kind == 'move' and '*' not in a.place.proj:
                            if a.place.local in tr:
                                ini2.discard(a.place.local)
                            if not a.place.proj and any(l == a.place.local for (l, cp, pd) in lf2):
                                moved_futs.append(a.place.local)
                    cb = self.local_callee(t)
                    dest = t.dest.local if t.dest is not None and t.dest.is_local() else None
                    vn = v
                    special = True
                    ev = ''
                    if 'tokio::sync::Semaphore::add_permits' in names:
                        amt = an.resolve_operand(t.args[1]) if len(t.args) > 1 else '?'
                        self._ev(b)
                        if skip_e1:
                            pass
                        elif amt == '1_usize':
                            vn = vadd(v, (1, 0, 0)); ev = 'add_permits(1)'
                        else:
                            self.problems.append((b, t.line, 'add_permits(%s): not an accountable amount' % amt))
                    elif 'tokio::sync::SemaphorePermit::forget' in names:
                        self._ev(b)
                        if not skip_e1:
                            vn = vadd(v, (-1, 0, 0)); ev = 'permit forgotten'
                    elif any(n.endswith('::fetch_add') and 'atomic' in n for n in names) and t.args and users_f in sources(an, t.args[0]):
                        vn = vadd(v, (0, 0, 1)); self._ev(b); ev = 'users += 1'
                    elif any(n.endswith('::fetch_sub') and 'atomic' in n for n in names) and t.args and users_f in sources(an, t.args[0]):
                        vn = vadd(v, (0, 0, -1)); self._ev(b); ev = 'users -= 1'
                    elif t.args and t.args[0].kind == 'move' and not t.args[0].place.proj and tr.get(t.args[0].place.local) == 'uguard' and t.args[0].place.local in ini:
                        vn = vadd(v, (0, 0, 1)); self._ev(b); ev = 'users guard disarmed'     # the guard will never run (G-1)
                    elif t.args and t.args[0].kind == 'move' and not t.args[0].place.proj and tr.get(t.args[0].place.local) == 'wrapper' and dest is not None and tr.get(dest) == 'bare':
                        self._ev(b); ev = 'wrapper -> ready object'                            # ready(): W-1, B+1
                    elif names & {'std::mem::drop', 'std::mem::forget'} and t.args and t.args[0].kind == 'move' and tr.get(t.args[0].place.local) in ('bare', 'optbare') \
                            and t.args[0].place.local in ini:
                        vn = vadd(v, (0, 1, 0)); self._ev(b); ev = 'object dropped'            # a bare object is destroyed (or leaked)
                    elif bb in qc and qc[bb] in ('clear', 'truncate', 'drain') and b.path not in (r.RESIZE.path, r.RETAIN.path):
                        self.problems.append((b, t.line, 'VecDeque::%s on the idle queue: an unaccountable number of objects leaves the queue' % qc[bb]))
                    else:
                        special = False
                    note2 = ', '.join(x for x in (note, ev) if x)
                    if special or cb is None:
                        ini_n = set(ini2)
                        if dest is not None and dest in tr:
                            ini_n.add(dest)
                        lf_n = set(lf2)
                        for mf in moved_futs:
                            # a live local future handed to foreign code (into_future, Pin::new, Box::pin ..) travels to the result;
                            # handed to a call without a future-typed result it is consumed there: account its whole life now
                            keep_in = dest if dest is not None and (b.locals[dest]['ty'].startswith('impl ') or 'Future' in b.locals[dest]['ty'] or '{async' in b.locals[dest]['ty'] or 'Pin<' in b.locals[dest]['ty'] or b.locals[dest]['ty'] == b.locals[mf]['ty']) else None
                            if keep_in is None:
                                for (l, cp, pd) in list(lf_n):
                                    if l == mf:
                                        sm = self.summary(self.prog.bodies[cp])
                                        allv = (sm['return'] | sm['cancel'] | sm.get('unresumed', set()))
                                        if allv - {ZERO}:
                                            self.problems.append((b, t.line, 'a future with ledger effects %s is handed to %s: its completion cannot be followed' % (sorted(allv), sorted(names))))
                            lf_n = fut_move(lf_n, mf, keep_in)
                        if t.target is not None:
                            emit('normal', t.target, vn, ini_n, lf_n, fl, t.line, note2)
                        if t.unwind is not None and is_user_call(t):
                            # on unwind the callee has consumed its by-value arguments
                            self.n_user_unwinds += 1
                            lf_u = set(lf2)
                            for mf in moved_futs:
                                lf_u = fut_move(lf_u, mf, None)
                            emit('unwind', t.unwind, v, ini2, lf_u, fl, t.line, (note + ', ' if note else '') + 'panic in %s' % sorted(names)[0].split('::')[-1])
                        continue
                    # ---- local callee
                    sm = self.summary(cb)
                    if cb.is_coroutine:
                        # a poll: the outcome (Ready = returned / Pending = still alive) is decided at the switch on the result
                        lf_p = {(l, cp, True if cp == cb.path else pd) for (l, cp, pd) in lf2}
                        if t.target is not None:
                            emit('normal', t.target, v, ini2, lf_p, fl, t.line, note)
                        if t.unwind is not None:
                            for uv in sm['unwind']:
                                # the coroutine unwound: it has run its own clean-up; its future is finished
                                emit('unwind', t.unwind, vadd(v, uv), ini2, {(l, cp, pd) for (l, cp, pd) in lf_p if cp != cb.path}, fl, t.line, 'panic inside %s' % cb.name.split('::')[-2])
                        continue
                    co = self.coroutine_of_ctor(cb)
                    if co is not None:
                        # constructor of an async fn: the arguments move into the future, nothing runs yet
                        lf_n = set(lf2)
                        for mf in moved_futs:
                            for (l, cp, pd) in list(lf_n):
                                if l == mf:
                                    sm2 = self.summary(self.prog.bodies[cp])
                                    allv = (sm2['return'] | sm2['cancel'] | sm2.get('unresumed', set()))
                                    if allv - {ZERO}:
                                        self.problems.append((b, t.line, 'a future with ledger effects %s is handed to %s: its completion cannot be followed' % (sorted(allv), cb.name)))
                            lf_n = fut_move(lf_n, mf, None)
                        if dest is not None:
                            lf_n.add((dest, co.path, False))
                        # by-value tracked arguments now live inside the future: if it is dropped before its first poll they are dropped with it
                        self._note_unresumed(co)
                        if t.target is not None:
                            emit('normal', t.target, v, ini2, lf_n, fl, t.line, note)
                        continue
                    for rv_ in (sm['return'] or set()):
                        ini_n = set(ini2)
                        if dest is not None and dest in tr:
                            ini_n.add(dest)
                        if t.target is not None:
                            emit('normal', t.target, vadd(v, rv_), ini_n, lf2, fl, t.line, (note + ', ' if note else '') + cb.name.split('::')[-1] + '()')
                    if t.unwind is not None:
                        for uv in sm['unwind']:
                            emit('unwind', t.unwind, vadd(v, uv), ini2, lf2, fl, t.line, 'panic inside %s' % cb.name.split('::')[-1])
                elif t.kind == 'drop':
                    v2 = v; ini2 = set(ini); lf2 = set(lf)
                    cancels = [ZERO]
                    note2 = note
                    if t.place.is_local():
                        l = t.place.local
                        if l in ini2 and l in tr:
                            k = tr[l]
                            if k in ('bare', 'optbare'):
                                v2 = vadd(v2, (0, 1, 0)); self._ev(b)
                                note2 = (note + ', ' if note else '') + 'object dropped'
                            else:
                                self._ev(b)       # wrapper: S-1, W-1 (its Drop is an entry point); users guard: U-1, G-1 (R03.3)
                            ini2.discard(l)
                        hit = [(ll, cp, pd) for (ll, cp, pd) in lf2 if ll == l]
                        if hit:
                            lf2 -= set(hit)
                            cancels = sorted(fut_effect(hit[0][1], hit[0][2]))
                            note2 = (note2 + ', ' if note2 else '') + 'future of %s dropped%s' % (hit[0][1].split('::')[-2], '' if hit[0][2] else ' unpolled')
                    for cv in cancels:
                        for k_, tgt in an.edges(bb):
                            if k_ == 'unwind':
                                continue      # a destructor that panics: out of scope (double panic / abort territory)
                            emit(k_, tgt, vadd(v2, cv), ini2, lf2, fl, t.line, note2)
                elif t.kind == 'switch':
                    on = t.j.get('on')
                    for lab, tgt in t.switch_arms():
                        v2 = v; ini2 = set(ini); lf2 = set(lf); fl2 = set(fl)
                        note2 = note
                        if on is not None and not on['pr'] and tr.get(on['l']) == 'optbare' and lab == 'None':
                            ini2.discard(on['l'])
                        if on is not None and not on['pr'] and on['l'] in upgrade_dest and lab == 'None':
                            fl2.add('dead')           # the pool is gone: there are no books to keep
                        if t.j.get('dty') == 'bool' and b.path in self.helper_paths and not skip_e1:
                            rel = cmp_relation(an, r, blk, lab)
                            if rel and rel[0] in ('size>max', 'size>=max'):
                                v2 = vadd(v2, (1, 0, 0)); self._ev(b)          # surplus: shrink debt paid
                                note2 = (note + ', ' if note else '') + 'surplus branch'
                        if t.j.get('adt') == 'std::task::Poll' and on is not None and not on['pr'] and on['l'] in poll_dest:
                            cb = poll_dest[on['l']]
                            if lab == 'Ready':
                                sm = self.summary(cb)
                                lf3 = {(l, cp, pd) for (l, cp, pd) in lf2 if cp != cb.path}
                                for rv_ in (sm['return'] or set()):
                                    emit('normal', tgt, vadd(v2, rv_), ini2, lf3, fl2, t.line, (note + ', ' if note else '') + '%s completed' % cb.name.split('::')[-2])
                                continue
                        emit('normal', tgt, v2, ini2, lf2, fl2, t.line, note2)
                elif t.kind == 'return':
                    exits.append(Exit('return', v, (bb, st), flags))
                elif t.kind == 'resume':
                    exits.append(Exit('unwind', v, (bb, st), flags))
                elif t.kind == 'coroutine_drop':
                    exits.append(Exit('cancel', v, (bb, st), flags))
                elif t.kind == 'yield':
                    for k_, tgt in an.edges(bb):
                        if k_ == 'cancel':
                            self.n_cancel_edges += 1
                        emit(k_, tgt, v, ini, lf, fl, t.line, (note + ', ' if note else '') + ('abandoned here' if k_ == 'cancel' else ''))
                else:
                    for k_, tgt in an.edges(bb):
                        if k_ == 'unwind':
                            continue          # assert / overflow checks: arithmetic panics are C11's subject (no-wrap rules)
                        emit(k_, tgt, v, ini, lf, fl, t.line, note)
            for (k_, tgt, ns, note, from_st) in outs:
                cur = states.setdefault(tgt, set())
                if ns not in cur:
                    cur.add(ns)
                    parents[(tgt, ns)] = ((bb, from_st), note)
                    if tgt not in work:
                        work.append(tgt)
        return exits, parents

    def _note_unresumed(self, co):
        """effect of dropping the future of `co` before its first poll: its captured by-value arguments are dropped"""
        sm = self.summary(co)
        unres = ZERO
        for d in co.debug:
            if 'p' in d and d['p']['l'] == 1 and d['p']['pr']:
                k = self.kind_of_ty(d['p'].get('ty', ''))
                if k in ('bare', 'optbare'):
                    unres = vadd(unres, (0, 1, 0))
        sm['unresumed'] = {unres}

"""Roles and helpers for the unmanaged pool."""
from .engine import Undecided
from .roles import _one, inner_type_args, adt_of, SEM_TY
from .facts import strip_generics, Operand, Place, norm_path
from .analysis import sources

_cache = {}


class UnmanagedRoles:
    def __init__(self, prog):
        self.prog = prog
        c = prog.crates.get('deadpool')
        if c is None:
            raise Undecided('crate deadpool not extracted')
        self.crate = c
        self.POOL = 'deadpool::unmanaged::Pool'
        self.OBJECT = 'deadpool::unmanaged::Object'
        pool = c.adt(self.POOL)
        if pool is None:
            raise Undecided('unmanaged::Pool not found')
        f = _one([x for x in pool['variants'][0]['fields'] if x['ty'].startswith('std::sync::Arc<')], 'Arc field of unmanaged::Pool')
        self.INNER = adt_of(inner_type_args(f['ty'], 'std::sync::Arc'))
        inner = c.adt(self.INNER)
        fl = inner['variants'][0]['fields']
        sems = [x['name'] for x in fl if x['ty'] == SEM_TY]
        if len(sems) != 2:
            raise Undecided('expected two semaphores in %s, found %s' % (self.INNER, sems))
        self.QUEUE = _one([x['name'] for x in fl if x['ty'].startswith('std::sync::Mutex<std::vec::Vec<')], 'queue field')
        self.CONFIG = _one([x['name'] for x in fl if x['ty'] == 'deadpool::unmanaged::config::PoolConfig'], 'config field')
        self.TRY_GET = self._b('deadpool::unmanaged::Pool::try_get')
        self.TIMEOUT_GET = self._b('deadpool::unmanaged::Pool::timeout_get::{closure#0}')
        self.ADD = self._b('deadpool::unmanaged::Pool::add::{closure#0}')
        self.TRY_ADD = self._b('deadpool::unmanaged::Pool::try_add')
        self.CLOSE = self._b('deadpool::unmanaged::Pool::close')
        self.STATUS = self._b('deadpool::unmanaged::Pool::status')
        self.IS_CLOSED = self._b('deadpool::unmanaged::Pool::is_closed')
        self.FROM_CONFIG = self._b('deadpool::unmanaged::Pool::from_config')
        self.TAKE = self._b('deadpool::unmanaged::Object::take')
        self.OBJ_DROP = prog.bodies.get('<deadpool::unmanaged::Object<T> as std::ops::Drop>::drop')
        if self.OBJ_DROP is None:
            raise Undecided('Drop for unmanaged::Object not found')
        self.FROM_ITER = prog.bodies.get('<deadpool::unmanaged::Pool<T> as std::convert::From<I>>::from')
        if self.FROM_ITER is None:
            raise Undecided('From<I> for unmanaged::Pool not found')
        # which semaphore is which: the one that receives a permit when an object comes back is the object
        # semaphore (SEM); the one that receives a permit when an object is taken out for good is the size semaphore
        self.SEM = self._sem_called(self.OBJ_DROP, sems, ('add_permits',))
        self.SIZESEM = _one([x for x in sems if x != self.SEM], 'the other semaphore')
        # the adders wait for / try to take a size slot themselves: an `add()` that only awaits another *public* function (a
        # new entry point with a protocol of its own, e.g. `timeout_add(object, None)`) is not what the rules for add were written for
        self.ADD_DELEGATES = None          # (raised by the properties that are about adding: C05)
        self.ADD_DEADLINE = None
        for role_b in (self.ADD, self.TRY_ADD):
            if not any(blk.term.kind == 'call' and any(n.startswith('tokio::sync::Semaphore::') for n in blk.term.callee_names()) for blk in role_b.blocks):
                deleg = sorted({n for blk in role_b.blocks if blk.term.kind == 'call' for n in blk.term.callee_names()
                                if n.startswith('deadpool::unmanaged::Pool') and any(x.j.get('vis') == 'pub' for x in prog.by_name.get(n, []))})
                if deleg and role_b is self.ADD:
                    # `add()` waits for a slot without a deadline: whatever it delegates to, a deadline it passes on is `None`
                    an_ = prog.an(role_b)
                    for blk in role_b.blocks:
                        t_ = blk.term
                        if t_.kind == 'call' and any(n in deleg for n in t_.callee_names()):
                            for a_ in t_.args:
                                ty_ = a_.const.get('ty', '') if a_.kind == 'const' else role_b.locals[a_.place.local]['ty'] if not a_.place.proj else ''
                                if 'std::option::Option<std::time::Duration>' in ty_:
                                    src_ = sources(an_, a_)
                                    if not src_ or any(not (x[0] == 'agg' and x[1] == 'std::option::Option::None') for x in src_):
                                        self.ADD_DEADLINE = (blk, sorted(str(x[1]) for x in src_ if not (x[0] == 'agg' and x[1] == 'std::option::Option::None'))[:4])
                if deleg:
                    self.ADD_DELEGATES = ('%s takes no size slot itself but delegates to the public %s: the rules for add / try_add do not cover that entry point'
                                    % (role_b.name, ', '.join(d.split('::')[-1] for d in deleg)))
        # counters through status()
        an = prog.an(self.STATUS)
        self.SIZE = self.AVAIL = None
        for blk in self.STATUS.blocks:
            for s in blk.stmts:
                if s.kind == 'assign' and s.rv.kind == 'agg' and s.rv.j.get('adt') == 'deadpool::Status':
                    f = dict(zip(s.rv.j['fields'], s.rv.ops))
                    for nm, role in (('size', 'SIZE'), ('available', 'AVAIL')):
                        # (deep: the value comes out of an atomic `load` of the field)
                        fs = {x[1] for x in sources(an, f[nm], deep=True) if x[0] == 'field' and x[1].startswith(self.INNER + '.')}
                        fs = {x.split('.')[-1] for x in fs}
                        fs.discard(self.CONFIG)
                        fs &= {x['name'] for x in fl if x['ty'].startswith('std::sync::atomic::Atomic')}
                        if len(fs) == 1:
                            setattr(self, role, fs.pop())
        atom = [x['name'] for x in fl if x['ty'].startswith('std::sync::atomic::Atomic')]
        if self.SIZE is None or self.AVAIL is None or self.SIZE == self.AVAIL:
            # fall back on the types: AtomicUsize = size, AtomicIsize = available
            us = [x['name'] for x in fl if x['ty'] == 'std::sync::atomic::Atomic<usize>']
            isz = [x['name'] for x in fl if x['ty'] == 'std::sync::atomic::Atomic<isize>']
            if len(us) == 1 and len(isz) == 1:
                self.SIZE, self.AVAIL = us[0], isz[0]
            else:
                raise Undecided('cannot bind unmanaged size / available counters')
        # helper that publishes a new object (called by add and try_add)
        reg_add = prog.region([self.TRY_ADD.path])
        pushers = [p for p in reg_add if p != self.TRY_ADD.path and any(self.is_queue_call(prog.bodies[p], blk, 'push') for blk in prog.bodies[p].blocks)]
        self.ADD_HELPER = prog.bodies[_one(pushers, 'helper that pushes a new object')] if pushers else self.TRY_ADD
        # the function that empties the queue
        clearers = [b for b in self.bodies() if any(self.is_queue_call(b, blk, 'clear') for blk in b.blocks)]
        self.CLEAR = _one(clearers, 'function clearing the queue') if clearers else None
        # guard type accounting for a get in progress (fix D5), optional
        self.GETGUARD = None
        cands = [a['path'] for a in c.adts if a['path'].startswith('deadpool::unmanaged::') and a['vis'] != 'pub' and a['path'] != self.INNER and
                 any(i.get('trait') == 'std::ops::Drop' and adt_of(i['self_ty']) == a['path'] for i in c.impls)]
        if len(cands) > 1:
            # several private RAII types: the get guard is the one constructed over the `available` counter
            avail = ('field', '%s.%s' % (self.INNER, self.AVAIL))
            keep = []
            for cand in cands:
                hit = False
                for b in self.bodies():
                    an_ = prog.an(b)
                    for blk in b.blocks:
                        for st in blk.stmts:
                            if st.kind == 'assign' and st.rv.kind == 'agg' and st.rv.j.get('ak') == 'adt' and norm_path(strip_generics(st.rv.j['adt'])) == cand:
                                for op in st.rv.ops:
                                    src = sources(an_, op)
                                    if avail in src:
                                        hit = True
                                    if any(x[0] == 'arg' for x in src):
                                        for caller, bb, k in prog.callers_of(b.path):
                                            cb = prog.bodies[caller]
                                            for a_ in cb.blocks[bb].term.args:
                                                if avail in sources(prog.an(cb), a_):
                                                    hit = True
                if hit:
                    keep.append(cand)
            cands = keep
        if len(cands) > 1:
            raise Undecided('several private guard types over the available counter: %s' % cands)
        self.GETGUARD = cands[0] if cands else None

    def _b(self, name):
        b = self.prog.body(name)
        if b is None:
            raise Undecided('anchor body %s not found' % name)
        return b

    def bodies(self):
        return [b for b in self.prog.bodies.values() if b.path.startswith('deadpool::unmanaged::') or b.path.startswith('<deadpool::unmanaged::')]

    def _sem_called(self, body, sems, methods=('try_acquire', 'acquire')):
        an = self.prog.an(body)
        found = set()
        for blk in body.blocks:
            t = blk.term
            if t.kind == 'call' and any(n in ['tokio::sync::Semaphore::' + m_ for m_ in methods] for n in t.callee_names()):
                for s in sources(an, t.args[0]):
                    if s[0] == 'field' and s[1].startswith(self.INNER + '.') and s[1].split('.')[-1] in sems:
                        found.add(s[1].split('.')[-1])
        return _one(found, 'semaphore used (%s) in %s' % ('/'.join(methods), body.name))

    def sem_of_call(self, body, term):
        """'SEM' / 'SIZESEM' / None for a Semaphore method call"""
        if term.kind != 'call' or not term.args or not any(n.startswith('tokio::sync::Semaphore::') for n in term.callee_names()):
            return None
        an = self.prog.an(body)
        for s in sources(an, term.args[0]):
            if s[0] == 'field' and s[1] == '%s.%s' % (self.INNER, self.SEM):
                return 'SEM'
            if s[0] == 'field' and s[1] == '%s.%s' % (self.INNER, self.SIZESEM):
                return 'SIZESEM'
        return None

    def sem_calls(self, body, method, which=None):
        out = []
        for blk in body.blocks:
            t = blk.term
            if t.kind == 'call' and not blk.cleanup and ('tokio::sync::Semaphore::' + method) in t.callee_names():
                w = self.sem_of_call(body, t)
                if which is None or w == which:
                    out.append((blk, w))
        return out

    def is_queue_call(self, body, blk, method=None):
        t = blk.term
        if t.kind != 'call' or not t.args:
            return False
        for n in t.callee_names():
            if n.startswith('std::vec::Vec::') or n.startswith('<std::vec::Vec'):
                if method is not None and n.split('::')[-1] != method:
                    continue
                an = self.prog.an(body)
                src = sources(an, t.args[0])
                if any(s[0] == 'field' and s[1] == '%s.%s' % (self.INNER, self.QUEUE) for s in src):
                    return True
                # through a MutexGuard local: lock(self.inner.queue)
                if any(s[0] == 'call' and s[1] == 'std::sync::Mutex::lock' for s in src):
                    return True
        return False

    def queue_calls(self, body):
        out = []
        for blk in body.blocks:
            if blk.cleanup or blk.term.kind != 'call':
                continue
            for n in blk.term.callee_names():
                if (n.startswith('std::vec::Vec::') or n.startswith('<std::vec::Vec')) and self.is_queue_call(body, blk):
                    out.append((blk, n.split('::')[-1])); break
        return out

    def atomic_calls(self, body, field):
        out = []
        an = self.prog.an(body)
        for blk in body.blocks:
            t = blk.term
            if t.kind != 'call' or blk.cleanup or not t.args:
                continue
            for n in t.callee_names():
                if n.startswith('std::sync::atomic::Atomic'):
                    if any(s[0] == 'field' and s[1] == '%s.%s' % (self.INNER, field) for s in sources(an, t.args[0])) or \
                            any(s[0] == 'field' and self.GETGUARD and s[1].startswith(self.GETGUARD + '.') for s in sources(an, t.args[0])) and field == self.AVAIL:
                        out.append((blk, n.split('::')[-1], an.resolve_operand(t.args[1]) if len(t.args) > 1 else ''))
                    break
        return out

    def closed_flag_sem(self):
        """which semaphore the pool's own is_closed() reads ('SEM' / 'SIZESEM' / None)"""
        for b in self.bodies():
            if b.name.endswith('PoolInner::is_closed') or (b.name.startswith(self.INNER) and b.name.endswith('::is_closed')):
                for blk in b.blocks:
                    w = self.sem_of_call(b, blk.term)
                    if w:
                        return w
        return None

    def add_helper_rechecks_closed(self):
        """does the add helper decide under the queue lock that the pool is open before it pushes? (fix D9)"""
        h = self.ADD_HELPER
        an = self.prog.an(h)
        gl = [i for i, l in enumerate(h.locals) if l['ty'].startswith('std::sync::MutexGuard<')]
        for pblk in [x for x, m in self.queue_calls(h) if m == 'push']:
            for d_ in sorted(an.doms(('normal',)).get(pblk.idx) or ()):
                sw = h.blocks[d_]
                if sw.term.kind != 'switch' or sw.term.j.get('dty') != 'bool':
                    continue
                src = sources(an, sw.term.discr)
                tcs = [s[2] for s in src if s[0] == 'call' and (s[1].endswith('is_closed') or s[1].endswith('try_acquire_many'))]
                if not tcs:
                    continue
                arms = dict(sw.term.switch_arms())
                only_false = pblk.idx in an.reach([arms['false']], ('normal',), avoid=[arms['true']]) and pblk.idx not in an.reach([arms['true']], ('normal',), avoid=[arms['false']])
                under = all((an.state_at_term(tc) or (0, 0))[0] & sum(1 << g for g in gl) for tc in tcs)
                if only_false and under:
                    return True
        return False

    def describe(self):
        return {'U.INNER': self.INNER, 'U.SEM': self.SEM, 'U.SIZESEM': self.SIZESEM, 'U.QUEUE': self.QUEUE, 'U.SIZE': self.SIZE,
                'U.AVAIL': self.AVAIL, 'U.ADD_HELPER': self.ADD_HELPER.name, 'U.CLEAR': self.CLEAR.name if self.CLEAR else None,
                'U.GETGUARD': self.GETGUARD}


def uroles(ctx):
    r = _cache.get(id(ctx.prog))
    if r is None:
        r = UnmanagedRoles(ctx.prog)
        _cache[id(ctx.prog)] = r
    for k, v in r.describe().items():
        ctx.role(k, v)
    return r


def armed_flag_skips(prog, r, gd, restores, guard_adt=None):
    """`armed`-flag form of the guard: arms of bool switches in the guard's Drop that skip the restore and are taken only
    for a guard that was disarmed: the switch tests one bool field of the guard, every construction of the guard sets
    that field to the other value, and the only writes of the skipping value are in methods that consume the guard
    (the disarm functions, whose call sites the disarm rule examines)."""
    gan = prog.an(gd)
    GA = guard_adt or r.GETGUARD
    out = []
    for blk in gd.blocks:
        t = blk.term
        if t.kind != 'switch' or t.j.get('dty') != 'bool' or blk.cleanup:
            continue
        src = sources(gan, t.discr)
        flds = {s[1] for s in src if s[0] == 'field' and s[1].startswith(GA + '.')}
        rest = [s for s in src if s[0] not in ('field', 'arg') and not (s[0] == 'bin' and s[1] == 'Not')]
        if len(flds) != 1 or rest:
            continue
        fld = list(flds)[0].split('.')[-1]
        neg = len([s for s in src if s[0] == 'bin' and s[1] == 'Not']) % 2 == 1
        arms = dict(t.switch_arms())
        for lab in ('true', 'false'):
            tgt = arms.get(lab)
            if tgt is None:
                continue
            if any(x.idx in gan.reach([tgt], ('normal',)) for x in restores):
                continue
            skip_value = (lab == 'true') != neg          # value of the field on the skipping arm
            ctor_vals = []; writes = []
            for b in prog.bodies.values():
                for bl in b.blocks:
                    for s in bl.stmts:
                        if s.kind != 'assign':
                            continue
                        if s.rv.kind == 'agg' and s.rv.j.get('adt') == GA and fld in s.rv.j.get('fields', []):
                            ctor_vals.append(prog.an(b).resolve_operand(s.rv.ops[s.rv.j['fields'].index(fld)]))
                        elif s.place.has_field(GA, fld):
                            consuming = b.arg_count >= 1 and adt_of(b.locals[1]['ty']) == GA and not b.locals[1]['ty'].startswith('&') and b.j.get('impl_trait') != 'std::ops::Drop'
                            writes.append((prog.an(b).resolve_operand(s.rv.ops[0]) if s.rv.kind == 'use' else '?', consuming))
            want_ctor = 'false' if skip_value else 'true'
            want_write = 'true' if skip_value else 'false'
            if ctor_vals and all(v == want_ctor for v in ctor_vals) and writes and all(v == want_write and c for v, c in writes):
                out.append(tgt)
    return out



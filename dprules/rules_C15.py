"""C15 - a connection whose interaction panicked or broke is never reissued (sqlite, r2d2, diesel)."""
from .mcommon import calls_named, in_cycle, is_dyn_call, branch_condition
from .roles import adt_of
from .facts import strip_generics, Operand, Place
from .analysis import sources, success_edges, reach_without_edges
from .engine import Undecided
from .rules_C14 import closure_args_of

TECHNIQUE = 'sibling cross-check of every impl of managed::Manager whose Type is a SyncWrapper: dominance of the poisoned test, must-pass-through of the success edge of the interact result, call order / branch tables inside the blocking closures'
LEVEL_TEXT = 'static analysis of every path of the recycle() implementations of deadpool-sqlite, deadpool-r2d2 and deadpool-diesel'
EXPLANATION = ('Every impl of deadpool::managed::Manager whose object type is a SyncWrapper is discovered by type (today: sqlite, r2d2, diesel). '
               'Decided for each: recycle() tests is_mutex_poisoned() before any interaction and its true branch returns Err; no Ok is returned '
               'without passing the success branch of the interact result (a panic inside the check is an Err); r2d2 consults has_broken first '
               '(true => Err) and otherwise maps is_valid errors to Backend, inside the blocking closure; diesel consults the broken-transaction-manager '
               'test before the switch on the recycling method for every variant; sqlite compares the echoed value with the counter it just drew and '
               'a mismatch is an Err. With C04 (an Err from recycle discards and detaches) and C02 (capacity kept) the connection is never reissued.')

POISON = 'deadpool_sync::SyncWrapper::is_mutex_poisoned'
INTERACT = 'deadpool_sync::SyncWrapper::interact'


def sync_recyclers(prog):
    out = []
    for b in prog.bodies.values():
        if b.is_coroutine and b.j.get('parent', '').endswith('as deadpool::managed::Manager>::recycle') or \
                (b.is_coroutine and '> as deadpool::managed::Manager>::recycle::{closure#0}' in b.path and b.path.endswith('recycle::{closure#0}')):
            tys = [d['p']['ty'] for d in b.debug if 'p' in d and d['p']['l'] == 1 and d['p']['pr']]
            if any('deadpool_sync::SyncWrapper' in t for t in tys):
                out.append(b)
    return out


def run(ctx):
    prog = ctx.prog
    recs = sync_recyclers(prog)
    ctx.role('sync recyclers', [b.name for b in recs])
    ctx.floor('R15.0', 'Manager impls over SyncWrapper', len(recs), 3)
    for b in recs:
        ctx.saw(b)
        an = prog.an(b)
        tag = b.path.split(' as ')[0].lstrip('<').split('::')[0]
        # ---- R15.1 poisoned test first ---------------------------------------------------
        pz = [blk for blk in b.blocks if blk.term.kind == 'call' and not blk.cleanup and POISON in blk.term.callee_names()]
        ia = [blk for blk in b.blocks if blk.term.kind == 'call' and not blk.cleanup and INTERACT in blk.term.callee_names()]
        ctx.ob('R15.1', '%s: recycle tests is_mutex_poisoned()' % tag, len(pz) >= 1, ctx.where(b), 'a connection whose closure panicked would be recycled' if not pz else '',
               construct='poison-test:' + tag, sites=[ctx.where(b, x.term.line) for x in pz])
        ctx.floor('R15.1', '%s: interact calls in recycle' % tag, len(ia), 1)
        if pz:
            p0 = pz[0]
            for x in ia:
                ctx.ob('R15.1', '%s: poisoned test precedes the interaction' % tag, an.dominates(p0.idx, x.idx), ctx.where(b, x.term.line), '', construct='poison-order:' + tag)
            sw = b.blocks[p0.term.target]
            if sw.term.kind == 'switch' and sw.term.j.get('dty') == 'bool' and any(s[0] == 'call' and s[2] == p0.idx for s in sources(an, sw.term.discr)):
                arms = dict(sw.term.switch_arms())
                reach = an.reach([arms['true']], ('normal',), avoid=[arms['false']])
                errs = [bb for bb, cls, det in an.ret_assignments() if cls in ('err', 'residual') and bb in reach]          # `Err(..)` or `helper()?`
                oks = [bb for bb, cls, det in an.ret_assignments() if cls in ('ok', 'other', 'unit') and bb in reach]
                hit_ia = [x for x in ia if x.idx in reach]
                ctx.ob('R15.1', '%s: a poisoned wrapper is rejected' % tag, bool(errs) and not oks and not hit_ia, ctx.where(b, sw.term.line),
                       'the poisoned branch does not return Err' if not errs else '', construct='poison-reject:' + tag)
            else:
                ctx.ob('R15.1', '%s: the result of is_mutex_poisoned() is tested' % tag, False, ctx.where(b, p0.term.line), '', construct='poison-untested:' + tag)
        # ---- R15.2 Ok only through the success of the interaction --------------------------
        polls = [blk for blk in b.blocks if blk.term.kind == 'call' and not blk.cleanup and blk.term.rcallee and strip_generics(blk.term.rcallee) == INTERACT + '::{closure#0}']
        ok_e, fail_e = success_edges(an)
        for pl in polls:
            reach = reach_without_edges(an, pl.idx, ok_e, ('normal',))
            bad = [bb for bb, cls, det in an.ret_assignments() if cls == 'ok' and bb in reach]
            ctx.ob('R15.2', '%s: no Ok(()) without the interaction having succeeded' % tag, not bad, ctx.where(b, pl.term.line),
                   'an Ok return at line(s) %s is reachable without passing the success branch of the interact result' % [b.blocks[x].term.line for x in bad] if bad else '',
                   construct='ok-without-interact:' + tag)
        # the value returned on the non-error paths derives from the interaction
        nonerr = [(bb, cls) for bb, cls, det in an.ret_assignments() if cls in ('other',)]
        for bb, cls in nonerr:
            st = [s for s in b.blocks[bb].stmts if s.kind == 'assign' and s.place.local == 0]
            if st:
                src = sources(an, st[-1].rv.ops[0]) if st[-1].rv.ops else set()
            else:
                t = b.blocks[bb].term
                src = set()
                for a in t.args:
                    src |= sources(an, a)
            ok = any(s[0] == 'call' and INTERACT in s[1] for s in src)
            ctx.ob('R15.2', '%s: the returned result derives from the interaction' % tag, ok, ctx.where(b, b.blocks[bb].term.line), '', construct='result-origin:' + tag)
        oks_all = [bb for bb, cls, det in an.ret_assignments() if cls == 'ok']
        for bb in oks_all:
            dom = any(an.dominates(pl.idx, bb) for pl in polls)
            ctx.ob('R15.2', '%s: Ok(()) only after the interaction' % tag, dom, ctx.where(b, b.blocks[bb].term.line), '', construct='ok-before-interact:' + tag)

    # ---- R15.3 r2d2 ---------------------------------------------------------------------------------
    r2 = [b for b in recs if b.path.startswith('<deadpool_r2d2')]
    if len(r2) != 1:
        ctx.undecide('R15.3', 'r2d2 recycle not found')
    else:
        b = r2[0]
        cls = [cb for blk, cb in closure_args_of(prog, b, [INTERACT])]
        if len(cls) != 1:
            ctx.undecide('R15.3', 'r2d2: interact closure not found')
        else:
            cb = cls[0]
            ctx.saw(cb)
            can = prog.an(cb)
            hb = [blk for blk in cb.blocks if blk.term.kind == 'call' and not blk.cleanup and 'r2d2::ManageConnection::has_broken' in blk.term.callee_names()]
            iv = [blk for blk in cb.blocks if blk.term.kind == 'call' and not blk.cleanup and 'r2d2::ManageConnection::is_valid' in blk.term.callee_names()]
            ok = len(hb) == 1 and len(iv) == 1 and can.dominates(hb[0].idx, iv[0].idx)
            ctx.ob('R15.3', 'r2d2: has_broken consulted before is_valid, inside the blocking closure', ok, ctx.where(cb), 'has_broken %d, is_valid %d' % (len(hb), len(iv)), construct='r2d2:order')
            if ok:
                sw = cb.blocks[hb[0].term.target]
                if sw.term.kind == 'switch' and sw.term.j.get('dty') == 'bool':
                    arms = dict(sw.term.switch_arms())
                    reach_t = can.reach([arms['true']], ('normal',), avoid=[arms['false']])
                    errs = [bb for bb, cls_, det in can.ret_assignments() if cls_ == 'err' and bb in reach_t]
                    ctx.ob('R15.3', 'r2d2: a broken connection is rejected', bool(errs) and iv[0].idx not in reach_t, ctx.where(cb, sw.term.line), '', construct='r2d2:broken-reject')
                else:
                    ctx.ob('R15.3', 'r2d2: has_broken result is tested', False, ctx.where(cb, hb[0].term.line), '', construct='r2d2:broken-untested')
                # is_valid's result is returned (mapped to Backend), not discarded
                rsrc = set()
                for blk in cb.blocks:
                    if blk.term.kind == 'call' and blk.term.dest is not None and blk.term.dest.local == 0 and not blk.cleanup:
                        for a in blk.term.args:
                            rsrc |= sources(can, a)
                    for s in blk.stmts:
                        if s.kind == 'assign' and s.place.local == 0 and s.place.is_local() and s.rv.ops:
                            rsrc |= sources(can, s.rv.ops[0])
                ctx.ob('R15.3', 'r2d2: the validity check decides the result', any(s[0] == 'call' and s[1] == 'r2d2::ManageConnection::is_valid' for s in rsrc), ctx.where(cb), '', construct='r2d2:valid-result')

    # ---- R15.4 diesel ---------------------------------------------------------------------------------------
    pc = prog.body('deadpool_diesel::manager::RecyclingMethod::perform_recycle_check')
    if pc is None:
        ctx.undecide('R15.4', 'diesel perform_recycle_check not found')
    else:
        ctx.saw(pc)
        pan = prog.an(pc)
        tm = [blk for blk in pc.blocks if blk.term.kind == 'call' and not blk.cleanup and any(n.endswith('TransactionManager::is_broken_transaction_manager') for n in blk.term.callee_names())]
        msw = [blk for blk in pc.blocks if blk.term.kind == 'switch' and blk.term.j.get('adt') == 'deadpool_diesel::manager::RecyclingMethod']
        ok = len(tm) == 1 and len(msw) >= 1 and all(pan.dominates(tm[0].idx, x.idx) for x in msw)
        ctx.ob('R15.4', 'diesel: broken-transaction-manager test precedes the switch on the recycling method', ok, ctx.where(pc), '', construct='diesel:order')
        if tm:
            sw = pc.blocks[tm[0].term.target]
            if sw.term.kind == 'switch' and sw.term.j.get('dty') == 'bool':
                arms = dict(sw.term.switch_arms())
                reach_t = pan.reach([arms['true']], ('normal',), avoid=[arms['false']])
                errs = [bb for bb, cls_, det in pan.ret_assignments() if cls_ in ('err', 'residual') and bb in reach_t]      # `return Err(..)` or `helper()?`
                oks = [bb for bb, cls_, det in pan.ret_assignments() if cls_ == 'ok' and bb in reach_t]
                ctx.ob('R15.4', 'diesel: a broken transaction manager is rejected for every method', bool(errs) and not oks and not any(x.idx in reach_t for x in msw),
                       ctx.where(pc, sw.term.line), '', construct='diesel:broken-reject')
            else:
                ctx.ob('R15.4', 'diesel: the test result is used', False, ctx.where(pc, tm[0].term.line), '', construct='diesel:broken-untested')
        # the diesel recycle closure calls perform_recycle_check inside interact
        dz = [b for b in recs if b.path.startswith('<deadpool_diesel')]
        if dz:
            cls = [cb for blk, cb in closure_args_of(prog, dz[0], [INTERACT])]
            okc = any(any(blk.term.kind == 'call' and blk.term.rcallee == pc.path for blk in cb.blocks) for cb in cls)
            ctx.ob('R15.4', 'diesel: the check runs inside the blocking closure', okc, ctx.where(dz[0]), '', construct='diesel:in-closure')
        # Verified / CustomQuery errors propagate
        ok_e, fail_e = success_edges(pan)
        execs = [blk for blk in pc.blocks if blk.term.kind == 'call' and not blk.cleanup and any(n.endswith('RunQueryDsl::execute') for n in blk.term.callee_names())]
        for e in execs:
            reach = reach_without_edges(pan, e.idx, ok_e, ('normal',))
            bad = [bb for bb, cls_, det in pan.ret_assignments() if cls_ == 'ok' and bb in reach]
            ctx.ob('R15.4', 'diesel: a failing test query rejects the connection', not bad, ctx.where(pc, e.term.line), '', construct='diesel:query-error')
        ctx.floor('R15.4', 'diesel test-query sites', len(execs), 2)

    # ---- R15.5 sqlite -----------------------------------------------------------------------------------------------
    sq = [b for b in recs if b.path.startswith('<deadpool_sqlite')]
    if len(sq) != 1:
        ctx.undecide('R15.5', 'sqlite recycle not found')
    else:
        b = sq[0]
        an = prog.an(b)
        fa = [blk for blk in b.blocks if blk.term.kind == 'call' and not blk.cleanup and any(n.endswith('::fetch_add') and 'atomic' in n for n in blk.term.callee_names())]
        sws = [blk for blk in b.blocks if blk.term.kind == 'switch' and blk.term.j.get('dty') == 'bool' and any(s[0] == 'bin' and s[1] in ('Eq', 'Ne') for s in sources(an, blk.term.discr))]
        ok = False
        for sw in sws:
            c = branch_condition(an, sw, 'true')
            if not c:
                continue
            s1 = sources(an, c[1]); s2 = sources(an, c[2])
            has_cnt = lambda s: any(x[0] == 'call' and x[1].endswith('::fetch_add') for x in s)
            has_echo = lambda s: any(x[0] == 'call' and INTERACT in x[1] for x in s)
            if c[0] in ('Eq', 'Ne') and ((has_cnt(s1) and has_echo(s2)) or (has_cnt(s2) and has_echo(s1))):
                arms = dict(sw.term.switch_arms())
                eq_arm, ne_arm = ('true', 'false') if c[0] == 'Eq' else ('false', 'true')      # `if a != b { return Err }` is the same gate
                rt = an.reach([arms[eq_arm]], ('normal',), avoid=[arms[ne_arm]])
                rf = an.reach([arms[ne_arm]], ('normal',), avoid=[arms[eq_arm]])
                ok_t = [bb for bb, cls_, det in an.ret_assignments() if cls_ == 'ok' and bb in rt]
                ok_f = [bb for bb, cls_, det in an.ret_assignments() if cls_ == 'ok' and bb in rf]
                err_f = [bb for bb, cls_, det in an.ret_assignments() if cls_ == 'err' and bb in rf]
                ok = bool(ok_t) and not ok_f and bool(err_f)
        ctx.ob('R15.5', 'sqlite: the echoed value is compared with the fresh counter and a mismatch is an Err', ok and len(fa) == 1, ctx.where(b), '', construct='sqlite:echo')
        all_ok = [bb for bb, cls_, det in an.ret_assignments() if cls_ == 'ok']
        ctx.ob('R15.5', 'sqlite: Ok(()) only on the matching branch', len(all_ok) == 1, ctx.where(b), '%d Ok returns' % len(all_ok), construct='sqlite:ok-count')

    # ---- R15.6 the poisoned test is meaningful: interact never recovers a poisoned lock ----------------------------
    ia = prog.body('deadpool_sync::SyncWrapper::interact::{closure#0}')
    if ia is None:
        ctx.undecide('R15.6', 'SyncWrapper::interact not extracted')
    else:
        for blk, cb in closure_args_of(prog, ia, ['deadpool_runtime::Runtime::spawn_blocking']):
            can = prog.an(cb)
            ctx.saw(cb)
            rec = [(x.term.line, sorted(x.term.callee_names())[0]) for x in cb.blocks if x.term.kind == 'call' and not x.cleanup and
                   any(n.endswith('PoisonError::<T>::into_inner') or n.endswith('PoisonError::into_inner') or n.endswith('::unwrap_or_else') or n.endswith('::unwrap_or') for n in x.term.callee_names())
                   and any(s[0] == 'call' and s[1] == 'std::sync::Mutex::lock' for a in x.term.args for s in sources(can, a, deep=True))]
            cu = [(x.term.line) for x in cb.blocks if x.term.kind == 'call' and not x.cleanup and any(n.endswith('panic::catch_unwind') for n in x.term.callee_names())]
            ctx.ob('R15.6', 'an interaction never runs on (or hides) a poisoned connection', not rec and not cu, ctx.where(cb),
                   'interact recovers the poisoned lock (%s) or catches the panic (%s): recycle() can validate and reissue a connection whose closure panicked' % (rec, cu) if rec or cu else '',
                   construct='interact:poison-recovery')

    ctx.not_decided += ['what the backends report (has_broken, is_valid, the sqlite echo)']
    ctx.assumptions += ['an Err from recycle() means discarded-and-replaced (C04) with capacity kept (C02)']

"""C03 - abandoning get() at any suspension point is harmless.

Cancellation is the drop edge of a Yield terminator, a panicking callback is
the unwind edge of a call: both are ordinary edges of the mir_built CFG."""
from . import preds
from .mcommon import *
from .roles import PERMIT_ADT, classify_write, adt_of
from .facts import strip_generics, Operand
from .analysis import sources
from .rules_C01 import check_unready_drop

TECHNIQUE = 'guard-at-suspension-point typestate over mir_built Yield terminators (must-init dataflow) cross-checked against rustc coroutine layouts (mir_coroutine_witnesses); must-pass-through on cancel/unwind drop chains'
LEVEL_TEXT = 'static analysis of every suspension point and every unwind edge of the getter region'
EXPLANATION = ('Every Yield terminator of every coroutine body reachable from timeout_get is enumerated. At each one the '
               'required guard-typed locals (users guard, SemaphorePermit, not-ready wrapper) are definitely initialised, the '
               "compiler's own coroutine layout saves them at a suspension point on the same line, no bare owned object is "
               'live next to the wrapper, and the cancel (coroutine-drop) path from that Yield runs the guard destructors. '
               'Guards are disarmed/consumed only where nothing can fail or suspend afterwards; the guard destructors restore '
               'exactly what the call changed (users +1/-1 on the same field, size -1 and detach once).')


def owned_obj_pred(r):
    def pred(l):
        ty = l['ty']
        if ty.startswith('&') or ty.startswith('*') or ty.startswith('{') or l['parts'].get('closures'):
            return False
        if adt_of(ty) == r.UNREADY:
            return False
        adts = l['parts']['adts']
        if r.UNREADY in adts:
            return False
        if r.OBJINNER in adts:
            # futures / polls that merely *return* an object are not owners of one at a suspension point:
            # Poll<..> and impl Future values are handled by the callee's own analysis
            if adt_of(ty) in ('std::task::Poll',):
                return False
            if 'dyn std::future::Future' in ty or ty.startswith('impl std::future::Future'):
                return False          # a (boxed) future naming the object in its Output: what it owns is audited in the body that defines it
            return True
        return ty == '<M as deadpool::managed::Manager>::Type'
    return pred


def run(ctx):
    r = roles(ctx)
    prog = ctx.prog
    root = r.TIMEOUT_GET
    coros = [prog.bodies[p] for p in r.GETTER if prog.bodies[p].is_coroutine] + [r.GET]
    total_y = 0
    owned = owned_obj_pred(r)
    UG, ug_bb, ug_stmt, ug_how, ug_drop = r.users_guard()
    ctx.role('G.USERS', '%s (%s)' % (UG, ug_how[0]))

    for b in coros:
        ctx.saw(b)
        an = prog.an(b)
        ys = b.yields()
        total_y += len(ys)
        is_root = b.path == root.path
        unready_aggs = [blk.idx for blk in b.blocks for s in blk.stmts
                        if s.kind == 'assign' and s.rv.kind == 'agg' and s.rv.j.get('adt') == r.UNREADY]
        ready_calls = [blk.idx for blk in b.blocks if blk.term.kind == 'call' and not blk.cleanup and blk.term.args and blk.term.args[0].kind == 'move'
                       and adt_of(b.locals[blk.term.args[0].place.local]['ty']) == r.UNREADY and not b.locals[blk.term.args[0].place.local]['ty'].startswith('&')]
        for y in ys:
            line = y.term.line
            w = ctx.where(b, line)
            # --- R03.1: guards held ---------------------------------------
            if is_root:
                held = held_locals(an, y.idx, UG)
                ctx.ob('R03.1', 'users guard held at suspension point', bool(held), w,
                       'get() can be cancelled here without undoing its users += 1' if not held else '',
                       construct='yield:users-guard', sites=[w])
                _check_cancel_drops(ctx, an, b, y, held, 'users guard')
            if unready_aggs and any(an.dominates(a, y.idx) for a in unready_aggs) and not any(an.dominates(c_, y.idx) for c_ in ready_calls):
                held = held_locals(an, y.idx, r.UNREADY)
                ctx.ob('R03.1', 'not-ready wrapper owns the object at suspension point', bool(held), w,
                       'the object taken from / created for the pool is not owned by %s here: cancellation would leak its size slot and skip detach'
                       % r.UNREADY.split('::')[-1] if not held else '', construct='yield:unready:' + b.name, sites=[w])
                _check_cancel_drops(ctx, an, b, y, held, 'not-ready wrapper')
            # no bare owned object next to it
            bare = maybe_locals(an, y.idx, owned)
            ctx.ob('R03.1', 'no bare owned object live across the suspension point', not bare, w,
                   'local(s) %s of type %s hold a pooled object outside the wrapper: dropping the future here loses it without size -= 1 / detach'
                   % (bare, [b.locals[i]['ty'] for i in bare]) if bare else '', construct='yield:bare-object:' + b.name)
            # --- cross-check with the compiler's layout ------------------------
            if b.layout:
                # a suspension point of an inlined async helper is, for the layout of this coroutine, the await of the helper
                lline = y.term.j.get('await_line', line)
                variants = [v for v in b.layout if v['idx'] >= 3 and v['line'] == lline]
                if not variants:
                    ctx.undecide('R03.1x', 'no coroutine layout variant on line %s of %s' % (line, b.name))
                else:
                    # (a guard that is a local of an inlined async helper lives in the helper's coroutine state, which this
                    # coroutine saves as a whole: its layout has no field for the guard itself - the dataflow above decides)
                    ug_held = held_locals(an, y.idx, UG) if is_root else []
                    in_helper = bool(ug_held) and all(any(lo_ <= h < hi_ for lo_, hi_, _p in b.j.get('helper_locals', [])) for h in ug_held)
                    if is_root and not in_helper:
                        okl = any(any(adt_of(f['ty']) == UG for f in v['saved']) for v in variants)
                        ctx.ob('R03.1x', 'layout: users guard saved across the await', okl, w,
                               'rustc does not keep the users guard in the coroutine state at this await', construct='layout:users-guard')
                    for v in variants:
                        # the layout is conservative for partially moved enums (drop flags), so only objects saved
                        # directly by value count here; Option-wrapped ones are decided by the dataflow above
                        bad = [f for f in v['saved'] if adt_of(f['ty']) == r.OBJINNER and not f['ty'].startswith('&')
                               or f['ty'] == '<M as deadpool::managed::Manager>::Type']
                        ctx.ob('R03.1x', 'layout: no bare owned object saved across the await', not bad, w,
                               'coroutine state keeps %s' % [(f['name'], f['ty']) for f in bad] if bad else '', construct='layout:bare-object:' + b.name)

        # --- R03.2 consumers only where nothing can fail or suspend afterwards ----
        for blk in b.blocks:
            t = blk.term
            if t.kind != 'call' or blk.cleanup:
                continue
            names = t.callee_names()
            which = None
            if t.args and t.args[0].kind == 'move' and adt_of(b.locals[t.args[0].place.local]['ty']) == UG and not b.locals[t.args[0].place.local]['ty'].startswith('&'):
                which = 'users guard disarmed'
            elif any(n.startswith(strip_generics(r.UNREADY) + '::') for n in names) and t.args and t.args[0].kind == 'move' and \
                    adt_of(b.locals[t.args[0].place.local]['ty']) == r.UNREADY and not b.locals[t.args[0].place.local]['ty'].startswith('&'):
                which = 'wrapper consumed (ready)'
            if not which:
                continue
            # a consumed wrapper: flow that goes back to take / wrap another object starts a new obligation
            stop = []
            if which.startswith('wrapper'):
                stop = unready_aggs + [q.idx for q, m_ in queue_calls(r, b, an) if m_.startswith('pop')]
            after = an.reach_after(blk.idx, ('normal', 'unwind', 'cancel'), avoid=stop)
            bad = []
            for x in sorted(after):
                if b.blocks[x].cleanup:
                    continue
                tt = b.blocks[x].term
                if tt.kind == 'yield':
                    bad.append('suspension point at line %s' % tt.line)
                if tt.kind == 'call' and user_code_calls_term(tt):
                    bad.append('user callback at line %s' % tt.line)
            for bb2, cls, det in an.ret_assignments():
                if bb2 in after and cls in ('err', 'residual'):
                    bad.append('error return at line %s' % b.blocks[bb2].term.line)
            ctx.ob('R03.2', '%s only where nothing can fail or suspend afterwards' % which, not bad, ctx.where(b, t.line),
                   '; '.join(bad[:4]), construct='consumer-then-fallible:%s:%s' % (which.split()[0], b.name), sites=[ctx.where(b, t.line)])
            again = blk.idx in an.reach_after(blk.idx, ('normal',), avoid=stop if which.startswith('wrapper') else [ug_bb] if b.path == root.path else [])
            ctx.ob('R03.2', '%s once per guard' % which, not again, ctx.where(b, t.line), 'the consumer can run again without a new guard having been created', construct='consumer-in-loop:' + b.name)

        # --- R03.4 the idle object is wrapped before anything can fail or suspend ----
        if unready_aggs:
            first_user = [blk.idx for blk, _ in user_code_calls(b)] + [y.idx for y in ys]
            # creator: the awaited create necessarily precedes the wrapper (there is no object yet); only the recycler
            # receives an owned object as an argument
            takes_obj = any(adt_of(t_) == r.OBJINNER for t_ in _arg_tys(b))
            if takes_obj:
                for x in first_user:
                    ok = any(an.dominates(a, x) for a in unready_aggs)
                    ctx.ob('R03.4', 'object wrapped before the first callback / suspension point', ok, ctx.where(b, b.blocks[x].term.line),
                           'an idle object is handled unwrapped at this point' if not ok else '', construct='wrap-late:' + b.name)

    ctx.count('suspension_points', total_y)
    ctx.floor('R03.1', 'suspension points in the getter region', total_y, 9)

    # ---- R03.1 (unwind): the guards are also live across every call that can run user code ----
    for p in r.GETTER:
        b = prog.bodies[p]
        an = prog.an(b)
        is_root = b.path == root.path
        for blk, what in user_code_calls(b):
            if b.is_coroutine or True:
                unready_aggs = [x.idx for x in b.blocks for s in x.stmts if s.kind == 'assign' and s.rv.kind == 'agg' and s.rv.j.get('adt') == r.UNREADY]
                rc_ = [x.idx for x in b.blocks if x.term.kind == 'call' and not x.cleanup and x.term.args and x.term.args[0].kind == 'move'
                       and adt_of(b.locals[x.term.args[0].place.local]['ty']) == r.UNREADY and not b.locals[x.term.args[0].place.local]['ty'].startswith('&')]
                if unready_aggs and any(an.dominates(a, blk.idx) for a in unready_aggs) and not any(an.dominates(c_, blk.idx) for c_ in rc_):
                    held = held_locals(an, blk.idx, r.UNREADY)
                    ctx.ob('R03.1u', 'wrapper live across user callback (panic = unwind edge)', bool(held), ctx.where(b, blk.term.line),
                           'a panic in %s unwinds past an unwrapped object' % what if not held else '', construct='unwind:unready:' + b.name)

    # ---- R03.3 the guards restore exactly what the call touched --------------
    an = prog.an(root)
    adds = [blk for blk in calls_with_prefix(root, 'std::sync::atomic::Atomic') if any(n.endswith('::fetch_add') for n in blk.term.callee_names())
            and _atomic_field(an, blk.term, r.INNER, r.USERS)]
    ctx.ob('R03.3', 'exactly one users += 1 at entry', len(adds) == 1 and an.resolve_operand(adds[0].term.args[1]) == '1_usize' if adds else False,
           ctx.where(root, adds[0].term.line) if adds else ctx.where(root), '%d fetch_add sites on users' % len(adds), construct='users-inc')
    gb = root.blocks[ug_bb]; gs = ug_stmt
    if adds:
        # no suspension / fallible exit between the increment and the guard
        between = an.reach_after(adds[0].idx, ('normal',), avoid=[gb.idx])
        bad = [x for x in between if root.blocks[x].term.kind in ('yield', 'return')]
        ctx.ob('R03.3', 'guard armed immediately after users += 1', an.dominates(adds[0].idx, gb.idx) and not bad, ctx.where(root, gs.line), '', construct='users-guard-gap')
    if ug_how[0] == 'closure':
        cb = prog.bodies.get(ug_how[1])
        ctx.saw(cb)
        can = prog.an(cb)
        subs = [blk for blk in cb.blocks if blk.term.kind == 'call' and any(n.endswith('::fetch_sub') for n in blk.term.callee_names())]
        ok = len(subs) == 1 and can.resolve_operand(subs[0].term.args[1]) == '1_usize' and _atomic_field(can, subs[0].term, r.INNER, r.USERS)
        ctx.ob('R03.3', 'guard closure performs users -= 1 on the same counter', ok, ctx.where(cb),
               'closure does %s' % [can.resolve_operand(a) for s_ in subs for a in s_.term.args[:2]], construct='users-guard-closure')
        afail = preds.assertion_failure_blocks(cb, can)
        others = [blk for blk in cb.blocks if blk.term.kind == 'call' and blk.idx not in [s_.idx for s_ in subs] and blk.idx not in afail
                  and not any(n.startswith('<std::sync::Arc') or 'Deref' in n or (n.endswith('::load') and 'atomic' in n) or n.split('::')[-1] in ('wrapping_sub', 'wrapping_add')
                              for n in blk.term.callee_names())]          # (plain reads of the counter - what is left of a compare-exchange loop - change nothing)
        ctx.ob('R03.3', 'guard closure does nothing else', not others, ctx.where(cb), '', construct='users-guard-closure-extra')
        d = ug_drop
        ctx.saw(d)
        calls = [blk for blk in d.blocks if is_dyn_call(blk.term) or any(n.endswith('Fn::call') for n in blk.term.callee_names())]
        ctx.ob('R03.3', 'Drop for the guard type invokes its closure exactly once', len(calls) == 1 and not in_cycle(prog.an(d), calls[0].idx) if calls else False,
               ctx.where(d), '%d closure invocations' % len(calls), construct='dropguard-drop')
    else:
        d = ug_drop
        ctx.saw(d)
        dan = prog.an(d)
        subs = [blk for blk in d.blocks if blk.term.kind == 'call' and not blk.cleanup and any(n.endswith('::fetch_sub') for n in blk.term.callee_names())]
        ok = len(subs) == 1 and dan.resolve_operand(subs[0].term.args[1]) == '1_usize' and not in_cycle(dan, subs[0].idx)
        ctx.ob('R03.3', 'Drop for the users guard performs users -= 1 exactly once', ok, ctx.where(d), '%d fetch_sub calls' % len(subs), construct='users-guard-closure')
    users_guard_drop_unconditional(ctx, r, 'R03.3')
    check_unready_drop(ctx, r, 'R03.3')

    # ---- R03.10 the abandonment path honours a shrink that happened meanwhile ----------------------------------
    # `size -= 1` on behalf of a caller that still holds its permit: if the pool was shrunk while the call was in
    # flight (size > max_size), the object being discarded is the surplus one and its permit must be withheld, as
    # the return / take helpers do; releasing it leaves one permit too many (not "as if the call had never been made").
    # The rule is tied to the present design (debt kept implicitly as size > max_size and paid by the helpers' surplus
    # test, getter holding a bare tokio permit); under another design (explicit debt counter, permit wrapped in a pool
    # guard) it does not apply and says so.
    ud = r.UNREADY_DROP
    uan = prog.an(ud)
    helpers_compare = any(cmp_relation(prog.an(h), r, blk, lab) for h in r.RETURN + r.TAKE for blk in h.blocks
                          if blk.term.kind == 'switch' and blk.term.j.get('dty') == 'bool' for lab in ('true', 'false'))
    bare_permit = any(adt_of(l['ty']) == PERMIT_ADT for l in root.locals)
    slot_ints = [f for f in (prog.crates['deadpool'].adt(r.SLOTS) or {'variants': [{'fields': []}]})['variants'][0]['fields'] if f['ty'] in ('usize', 'isize', 'u32', 'i32', 'u64', 'i64')]
    applies = helpers_compare and bare_permit and len(slot_ints) <= 2
    if not applies:
        ctx.note('R03.10 (abandonment honours a shrink) not applicable: the shrink debt is not kept as size > max_size here (helpers compare: %s, bare permit: %s, integer fields of the slots: %d)' % (helpers_compare, bare_permit, len(slot_ints)))
    for bb, i, s in (r.field_writes(ud, r.SLOTS, r.SIZE) if applies else []):
        if classify_write(uan, s)[0] != '-=':
            continue
        tested = any(cmp_relation(uan, r, blk, lab) for blk in ud.blocks if blk.term.kind == 'switch' and blk.term.j.get('dty') == 'bool' for lab in ('true', 'false'))
        ctx.ob('R03.10', 'the object discarded by an abandoned get() is tested for being surplus (size > max_size) before its permit goes back', tested, ctx.where(ud, s.line),
               'UnreadyObject::drop gives the size slot back without comparing size and max_size: after a shrink that overlapped the call the '
               'permit of the abandoned get() is released although the shrink still owed one (max_size 2, A out, B idle, get() parked in recycle(B), '
               'resize(1), get() dropped, A returned: two objects at once with max_size 1)' if not tested else '',
               construct='abandon:shrink-debt-ignored')

    # ---- R03.11 any further counter a get() raises and lowers is lowered on every way out ---------------------------
    paired_counters(ctx, r, 'R03.11', [prog.bodies[p_] for p_ in r.GETTER if p_ in prog.bodies])

    # ---- R03.9 an abandoned or panicking get() leaves all three books balanced (effect ledger) ----------------
    from .ledger_rules import ledger_obligations
    getters = {b.path for b in ctx.prog.bodies.values() if b.is_coroutine and b.path in set(r.GETTER) | {r.TIMEOUT_GET.path}}
    getters |= {b.path for b in ctx.prog.bodies.values() if b.is_coroutine and b.name.endswith('Pool::get::{closure#0}')}
    ledger_obligations(ctx, r, 'R03.9', (0, 1, 2), only=getters)

    ctx.not_decided += [
        '"status() again reports the earlier figures" as a numeric statement over arbitrary concurrent histories; decided is '
        'that each counter touched by the abandoned call is restored by a guard on every exit',
    ]
    ctx.assumptions += ['no async-drop types (Drop terminators are not suspension points)', 'rustc coroutine layout = saved locals']


def user_code_calls_term(t):
    if t.kind != 'call' or t.func.kind != 'const':
        return False
    fn = t.func.const.get('fn', '')
    return fn.startswith('deadpool::managed::Manager::') or is_dyn_call(t)


def _arg_tys(b):
    # for a coroutine body the captured upvars are the arguments of the async fn
    out = []
    for d in b.debug:
        if 'p' in d and d['p']['l'] == 1 and d['p']['pr']:
            out.append(d['p']['ty'])
    for l in range(1, b.arg_count + 1):
        out.append(b.locals[l]['ty'])
    return out


def _atomic_field(an, term, owner, field):
    if not term.args:
        return False
    src = sources(an, term.args[0])
    return ('field', '%s.%s' % (owner, field)) in src


def _check_cancel_drops(ctx, an, b, y, held, what):
    """on the cancel path from this Yield every held guard local is dropped before CoroutineDrop"""
    if not held or y.term.cdrop is None:
        if held and y.term.cdrop is None:
            ctx.ob('R03.2', 'suspension point has a cancel edge', False, ctx.where(b, y.term.line), 'Yield without drop target', construct='yield:no-cancel-edge')
        return
    ends = an.exits()['cancel']
    for g in held:
        drops = [blk.idx for blk in b.blocks if blk.term.kind == 'drop' and blk.term.place.is_local() and blk.term.place.local == g]
        esc = an.reach([y.term.cdrop], ('normal',), avoid=drops)
        ok = not any(e in esc for e in ends) and bool(drops)
        ctx.ob('R03.2', '%s dropped on the cancel path' % what, ok, ctx.where(b, y.term.line),
               'the coroutine-drop path from this await reaches its end without dropping _%d' % g if not ok else '',
               construct='cancel-path:%s:%s' % (what.replace(' ', '-'), b.name))

"""C18 - postgres Config translation is total, complete and follows the override rules."""
import re
from .mcommon import calls_named, in_cycle, branch_condition
from .roles import adt_of
from .facts import strip_generics, Operand, Place
from .analysis import sources, success_edges, reach_without_edges
from .engine import Undecided
from .rules_C14 import closure_args_of
from . import preds, poscontrol

TECHNIQUE = 'struct-field coverage (every field of Config, enumerated from the ADT definition, must reach the same-named tokio_postgres::Config setter by def-use origin), dominance order of the host / port groups and of the URL parse, error-constructor branch tables, variant tables of the From impls, panic-site inventory'
LEVEL_TEXT = 'static analysis of every path of get_pg_config, builder, create_pool and the enum conversions of deadpool-postgres'
EXPLANATION = ('Decided: every field of deadpool_postgres::Config (enumerated from the struct under the analysed cfg) is read in get_pg_config and reaches '
               'the tokio_postgres::Config setter of the same name (host|hosts -> host, hostaddr|hostaddrs -> hostaddr, port|ports -> port; url feeds '
               'from_str; manager and pool are consumed by builder); the URL parse precedes every setter; singular precedes plural in each group; the '
               'default hosts are added only on the true branch of get_hosts().is_empty(), evaluated after host and hosts; user and dbname pass a '
               'non-empty filter; None / "" of get_dbname() map to DbnameMissing / DbnameEmpty, a URL parse error to InvalidUrl; each enum From impl maps '
               'variant to same-named variant; no panic site in the five functions; builder passes pool and manager config through; create_pool sets the '
               'runtime iff given and maps the build error to CreatePoolError::Build.')

CFG = 'deadpool_postgres::config::Config'
PGC = 'tokio_postgres::Config::'
GROUP = {'hosts': 'host', 'hostaddrs': 'hostaddr', 'ports': 'port'}
EXCLUDED = {'url': 'feeds tokio_postgres::Config::from_str', 'manager': 'consumed by builder() via get_manager_config()', 'pool': 'consumed by builder() via get_pool_config()'}

ITER_ALTER = ('filter', 'skip', 'take', 'step_by', 'rev', 'skip_while', 'take_while', 'filter_map', 'dedup', 'dedup_by', 'dedup_by_key', 'sort', 'sort_by', 'sort_by_key', 'sort_unstable',
              'sort_unstable_by', 'reverse', 'retain', 'truncate', 'drain', 'remove', 'swap_remove', 'pop', 'clear', 'split_off', 'rotate_left', 'rotate_right', 'swap', 'last', 'nth', 'find', 'max', 'min')
ITER_PASS = ('map', 'collect', 'to_vec', 'to_owned', 'extend', 'iter', 'into_iter', 'iter_mut', 'flatten', 'copied', 'cloned', 'as_ref', 'as_deref', 'as_slice', 'deref', 'by_ref', 'peekable', 'fuse', 'as_mut', 'borrow', 'clone', 'into', 'as_str', 'unwrap', 'branch')


def ordered_fields(an, op, depth=0, seen=None):
    """Config fields feeding the value / iterator in `op`, in the order in which an iteration yields them
    (`a.iter().chain(b.iter().flatten())` yields a's element first); (fields, ordered?)"""
    seen = seen if seen is not None else set()
    if depth == 0:
        ordered_fields.altered = []
    if op.kind == 'const' or depth > 40:
        return [], True
    p = op.place
    mine = [f for o_, f in p.fields() if o_ == CFG]
    if mine:
        return [mine[0]], True
    if p.local in seen:
        return [], True
    seen.add(p.local)
    out = []; ordered = True
    # the collection is changed in place on the way (`hosts.dedup()`): calls that receive `&mut` of this local
    for blk_ in an.b.blocks:
        t_ = blk_.term
        if t_.kind == 'call' and not blk_.cleanup and t_.args and t_.args[0].kind != 'const' and not t_.args[0].place.proj:
            d0 = an.single_def(t_.args[0].place.local)
            if d0 and d0[0] == 'stmt' and d0[3].rv.kind == 'ref' and d0[3].rv.place.local == p.local and not d0[3].rv.place.proj:
                m_ = {strip_generics(n).split('::')[-1] for n in t_.callee_names()}
                if m_ & set(ITER_ALTER):
                    ordered_fields.altered.append((sorted(m_ & set(ITER_ALTER))[0], t_.line))
    for d in an.defs(p.local):
        if d[0] == 'stmt':
            rv = d[3].rv
            if rv.kind in ('use', 'cast', 'agg', 'repeat'):
                for o in rv.ops:
                    f_, k_ = ordered_fields(an, o, depth + 1, seen); out += [x for x in f_ if x not in out]; ordered = ordered and k_
            elif rv.kind in ('ref', 'copyderef', 'rawptr', 'discr'):
                f_, k_ = ordered_fields(an, Operand({'c': {'l': rv.place.local, 'pr': list(rv.place.proj), 'own': list(rv.place.own)}}), depth + 1, seen)
                out += [x for x in f_ if x not in out]; ordered = ordered and k_
        else:
            t = d[3]
            meth = {strip_generics(n).split('::')[-1] for n in t.callee_names()}
            if meth & set(ITER_ALTER) and any('Iterator' in n or 'iter::' in n for n in t.callee_names()):
                ordered_fields.altered.append((sorted(meth & set(ITER_ALTER))[0], t.line))
            if 'chain' in meth and len(t.args) == 2:
                a, ka = ordered_fields(an, t.args[0], depth + 1, seen); b, kb = ordered_fields(an, t.args[1], depth + 1, seen)
                out += [x for x in a + b if x not in out]; ordered = ordered and ka and kb
            elif (meth & set(ITER_PASS) or meth & set(ITER_ALTER) or 'next' in meth) and t.args:
                f_, k_ = ordered_fields(an, t.args[0], depth + 1, seen); out += [x for x in f_ if x not in out]; ordered = ordered and k_
            else:
                fl = sorted({s_[1].split('.')[-1] for a in t.args for s_ in sources(an, a, deep=True) if s_[0] == 'field' and s_[1].startswith(CFG + '.')})
                out += [x for x in fl if x not in out]
                if len(fl) > 1:
                    ordered = False
    return out, ordered



def run(ctx):
    prog = ctx.prog
    c = prog.crates.get('deadpool_postgres')
    if c is None:
        raise Undecided('deadpool_postgres not extracted')
    g = prog.body('deadpool_postgres::config::Config::get_pg_config')
    if g is None:
        raise Undecided('get_pg_config not found')
    ctx.saw(g)
    an = prog.an(g)
    adt = c.adt(CFG)
    fields = [f['name'] for f in adt['variants'][0]['fields']]
    ctx.role('Config fields', fields)
    setters = {}
    areg = preds.assertion_region_blocks(g, an)
    for blk in g.blocks:
        t = blk.term
        if t.kind == 'call' and not blk.cleanup:
            for n in t.callee_names():
                if n.startswith(PGC):
                    if n[len(PGC):].startswith('get_') and blk.idx in areg:
                        continue          # a getter read by a debug assertion decides nothing
                    setters.setdefault(n[len(PGC):], []).append(blk)

    # application sites of each setter: (position in get_pg_config, Config fields applied there in order, iterated?, order known?)
    # - a call in get_pg_config itself, or in a closure handed to Iterator::for_each there (positioned at the for_each)
    sites = {}
    for name, blks in setters.items():
        for blk in blks:
            fl = []; ordered = True
            for a in blk.term.args[1:]:
                f_, k_ = ordered_fields(an, a); fl += [x for x in f_ if x not in fl]; ordered = ordered and k_
                for m_, ln_ in ordered_fields.altered:
                    ctx.ob('R18.2', 'every configured value reaches %s, in the order given' % name, False, ctx.where(g, ln_),
                           '`%s` on the way from %s to tokio_postgres::Config::%s drops or reorders values' % (m_, fl, name), construct='altered:%s:%s' % (name, m_))
            sites.setdefault(name, []).append((blk, fl, in_cycle(an, blk.idx), ordered))
    for fblk, cb in closure_args_of(prog, g, ['std::iter::Iterator::for_each']):
        can = prog.an(cb)
        for blk in cb.blocks:
            t = blk.term
            if t.kind == 'call' and not blk.cleanup:
                for n in t.callee_names():
                    if n.startswith(PGC) and not n[len(PGC):].startswith('get_'):
                        from_param = any(s_[0] == 'arg' for a in t.args[1:] for s_ in sources(can, a, deep=True))
                        fl, ordered = ordered_fields(an, fblk.term.args[0]) if from_param else ([], True)
                        for m_, ln_ in (ordered_fields.altered if from_param else []):
                            ctx.ob('R18.2', 'every configured value reaches %s, in the order given' % n[len(PGC):], False, ctx.where(g, ln_),
                                   '`%s` on the way from %s to tokio_postgres::Config::%s drops or reorders values' % (m_, fl, n[len(PGC):]), construct='altered:%s:%s' % (n[len(PGC):], m_))
                        sites.setdefault(n[len(PGC):], []).append((fblk, fl, True, ordered))
                        setters.setdefault(n[len(PGC):], [])
    # ---- R18.1 field coverage ----------------------------------------------------------------------------
    unread = []
    for f in fields:
        if f in EXCLUDED:
            continue
        setter = GROUP.get(f, f)
        hit = [blk for blk, fl, looped, ordered in sites.get(setter, []) if f in fl]
        if not hit:
            unread.append(f)
        ctx.ob('R18.1', 'Config.%s reaches tokio_postgres::Config::%s' % (f, setter), bool(hit), ctx.where(g),
               'the option is accepted and documented but never applied' if not hit else '', construct='config-field:' + f, sites=[ctx.where(g, x.term.line) for x in hit])
    # a scalar option that is set is applied whatever its value (only an empty user / dbname counts as unset - R18.3): from the
    # Some arm of the first test of the field no path reaches the function's end around the setter
    cadt = {f_['name']: f_ for f_ in adt['variants'][0]['fields']}
    for f in fields:
        if f in EXCLUDED or f in ('user', 'dbname') or f in GROUP or f in GROUP.values():
            continue
        if 'std::vec::Vec' in cadt[f]['ty']:
            continue
        setter = GROUP.get(f, f)
        hit = [blk for blk, fl, looped, ordered in sites.get(setter, []) if f in fl and blk.idx < len(g.blocks) and g.blocks[blk.idx] is blk]
        if not hit:
            continue
        tests = [x for x in g.blocks if x.term.kind == 'switch' and not x.cleanup and x.term.j.get('adt') == 'std::option::Option' and 'on' in x.term.j and
                 any(s_[0] == 'field' and s_[1] == '%s.%s' % (CFG, f) for s_ in sources(an, Operand({'c': x.term.j['on']}))) and
                 not any(s_[0] == 'agg' for s_ in sources(an, Operand({'c': x.term.j['on']})))]
        tests = [x for x in tests if all(an.dominates(x.idx, y.idx) for y in tests)]
        if len(tests) != 1:
            continue
        arms_ = dict(tests[0].term.switch_arms())
        if 'Some' not in arms_:
            continue
        esc = an.reach([arms_['Some']], ('normal',), avoid=[h.idx for h in hit] + ([arms_['None']] if 'None' in arms_ else []))
        around = [e for e in an.exits()['return'] if e in esc and not any(bb == e and cls in ('err', 'residual') for bb, cls, det in an.ret_assignments())]
        okv = not around
        ctx.ob('R18.1', 'Config.%s, when set, is applied whatever its value' % f, okv, ctx.where(g, tests[0].term.line),
               'a path from `%s` being Some reaches the end of get_pg_config without %s(): a value that is set (an empty string, say) is dropped' % (f, setter) if not okv else '',
               construct='config-field-conditional:' + f)
    if unread:
        ctx.ob('R18.1', 'no Config field is ignored', False, ctx.where(g), 'never applied: %s' % unread, construct='config-field-unread:' + '|'.join(unread))
    fs = [blk for blk in g.blocks if blk.term.kind == 'call' and not blk.cleanup and any(n.endswith('FromStr>::from_str') or n.endswith('FromStr::from_str') for n in blk.term.callee_names())]
    oku = len(fs) == 1 and any(s[0] == 'field' and s[1] == CFG + '.url' for s in sources(an, fs[0].term.args[0], deep=True))
    ctx.ob('R18.1', 'Config.url feeds tokio_postgres::Config::from_str', oku, ctx.where(g), '', construct='config-field:url')
    ctx.floor('R18.1', 'fields of Config', len(fields), 20)

    # ---- R18.2 order ------------------------------------------------------------------------------------------
    all_set = [blk for k, v in setters.items() for blk in v if not k.startswith('get_') and k not in ('new',)]
    if fs:
        late = [x for x in all_set if not (an.dominates(fs[0].idx, x.idx) or x.idx not in an.reach_after(fs[0].idx, ('normal',)) and not an.dominates(x.idx, fs[0].idx))]
        # the url branch and the `new()` branch join before any setter: no setter may dominate or precede the parse
        before = [x for x in all_set if fs[0].idx in an.reach_after(x.idx, ('normal',))]
        ctx.ob('R18.2', 'the URL is parsed before any option is applied (scalars override the URL)', not before, ctx.where(g, fs[0].term.line),
               'setters at line(s) %s precede the URL parse' % [x.term.line for x in before], construct='order:url-first')
    def field_calls(setter, f):
        return [blk for blk, fl, looped, ordered in sites.get(setter, []) if f in fl]
    for plural, singular in GROUP.items():
        sa = [(blk, fl.index(singular), ordered) for blk, fl, looped, ordered in sites.get(singular, []) if singular in fl]
        sb = [(blk, fl.index(plural), ordered, looped) for blk, fl, looped, ordered in sites.get(singular, []) if plural in fl]
        if any(not o_ for _, _, o_ in sa) or any(not o_ for _, _, o_, _ in sb):
            ctx.undecide('R18.2', 'the order in which %s and %s reach the setter is not understood (computed through a call that mixes them)' % (singular, plural)); continue
        def before(x, i, y, j):
            if x.idx == y.idx:
                return i < j
            return y.idx in an.reach_after(x.idx, ('normal',)) and x.idx not in an.reach_after(y.idx, ('normal',))
        ok = bool(sa) and bool(sb) and all(before(x, i, y, j) for x, i, _ in sa for y, j, _, _ in sb)
        ctx.ob('R18.2', '%s is applied before %s' % (singular, plural), ok, ctx.where(g), '', construct='order:%s<%s' % (singular, plural))
        for y, j, _, looped in sb:
            ctx.ob('R18.2', 'every element of %s is applied (loop)' % plural, looped, ctx.where(g, y.term.line), '', construct='loop:' + plural)
    gh = setters.get('get_hosts', [])
    hp = setters.get('host_path', []) + [x for x in setters.get('host', []) if not field_calls('host', 'host') or x not in field_calls('host', 'host') + field_calls('host', 'hosts')]
    if len(gh) != 1:
        ctx.ob('R18.2', 'default hosts depend on get_hosts()', False, ctx.where(g), '%d get_hosts calls' % len(gh), construct='default-hosts:test')
    else:
        emp = [blk for blk in g.blocks if blk.term.kind == 'call' and not blk.cleanup and any(n.endswith('::is_empty') for n in blk.term.callee_names()) and
               any(s[0] == 'call' and s[2] == gh[0].idx for s in sources(an, blk.term.args[0], deep=True))]
        sws = [blk for blk in g.blocks if blk.term.kind == 'switch' and blk.term.j.get('dty') == 'bool' and emp and any(s[0] == 'call' and s[2] == emp[0].idx for s in sources(an, blk.term.discr))]
        if len(sws) != 1:
            ctx.ob('R18.2', 'default hosts depend on get_hosts().is_empty()', False, ctx.where(g), '', construct='default-hosts:test')
        else:
            arms = dict(sws[0].term.switch_arms())
            rt = an.reach([arms['true']], ('normal',), avoid=[arms['false']]); rf = an.reach([arms['false']], ('normal',), avoid=[arms['true']])
            ok = bool(hp) and all(x.idx in rt and x.idx not in rf for x in hp)
            ctx.ob('R18.2', 'default socket directories / 127.0.0.1 only when no host is given', ok, ctx.where(g, sws[0].term.line), '%d default-host calls' % len(hp), construct='default-hosts:branch',
                   sites=[ctx.where(g, x.term.line) for x in hp])
            hs = field_calls('host', 'host') + field_calls('host', 'hosts')
            okh = all(gh[0].idx in an.reach_after(x.idx, ('normal',)) for x in hs) and not any(x.idx in an.reach_after(gh[0].idx, ('normal',)) for x in hs)
            ctx.ob('R18.2', 'the emptiness test is evaluated after host and hosts were applied', okh, ctx.where(g, gh[0].term.line), '', construct='default-hosts:after-hosts')

    # ---- R18.3 filters and error mapping -------------------------------------------------------------------------
    for f in ('user', 'dbname'):
        for blk in field_calls(f, f):
            src = set()
            for a in blk.term.args[1:]:
                src |= sources(an, a, deep=True)
            fl = [s for s in src if s[0] == 'call' and s[1].endswith('Option::filter')]
            okf = False
            for s in fl:
                for cblk, cb in closure_args_of(prog, g, ['std::option::Option::filter']):
                    if cblk.idx == s[2]:
                        can = prog.an(cb)
                        ie = [x for x in cb.blocks if x.term.kind == 'call' and any(n.endswith('::is_empty') for n in x.term.callee_names())]
                        nots = any(st.kind == 'assign' and st.rv.kind == 'un' and st.rv.binop == 'Not' for x in cb.blocks for st in x.stmts)
                        okf = bool(ie) and nots
            if not okf:
                # on the normal form (`filter` written out, its closure inlined): the setter is reached only from the arm on which the
                # value is NOT empty
                for sw_ in g.blocks:
                    if sw_.term.kind != 'switch' or sw_.term.j.get('dty') != 'bool' or sw_.cleanup or sw_.term.discr.kind == 'const':
                        continue
                    ds_ = sources(an, sw_.term.discr, deep=True)
                    if not (any(s_[0] == 'call' and s_[1].endswith('::is_empty') for s_ in ds_) and any(s_[0] == 'field' and s_[1] == '%s.%s' % (CFG, f) for s_ in ds_)):
                        continue
                    neg_ = False
                    l_ = sw_.term.discr.place.local if not sw_.term.discr.place.proj else None
                    for _ in range(6):
                        d_ = an.single_def(l_) if l_ is not None else None
                        if d_ and d_[0] == 'stmt' and d_[3].rv.kind == 'un' and d_[3].rv.binop == 'Not':
                            neg_ = not neg_; l_ = d_[3].rv.ops[0].place.local if d_[3].rv.ops[0].kind != 'const' else None; continue
                        if d_ and d_[0] == 'stmt' and d_[3].rv.kind == 'use' and d_[3].rv.ops[0].kind != 'const' and not d_[3].rv.ops[0].place.proj:
                            l_ = d_[3].rv.ops[0].place.local; continue
                        break
                    arms_ = dict(sw_.term.switch_arms())
                    empty_arm = arms_['false' if neg_ else 'true']; full_arm = arms_['true' if neg_ else 'false']
                    if blk.idx not in an.reach([empty_arm], ('normal',), avoid=[full_arm]) and blk.idx in an.reach([full_arm], ('normal',), avoid=[empty_arm]):
                        okf = True
            ctx.ob('R18.3', 'an empty %s counts as unset' % f, okf, ctx.where(g, blk.term.line), '', construct='nonempty:' + f)
    errs = {}
    for blk in g.blocks:
        if blk.cleanup:
            continue
        for s in blk.stmts:
            if s.kind == 'assign' and s.rv.kind == 'agg' and s.rv.j.get('adt') == 'deadpool_postgres::config::ConfigError':
                errs.setdefault(s.rv.j['variant'], []).append(blk)
    gd = setters.get('get_dbname', [])
    okm = oke = False
    if len(gd) == 1:
        sw = [blk for blk in g.blocks if blk.term.kind == 'switch' and blk.term.j.get('adt') == 'std::option::Option' and 'on' in blk.term.j and
              any(s[0] == 'call' and s[2] == gd[0].idx for s in sources(an, Operand({'c': blk.term.j['on']})))]
        if sw:
            arms = dict(sw[0].term.switch_arms())
            rn = an.reach([arms['None']], ('normal',), avoid=[arms['Some']])
            dm = errs.get('DbnameMissing', [])
            def feeds_none_arm(x):
                # `get_dbname().ok_or(DbnameMissing)?`: the error value is built before the test and used on its None arm only
                ls = [st.place.local for st in x.stmts if st.kind == 'assign' and st.rv.kind == 'agg' and st.rv.j.get('adt') == 'deadpool_postgres::config::ConfigError' and st.rv.j.get('variant') == 'DbnameMissing' and st.place.is_local()]
                users = [(y.idx, st) for y in g.blocks if not y.cleanup for st in y.stmts if st.kind == 'assign' and st.rv.kind == 'agg' and st.rv.j.get('adt') == 'std::result::Result' and st.rv.j.get('variant') == 'Err'
                         and any(o.kind != 'const' and any(s_[0] == 'agg' and s_[1].endswith('ConfigError::DbnameMissing') and s_[2] == x.idx for s_ in sources(an, o)) for o in st.rv.ops)]
                return bool(ls) and bool(users) and all(u in rn and u not in an.reach([arms['Some']], ('normal',), avoid=[arms['None']]) for u, _ in users)
            inside = [x for x in dm if x.idx in rn or feeds_none_arm(x)]
            # a shortcut taken before the configuration is built - no URL and no (non-empty) dbname field - gives the same answer
            def shortcut(x):
                fl = set()
                for d_ in an.doms(('normal',)).get(x.idx) or ():
                    bd_ = g.blocks[d_]
                    if bd_.term.kind == 'switch' and bd_.term.discr.kind != 'const':
                        fl |= {s_[1] for s_ in sources(an, bd_.term.discr, deep=True) if s_[0] == 'field'}
                        if 'on' in bd_.term.j:
                            fl |= {s_[1] for s_ in sources(an, Operand({'c': bd_.term.j['on']}), deep=True) if s_[0] == 'field'}
                return CFG + '.url' in fl and CFG + '.dbname' in fl and not any(gd[0].idx in an.doms(('normal',)).get(x.idx, ()) for _ in [0])
            okm = len(inside) == 1 and all(shortcut(x) for x in dm if x not in inside)
            rs = an.reach([arms['Some']], ('normal',), avoid=[arms['None']])
            em = errs.get('DbnameEmpty', [])
            if len(em) == 1 and em[0].idx in rs and em[0].idx not in rn:
                # governed by a comparison with the empty string
                eqs = [blk for blk in g.blocks if blk.term.kind == 'call' and not blk.cleanup and any(n.endswith('::eq') for n in blk.term.callee_names()) and blk.idx in rs]
                for e in eqs:
                    a = set()
                    for x in e.term.args:
                        a |= sources(an, x, deep=True)
                    if any(s[0] == 'const' and s[1] == '""' for s in a) and any(s[0] == 'call' and s[2] == gd[0].idx for s in a):
                        oke = True
                if not oke:
                    # pattern match on a string literal compiles to a call of <str as PartialEq>::eq as well; also accept is_empty()
                    ie = [blk for blk in g.blocks if blk.term.kind == 'call' and blk.idx in rs and any(n.endswith('str::is_empty') for n in blk.term.callee_names())]
                    oke = bool(ie)
    ctx.ob('R18.3', 'a missing dbname is reported as DbnameMissing', okm, ctx.where(g), '', construct='error:DbnameMissing')
    ctx.ob('R18.3', 'an empty dbname is reported as DbnameEmpty', oke, ctx.where(g), '', construct='error:DbnameEmpty')
    if fs:
        me = [blk for blk in g.blocks if blk.term.kind == 'call' and not blk.cleanup and 'std::result::Result::map_err' in blk.term.callee_names() and
              any(s[0] == 'call' and s[2] == fs[0].idx for s in sources(an, blk.term.args[0]))]
        oki = len(me) == 1 and 'InvalidUrl' in an.resolve_operand(me[0].term.args[1])
        if not oki and not me:
            # the same mapping spelled with another combinator / a closure / a match: the parse result is consumed by exactly one
            # construct that builds InvalidUrl from the parse error, and by nothing that discards the error
            users_ = [blk for blk in g.blocks if blk.term.kind == 'call' and not blk.cleanup and blk.idx != fs[0].idx and blk.term.args and
                      any(s_[0] == 'call' and s_[2] == fs[0].idx for s_ in sources(an, blk.term.args[0]))]
            discard_ = [x for x in users_ if x.term.callee_names() & {'std::result::Result::ok', 'std::result::Result::unwrap_or', 'std::result::Result::unwrap_or_default', 'std::result::Result::unwrap_or_else'}]
            built = 0
            for x in users_:
                for cblk_, cb_ in closure_args_of(prog, g, sorted(x.term.callee_names())):
                    if cblk_.idx == x.idx:
                        built += len([1 for y in cb_.blocks for st_ in y.stmts if st_.kind == 'assign' and st_.rv.kind == 'agg' and st_.rv.j.get('adt', '').endswith('ConfigError') and st_.rv.j.get('variant') == 'InvalidUrl' and not y.cleanup])
            built += len([1 for y in g.blocks for st_ in y.stmts if st_.kind == 'assign' and st_.rv.kind == 'agg' and st_.rv.j.get('adt', '').endswith('ConfigError') and st_.rv.j.get('variant') == 'InvalidUrl' and not y.cleanup])
            oki = built == 1 and not discard_
        ctx.ob('R18.3', 'a URL parse error is reported as InvalidUrl', oki, ctx.where(g, fs[0].term.line), '', construct='error:InvalidUrl')
    ctx.ob('R18.3', 'no other configuration error is produced', set(errs) <= {'DbnameMissing', 'DbnameEmpty', 'InvalidUrl'}, ctx.where(g), str(sorted(errs)), construct='error:others')
    # enum conversions
    n_from = 0
    for b in c.bodies:
        if b.j.get('impl_trait') == 'std::convert::From' and b.path.endswith('::from') and b.j.get('impl_self', '').startswith('tokio_postgres::config::'):
            ban = prog.an(b)
            sw = [blk for blk in b.blocks if blk.term.kind == 'switch' and blk.term.j.get('variants')]
            if len(sw) != 1:
                continue
            n_from += 1
            ctx.saw(b)
            arms = dict(sw[0].term.switch_arms())
            for lab, tgt in arms.items():
                if lab == 'otherwise':
                    continue
                others = [t for l2, t in arms.items() if l2 != lab]
                reach = ban.reach([tgt], ('normal',), avoid=others)
                made = sorted({s.rv.j['variant'] for x in reach for s in b.blocks[x].stmts if s.kind == 'assign' and s.rv.kind == 'agg' and s.place.local == 0})
                ctx.ob('R18.3', '%s::%s converts to the same-named variant' % (sw[0].term.j['adt'].split('::')[-1], lab), made == [lab], ctx.where(b, sw[0].term.line),
                       'maps to %s' % made, construct='from:%s:%s' % (sw[0].term.j['adt'].split('::')[-1], lab))
    ctx.floor('R18.3', 'enum From impls towards tokio_postgres', n_from, 4)

    # ---- R18.4 no panic site ------------------------------------------------------------------------------------------
    fns = ['get_pg_config', 'builder', 'create_pool', 'get_pool_config', 'get_manager_config']
    n_calls = 0
    for fn in fns:
        b = prog.body('deadpool_postgres::config::Config::' + fn)
        if b is None:
            ctx.undecide('R18.4', 'Config::%s not found' % fn); continue
        ctx.saw(b)
        for p in sorted(prog.region([b.path])):
            if not p.startswith('deadpool_postgres::config') and not p.startswith('<deadpool_postgres::config'):
                continue
            bb = prog.bodies[p]
            afail = preds.assertion_failure_blocks(bb, prog.an(bb))
            for blk in bb.blocks:
                if blk.cleanup or blk.idx in afail:
                    continue          # (the failure branch of a debug assertion: assumed to hold, counted in the evidence)
                t = blk.term
                if t.kind == 'assert':
                    ctx.ob('R18.4', 'no assert in the configuration path', False, ctx.where(bb, t.line), t.j['msg'], construct='panic:assert:' + bb.name)
                if t.kind == 'call':
                    n_calls += 1
                    bad = preds.panic_call_names(t.callee_names())
                    if bad:
                        ctx.ob('R18.4', 'no panic site in the configuration path', False, ctx.where(bb, t.line), '/'.join(bad), construct='panic:%s:%s' % (bb.name, bad[0].split('::')[-1]))
    ctx.ob('R18.4', 'no panic site found among the calls of the configuration functions', True, '', '%d calls scanned' % n_calls, construct='panic:none', sites=[str(n_calls)])
    ctx.floor('R18.4', 'calls scanned in the configuration path', n_calls, 60)
    poscontrol.assert_controls(ctx, ['panic:', 'assert:'])

    # ---- R18.5 pass-through --------------------------------------------------------------------------------------------------
    bl = prog.body('deadpool_postgres::config::Config::builder')
    if bl is not None:
        ban = prog.an(bl)
        pc = [blk for blk in bl.blocks if blk.term.kind == 'call' and not blk.cleanup and blk.term.rcallee and strip_generics(blk.term.rcallee).endswith('PoolBuilder::config')]
        okp = len(pc) == 1 and any(s[0] == 'call' and s[1].endswith('Config::get_pool_config') for s in sources(ban, pc[0].term.args[1]))
        ctx.ob('R18.5', 'builder passes get_pool_config() to PoolBuilder::config', okp, ctx.where(bl), '', construct='builder:pool-config')
        mc = [blk for blk in bl.blocks if blk.term.kind == 'call' and not blk.cleanup and blk.term.rcallee and strip_generics(blk.term.rcallee) == 'deadpool_postgres::Manager::from_config']
        okm = len(mc) == 1 and any(s[0] == 'call' and s[1].endswith('Config::get_manager_config') for s in sources(ban, mc[0].term.args[2])) and \
            any(s[0] == 'call' and s[1].endswith('Config::get_pg_config') for s in sources(ban, mc[0].term.args[0], deep=True))
        ctx.ob('R18.5', 'builder passes get_manager_config() and get_pg_config() to Manager::from_config', okm, ctx.where(bl), '', construct='builder:manager-config')
    for fn, fld in (('get_pool_config', 'pool'), ('get_manager_config', 'manager')):
        b = prog.body('deadpool_postgres::config::Config::' + fn)
        if b is None:
            continue
        ban = prog.an(b)
        src = set()
        for blk in b.blocks:
            if blk.term.kind == 'call' and blk.term.dest is not None and blk.term.dest.local == 0:
                for a in blk.term.args:
                    src |= sources(ban, a, deep=True)
            for st in blk.stmts:
                if st.kind == 'assign' and st.place.is_local() and st.place.local == 0 and not blk.cleanup:
                    for o in st.rv.ops:
                        src |= sources(ban, o, deep=True)
        ctx.ob('R18.5', '%s returns the %s section unchanged (or its default)' % (fn, fld), any(s[0] == 'field' and s[1] == '%s.%s' % (CFG, fld) for s in src), ctx.where(b), '', construct='section:' + fld)
    cp = prog.body('deadpool_postgres::config::Config::create_pool')
    if cp is not None:
        can = prog.an(cp)
        rt = [blk for blk in cp.blocks if blk.term.kind == 'call' and not blk.cleanup and blk.term.rcallee and strip_generics(blk.term.rcallee).endswith('PoolBuilder::runtime')]
        sw = [blk for blk in cp.blocks if blk.term.kind == 'switch' and blk.term.j.get('adt') == 'std::option::Option' and 'on' in blk.term.j and
              any(s[0] == 'arg' and s[1] == 'runtime' for s in sources(can, Operand({'c': blk.term.j['on']})))]
        ok = len(rt) == 1 and len(sw) == 1
        if ok:
            arms = dict(sw[0].term.switch_arms())
            ok = rt[0].idx in can.reach([arms['Some']], ('normal',), avoid=[arms['None']]) and rt[0].idx not in can.reach([arms['None']], ('normal',), avoid=[arms['Some']])
            ok = ok and any(s[0] == 'arg' and s[1] == 'runtime' for s in sources(can, rt[0].term.args[1]))
        ctx.ob('R18.5', 'create_pool sets the runtime iff one is given', ok, ctx.where(cp), '', construct='create_pool:runtime')
        bd = [blk for blk in cp.blocks if blk.term.kind == 'call' and not blk.cleanup and blk.term.rcallee and strip_generics(blk.term.rcallee).endswith('PoolBuilder::build')]
        me = [blk for blk in cp.blocks if blk.term.kind == 'call' and not blk.cleanup and 'std::result::Result::map_err' in blk.term.callee_names() and bd and
              any(s[0] == 'call' and s[2] == bd[0].idx for s in sources(can, blk.term.args[0]))]
        okb = len(bd) == 1 and len(me) == 1 and 'Build' in can.resolve_operand(me[0].term.args[1]) and me[0].term.dest.local == 0
        if not okb and len(bd) == 1 and not me:
            # `Ok(builder.build()?)`: the error travels through `?`, i.e. through `From<BuildError> for CreatePoolError<_>` - which must
            # exist exactly once and map to the Build variant
            q_ = [blk for blk in cp.blocks if blk.term.kind == 'call' and not blk.cleanup and any(n_.endswith('Try::branch') or n_.endswith('Try>::branch') for n_ in blk.term.callee_names()) and
                  any(s_[0] == 'call' and s_[2] == bd[0].idx for s_ in sources(can, blk.term.args[0]))]
            fr = [b_ for b_ in prog.bodies.values() if b_.j.get('impl_trait') == 'std::convert::From' and 'CreatePoolError' in (b_.j.get('impl_self') or '') and re.search(r'From<deadpool::managed::(\w+::)?BuildError>', b_.j.get('impl_trait_ref') or '')]
            made = sorted({st_.rv.j['variant'] for b_ in fr for blk_ in b_.blocks for st_ in blk_.stmts if st_.kind == 'assign' and st_.rv.kind == 'agg' and 'CreatePoolError' in st_.rv.j.get('adt', '')})
            okb = len(q_) == 1 and len(fr) == 1 and made == ['Build']
        ctx.ob('R18.5', 'create_pool reports a build error (timeouts without runtime) as CreatePoolError::Build', okb, ctx.where(cp), '', construct='create_pool:build-error')

    # ---- R18.6 the build error itself: PoolBuilder::build() refuses every configured timeout without a runtime ---------------
    # (the last clause of C18 rests on it: "create_pool reports timeouts configured without a runtime as a build error")
    from .mcommon import roles as managed_roles
    from .rules_C10 import build_runtime_check
    build_runtime_check(ctx, managed_roles(ctx), 'R18.6')

    ctx.not_decided += ["tokio_postgres::Config's own parsing and setter semantics (e.g. that host() appends)"]
    ctx.assumptions += ['tokio_postgres::Config setters of the same name put the option into effect; host/hostaddr/port append']

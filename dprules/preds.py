"""Predicates shared by the zero-expected rules and by the positive controls."""

FORBIDDEN_SPAWN_PREFIX = ('tokio::spawn', 'tokio::task::spawn', 'tokio::runtime::', 'std::thread::spawn', 'std::thread::Builder',
                          'deadpool_runtime::Runtime::spawn_blocking', 'tokio::time::sleep', 'tokio::time::interval', 'async_std::task::spawn')


def spawn_names(names):
    return [n for n in names if n.startswith(FORBIDDEN_SPAWN_PREFIX)]


def panic_call_names(names):
    return [n for n in names if n.split('::')[-1] in ('unwrap', 'expect', 'unwrap_err', 'expect_err') or n.startswith('core::panicking') or n.startswith('std::panicking')
            or n.startswith('std::rt::begin_panic') or n.startswith('std::rt::panic') or 'Index::index' in n]


def is_panic_assert(term):
    return term.kind == 'assert'


def guard_locals(body):
    return [i for i, l in enumerate(body.locals) if 'std::sync::MutexGuard' in l['parts']['adts'] and not l['ty'].startswith('&')]

"""Predicates shared by the zero-expected rules and by the positive controls."""

FORBIDDEN_SPAWN_PREFIX = ('tokio::spawn', 'tokio::task::spawn', 'tokio::runtime::', 'std::thread::spawn', 'std::thread::Builder',
                          'deadpool_runtime::Runtime::spawn_blocking', 'tokio::time::sleep', 'tokio::time::interval', 'async_std::task::spawn')


def spawn_names(names):
    return [n for n in names if n.startswith(FORBIDDEN_SPAWN_PREFIX)]


def panic_call_names(names):
    return [n for n in names if n.split('::')[-1] in ('unwrap', 'expect', 'unwrap_err', 'expect_err') or n.startswith('core::panicking') or n.startswith('std::panicking')
            or n.startswith('std::rt::begin_panic') or n.startswith('std::rt::panic') or 'Index::index' in n] + std_panicking(names)


# std functions that are documented to panic for some argument values (beyond unwrap / expect / indexing, which have their
# own rules).  Matched on the generic-stripped callee name.
_STD_PANICKING_EXACT = {
    'std::string::String::truncate', 'std::string::String::split_off', 'std::string::String::insert', 'std::string::String::insert_str',
    'std::string::String::remove', 'std::string::String::drain', 'std::string::String::replace_range',
    'core::str::split_at', 'core::str::split_at_mut', 'std::str::split_at',
    'std::vec::Vec::remove', 'std::vec::Vec::swap_remove', 'std::vec::Vec::insert', 'std::vec::Vec::split_off', 'std::vec::Vec::drain',
    'std::vec::Vec::truncate_front', 'std::collections::VecDeque::split_off', 'std::collections::VecDeque::insert', 'std::collections::VecDeque::drain',
    'core::slice::copy_from_slice', 'core::slice::clone_from_slice', 'core::slice::split_at', 'core::slice::swap', 'core::slice::chunks', 'core::slice::windows',
    'std::time::Duration::new', 'std::time::Duration::from_secs_f32', 'std::time::Duration::from_secs_f64', 'std::time::Duration::mul_f32', 'std::time::Duration::mul_f64',
    'std::time::Duration::div_f32', 'std::time::Duration::div_f64', 'std::time::Instant::duration_since', 'std::time::SystemTime::duration_since',
    'std::cell::RefCell::borrow', 'std::cell::RefCell::borrow_mut', 'std::sync::Arc::get_mut_unchecked', 'std::char::from_digit',
    'core::num::abs', 'core::num::pow', 'core::num::div_euclid', 'core::num::rem_euclid', 'core::num::next_power_of_two', 'core::num::ilog2', 'core::num::ilog10', 'core::num::ilog',
}
_STD_PANICKING_OPS = ('std::time::Instant', 'std::time::Duration', 'std::time::SystemTime')


def std_panicking(names):
    """callee names among `names` that can panic by contract: the table above and the arithmetic operator impls of the time types
    (`Instant + Duration`, `Duration * n`, .. panic on overflow; the checked_* / saturating_* forms do not)"""
    out = []
    for n in names:
        if n in _STD_PANICKING_EXACT:
            out.append(n)
        elif n.startswith('<') and ' as std::ops::' in n and n.split(' as ')[0].lstrip('<') in _STD_PANICKING_OPS and \
                n.split('::')[-1] in ('add', 'sub', 'mul', 'div', 'add_assign', 'sub_assign', 'mul_assign', 'div_assign'):
            out.append(n)
    return out


def is_panic_assert(term):
    return term.kind == 'assert'


def guard_locals(body):
    return [i for i, l in enumerate(body.locals) if 'std::sync::MutexGuard' in l['parts']['adts'] and not l['ty'].startswith('&')]


# ---- debug assertions -------------------------------------------------------------------------------------------------------
# `debug_assert!(cond, "msg")` expands to `if cfg!(debug_assertions) { if !cond { panic!("msg") } }`: a switch on a constant
# defined in the block of the switch.  The condition's *evaluation* is ordinary code (an effect hidden in it is seen by every
# rule, and the other build takes the other arm - section 23); the failure branch - message formatting and the panic call - is
# what the predicates below recognise, so that rules about "what else happens here" (work under the lock, extra calls in a
# guard) can leave an assertion's failure branch out.  Assumption recorded in the evidence: debug assertions hold.
ASSERT_MACHINERY = ('std::rt::panic_fmt', 'std::rt::begin_panic', 'core::panicking::', 'std::panicking::', 'std::fmt::Arguments::', 'core::fmt::Arguments::',
                    'core::fmt::rt::Argument::', 'std::fmt::rt::Argument::', 'core::panicking::assert_failed', 'std::rt::panic_display')


def const_switch_blocks(body):
    """blocks whose switch tests a constant defined in the same block (cfg!(..) and friends): [(blk, taken arm target, other targets)]"""
    out = []
    for blk in body.blocks:
        t = blk.term
        if t.kind != 'switch' or blk.cleanup or t.j.get('dty') != 'bool':
            continue
        val = None
        if t.discr.kind == 'const':
            val = str(t.discr.const.get('v'))
        elif not t.discr.place.proj:
            for s in blk.stmts:
                if s.kind == 'assign' and not s.place.proj and s.place.local == t.discr.place.local:
                    val = str(s.rv.ops[0].const.get('v')) if s.rv.kind == 'use' and s.rv.ops and s.rv.ops[0].kind == 'const' else None
        if val in ('true', 'false'):
            arms = dict(t.switch_arms())
            if val in arms:
                out.append((blk, arms[val], [x for l, x in arms.items() if l != val]))
    return out


def assertion_failure_blocks(body, an):
    """blocks that belong to the failure branch of a debug assertion: inside the constant-governed region, every path from
    them ends in a panic (they cannot reach the function's return) and they only call assertion machinery"""
    out = set()
    rets = set(an.exits()['return'])
    for blk, taken, others in const_switch_blocks(body):
        region = an.reach([taken], ('normal',), avoid=others)
        for o in others:
            region = region - an.reach([o], ('normal',), avoid=[taken]) if False else region
        for x in region:
            b = body.blocks[x]
            if b.cleanup:
                continue
            fwd = an.reach([x], ('normal',))
            if fwd & rets:
                continue
            ok = True
            for y in fwd:
                ty = body.blocks[y].term
                if ty.kind == 'call' and not body.blocks[y].cleanup and not any(n.startswith(ASSERT_MACHINERY) for n in ty.callee_names()):
                    ok = False; break
                if ty.kind == 'yield':
                    ok = False; break
            if ok:
                out.add(x)
    return out


def assertion_region_blocks(body, an):
    """blocks that exist only to evaluate (and report) a debug assertion: between a constant-governed switch and the point where
    its two arms meet again"""
    out = set()
    for blk, taken, others in const_switch_blocks(body):
        joins = set()
        for o in others:
            joins |= an.reach([o], ('normal',))
        out |= {x for x in an.reach([taken], ('normal',), avoid=list(others)) if x not in joins}
    return out

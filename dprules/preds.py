"""Predicates shared by the zero-expected rules and by the positive controls."""

FORBIDDEN_SPAWN_PREFIX = ('tokio::spawn', 'tokio::task::spawn', 'tokio::runtime::', 'std::thread::spawn', 'std::thread::Builder',
                          'deadpool_runtime::Runtime::spawn_blocking', 'tokio::time::sleep', 'tokio::time::interval', 'async_std::task::spawn')


def spawn_names(names):
    return [n for n in names if n.startswith(FORBIDDEN_SPAWN_PREFIX)]


def panic_call_names(names):
    return [n for n in names if n.split('::')[-1] in ('unwrap', 'expect', 'unwrap_err', 'expect_err') or n.startswith('core::panicking') or n.startswith('std::panicking')
            or n.startswith('std::rt::begin_panic') or n.startswith('std::rt::panic') or 'Index::index' in n] + std_panicking(names)


# std functions that are documented to panic for some argument values (beyond unwrap / expect / indexing, which have their
# own rules).  Matched on the generic-stripped callee name.
_STD_PANICKING_EXACT = {
    'std::string::String::truncate', 'std::string::String::split_off', 'std::string::String::insert', 'std::string::String::insert_str',
    'std::string::String::remove', 'std::string::String::drain', 'std::string::String::replace_range',
    'core::str::split_at', 'core::str::split_at_mut', 'std::str::split_at',
    'std::vec::Vec::remove', 'std::vec::Vec::swap_remove', 'std::vec::Vec::insert', 'std::vec::Vec::split_off', 'std::vec::Vec::drain',
    'std::vec::Vec::truncate_front', 'std::collections::VecDeque::split_off', 'std::collections::VecDeque::insert', 'std::collections::VecDeque::drain',
    'core::slice::copy_from_slice', 'core::slice::clone_from_slice', 'core::slice::split_at', 'core::slice::swap', 'core::slice::chunks', 'core::slice::windows',
    'std::time::Duration::new', 'std::time::Duration::from_secs_f32', 'std::time::Duration::from_secs_f64', 'std::time::Duration::mul_f32', 'std::time::Duration::mul_f64',
    'std::time::Duration::div_f32', 'std::time::Duration::div_f64', 'std::time::Instant::duration_since', 'std::time::SystemTime::duration_since',
    'std::cell::RefCell::borrow', 'std::cell::RefCell::borrow_mut', 'std::sync::Arc::get_mut_unchecked', 'std::char::from_digit',
    'core::num::abs', 'core::num::pow', 'core::num::div_euclid', 'core::num::rem_euclid', 'core::num::next_power_of_two', 'core::num::ilog2', 'core::num::ilog10', 'core::num::ilog',
}
_STD_PANICKING_OPS = ('std::time::Instant', 'std::time::Duration', 'std::time::SystemTime')


def std_panicking(names):
    """callee names among `names` that can panic by contract: the table above and the arithmetic operator impls of the time types
    (`Instant + Duration`, `Duration * n`, .. panic on overflow; the checked_* / saturating_* forms do not)"""
    out = []
    for n in names:
        if n in _STD_PANICKING_EXACT:
            out.append(n)
        elif n.startswith('<') and ' as std::ops::' in n and n.split(' as ')[0].lstrip('<') in _STD_PANICKING_OPS and \
                n.split('::')[-1] in ('add', 'sub', 'mul', 'div', 'add_assign', 'sub_assign', 'mul_assign', 'div_assign'):
            out.append(n)
    return out


def is_panic_assert(term):
    return term.kind == 'assert'


def guard_locals(body):
    return [i for i, l in enumerate(body.locals) if 'std::sync::MutexGuard' in l['parts']['adts'] and not l['ty'].startswith('&')]

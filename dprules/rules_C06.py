"""C06 - close() is prompt, final and leaves nothing behind."""
from .mcommon import *
from .roles import classify_write, adt_of
from .facts import strip_generics, Operand, Place
from .analysis import sources
from .rules_C04 import pool_error_constructions, acquire_error_mapping
from .rules_C09 import drop_site_audit

TECHNIQUE = 'dominance order in close()/resize(), must-pass-through from Semaphore::close to the return of close() (queue observed empty), error match tables, field-type shape (Weak back reference) on mir_built facts'
LEVEL_TEXT = 'static analysis of every path of close / resize / is_closed / Object::drop / Object::take and the acquisition error mapping'
EXPLANATION = ('Decided: close() calls resize with the constant 0 and then Semaphore::close on the pool semaphore, in that order; after '
               'the semaphore is closed every path to the return of close() observes the idle queue empty under the lock, releasing the '
               'size slot and detaching each object it finds; resize() tests is_closed() before any write and writes nothing on the closed '
               'branch; the semaphore field is never re-assigned; both acquisition forms map the closed state to PoolError::Closed; Object '
               'holds only a Weak reference and drop/take do nothing on a dead upgrade.')


def run(ctx):
    r = roles(ctx)
    prog = ctx.prog
    c = r.CLOSE
    ctx.saw(c)
    can = prog.an(c)

    # ---- R06.1 close = resize(0) ; Semaphore::close ------------------------------
    rz = [blk for blk in c.blocks if blk.term.kind == 'call' and blk.term.rcallee == r.RESIZE.path and not blk.cleanup]
    cl = [blk for blk in c.blocks if r.is_sem_call(c, blk.term, 'close') and not blk.cleanup]
    ok = len(rz) == 1 and len(cl) == 1
    ctx.ob('R06.1', 'close() calls resize once and Semaphore::close once', ok, ctx.where(c), 'resize calls: %d, close calls: %d' % (len(rz), len(cl)),
           construct='close:calls', sites=[ctx.where(c, x.term.line) for x in rz + cl])
    if ok:
        arg = can.resolve_operand(rz[0].term.args[1])
        ctx.ob('R06.1', 'close() resizes to the constant 0', arg == '0_usize', ctx.where(c, rz[0].term.line), 'resize(%s)' % arg, construct='close:resize-arg')
        ctx.ob('R06.1', 'resize(0) precedes Semaphore::close', can.dominates(rz[0].idx, cl[0].idx), ctx.where(c, cl[0].term.line),
               'closing the semaphore first makes resize(0) return early and keep every idle object', construct='close:order')
        rets = can.exits()['return']
        for what, blk in (('resize(0)', rz[0]), ('Semaphore::close', cl[0])):
            esc = can.reach([0], ('normal',), avoid=[blk.idx])
            ctx.ob('R06.1', '%s on every path of close()' % what, not any(e in esc for e in rets), ctx.where(c, blk.term.line), '', construct='close:allpaths:' + what)

        # ---- R06.5 nothing is left behind ------------------------------------------
        # accepted shapes: (a) pop-until-None loop after Semaphore::close, (b) drain/clear of the queue after it
        qc = queue_calls(r, c, can)
        pops = [x for x, m in qc if m in ('pop_front', 'pop_back') and can.dominates(cl[0].idx, x.idx)]
        drains = [x for x, m in qc if m in ('drain', 'clear') and can.dominates(cl[0].idx, x.idx)]
        ok5 = False; detail = 'after Semaphore::close() the idle queue is not emptied: an object returned while close() was shrinking the pool stays in the closed pool'
        if pops:
            none_targets = []
            for blk in c.blocks:
                if blk.term.kind == 'switch' and blk.term.j.get('adt') == 'std::option::Option' and 'on' in blk.term.j:
                    src = sources(can, Operand({'c': blk.term.j['on']}))
                    if any(s[0] == 'call' and s[2] in [p.idx for p in pops] for s in src):
                        nt = dict(blk.term.switch_arms()).get('None')
                        st = dict(blk.term.switch_arms()).get('Some')
                        none_targets.append((blk, nt, st))
            if none_targets:
                esc = can.reach_after(cl[0].idx, ('normal',), avoid=[nt for _, nt, _ in none_targets])
                ok5 = not any(e in esc for e in rets)
                if ok5:
                    # on the Some arm: size -= 1 and detach before the next pop
                    for blk, nt, st in none_targets:
                        decs = [bb for bb, i, s in r.field_writes(c, r.SLOTS, r.SIZE) if classify_write(can, s) == ('-=', '1_usize')]
                        dets = [x.idx for x in manager_calls(c, MANAGER_DETACH)]
                        for what, bbs in (('size -= 1', decs), ('Manager::detach', dets)):
                            esc2 = can.reach([st], ('normal',), avoid=bbs)
                            okk = bool(bbs) and not any(p.idx in esc2 for p in pops) and not any(e in esc2 for e in rets)
                            ctx.ob('R06.5', 'each leftover object: %s' % what, okk, ctx.where(c, blk.term.line), '', construct='close:drain:' + what)
                        g1 = guard_root(can, Place({'l': pops[0].term.args[0].place.local, 'pr': [], 'own': []}))
                        ctx.ob('R06.5', 'drain runs under the slots lock', g1 is not None, ctx.where(c, pops[0].term.line), '', construct='close:drain-lock')
        elif drains:
            ok5 = True
            for d in drains:
                esc = can.reach_after(cl[0].idx, ('normal',), avoid=[d.idx])
                ok5 = ok5 and not any(e in esc for e in rets)
        ctx.ob('R06.5', 'after the semaphore is closed the idle queue is observed empty before close() returns', ok5, ctx.where(c, cl[0].term.line),
               detail if not ok5 else '', construct='close:leftover-idle-objects', sites=[ctx.where(c, p.term.line) for p in pops + drains])

    # ---- R06.7 a closed pool has max_size 0 whatever a concurrent resize did --------------------
    if len(cl) == 1:
        zero = [bb for bb, i, s in r.field_writes(c, r.SLOTS, r.MAX) if classify_write(can, s) == ('=', '0_usize')]
        rets = can.exits()['return']
        esc = can.reach_after(cl[0].idx, ('normal',), avoid=zero)
        okz = bool(zero) and not any(e in esc for e in rets) and all(guard_root(can, s.place) is not None for bb, i, s in r.field_writes(c, r.SLOTS, r.MAX))
        ctx.ob('R06.7', 'after closing the semaphore close() sets max_size to 0 under the lock', okz, ctx.where(c, cl[0].term.line),
               'a resize() that ran between resize(0) and Semaphore::close() leaves the closed pool with its limit: status() does not report max_size 0 and returned objects are kept'
               if not okz else '', construct='close:max-size-not-zeroed')

    # ---- R06.2 resize is a no-op on a closed pool ----------------------------------
    z = r.RESIZE
    ctx.saw(z)
    zan = prog.an(z)
    isc = [blk for blk in z.blocks if r.is_sem_call(z, blk.term, 'is_closed') and not blk.cleanup]
    ctx.ob('R06.2', 'resize() tests is_closed()', len(isc) >= 1, ctx.where(z), '', construct='resize:closed-test')
    if isc:
        t0 = isc[0]
        effects = [bb for bb, i, s in r.field_writes(z, r.SLOTS, r.SIZE) + r.field_writes(z, r.SLOTS, r.MAX)] + \
                  [blk.idx for blk in z.blocks if blk.term.kind == 'call' and not blk.cleanup and
                   (r.is_sem_call(z, blk.term, 'add_permits') or r.is_sem_call(z, blk.term, 'try_acquire'))]
        # check-then-act must be atomic with respect to close(): the test runs while the slots guard is held
        gl = [i for i, l in enumerate(z.locals) if l['ty'].startswith('std::sync::MutexGuard<')]
        st0 = zan.state_at_term(t0.idx)
        under = st0 is not None and any((st0[0] >> g) & 1 for g in gl)
        ctx.ob('R06.2', 'resize() tests is_closed() while holding the slots lock', under, ctx.where(z, t0.term.line),
               'the closed test is made before the lock is taken: a close() that completes between the test and the update leaves a closed pool with a non-zero max_size, which then keeps returned objects'
               if not under else '', construct='resize:closed-test-outside-lock')
        late = [e for e in effects if not zan.dominates(t0.idx, e)]
        ctx.ob('R06.2', 'the closed test precedes every effect of resize()', not late, ctx.where(z, t0.term.line),
               'effects at line(s) %s are not dominated by the is_closed() test' % [z.blocks[e].term.line for e in late] if late else '', construct='resize:closed-test-first')
        sw = z.blocks[t0.term.target]
        if sw.term.kind == 'switch':
            tr = dict(sw.term.switch_arms()).get('true')
            fl = dict(sw.term.switch_arms()).get('false')
            reach = zan.reach([tr], ('normal',), avoid=[fl]) if tr is not None else set()
            hit = [e for e in effects if e in reach]
            ctx.ob('R06.2', 'closed branch of resize() has no effect', tr is not None and not hit, ctx.where(z, sw.term.line), '', construct='resize:closed-branch')
        else:
            ctx.undecide('R06.2', 'is_closed() result is not tested directly')
    ic = r.IS_CLOSED
    ctx.saw(ic)
    ian = prog.an(ic)
    src = set()
    for blk in ic.blocks:
        for s in blk.stmts:
            if s.kind == 'assign' and s.place.local == 0:
                src |= sources(ian, s.rv.ops[0]) if s.rv.ops else set()
        if blk.term.kind == 'call' and blk.term.dest is not None and blk.term.dest.local == 0:
            src.add(('call', strip_generics(blk.term.rcallee or ''), blk.idx))
    ctx.ob('R06.2', 'is_closed() reports the semaphore state', any(s[0] == 'call' and s[1] == 'tokio::sync::Semaphore::is_closed' for s in src), ctx.where(ic),
           'origins %s' % sorted(src), construct='is_closed')
    # the semaphore is never replaced
    news = []
    for b in managed_bodies(prog):
        for blk in calls_named(b, ['tokio::sync::Semaphore::new', 'tokio::sync::Semaphore::const_new']):
            news.append(b.name)
        for bb, i, s in r.field_writes(b, r.INNER, r.SEM):
            ctx.ob('R06.2', 'pool semaphore never re-assigned', False, ctx.where(b, s.line), '', construct='sem-reassigned:' + b.name)
    ctx.ob('R06.2', 'the pool semaphore is created only when the pool is built', r.CONSTRUCTOR is not None and news == [r.CONSTRUCTOR.name], '', str(news), construct='sem-new')

    # ---- R06.3 closed => PoolError::Closed ---------------------------------------------
    cons = pool_error_constructions(ctx, r)
    acquire_error_mapping(ctx, r, cons, 'R06.3')

    # the closed error must survive the timeout wrapper around the blocking acquire
    tw = r.TIMEOUT_WRAPPER
    if tw is not None:
        bad = [(blk.term.line, sorted(blk.term.callee_names())[0]) for blk in tw.blocks if blk.term.kind == 'call' and not blk.cleanup and
               (blk.term.callee_names() & {'std::result::Result::ok', 'std::result::Result::unwrap_or', 'std::result::Result::unwrap_or_default'}
                or any(a.kind == 'const' and a.const.get('fn') and strip_generics(a.const['fn']) == 'std::result::Result::ok' for a in blk.term.args))]
        ctx.ob('R06.3', 'the timeout wrapper passes the Closed error of the acquisition on', not bad, ctx.where(tw),
               'the wrapper discards the error of the awaited future (%s): a get() waiting with a timeout on a closed pool reports Timeout(Wait) instead of Closed' % bad if bad else '',
               construct='timeout-wrapper-swallows-closed')

    # ---- R06.4 weak back reference -------------------------------------------------------
    obj = r.crate.adt(r.OBJECT)
    strong = [f['name'] for f in obj['variants'][0]['fields'] if 'std::sync::Arc' in f['parts']['adts'] or r.POOL in f['parts']['adts']]
    weak = [f['name'] for f in obj['variants'][0]['fields'] if f['ty'].startswith('std::sync::Weak<') and r.INNER in f['parts']['adts']]
    ctx.ob('R06.4', 'Object refers to its pool only weakly', not strong and len(weak) == 1, '%s:%s' % (obj['file'], obj['line']),
           'strong fields %s, weak fields %s' % (strong, weak), construct='object:weak')
    for b in (r.OBJ_DROP, r.OBJ_TAKE):
        ban = prog.an(b)
        ctx.saw(b)
        reg = prog.region([b.path])
        ups = [(prog.bodies[p], blk) for p in reg for blk in prog.bodies[p].blocks if blk.term.kind == 'call'
               and any(n.startswith('std::sync::Weak::') and n.endswith('::upgrade') for n in blk.term.callee_names())]
        ctx.ob('R06.4', '%s reaches the pool through Weak::upgrade' % b.name.split('::')[-1], len(ups) >= 1, ctx.where(b), '', construct='upgrade:' + b.name)
        helpers = {h.path for h in (r.RETURN if b is r.OBJ_DROP else r.TAKE) if h.path != b.path}
        hc = [blk for blk in b.blocks if blk.term.kind == 'call' and blk.term.rcallee in helpers]
        # the helper is only called on a Some branch
        sws = [x for x in b.blocks if x.term.kind == 'switch' and x.term.j.get('adt') == 'std::option::Option']
        for h in hc:
            guarded = any(h.idx in ban.reach([dict(x.term.switch_arms()).get('Some')], ('normal',), avoid=[dict(x.term.switch_arms()).get('None')])
                          and h.idx not in ban.reach([dict(x.term.switch_arms()).get('None')], ('normal',), avoid=[dict(x.term.switch_arms()).get('Some')])
                          for x in sws if dict(x.term.switch_arms()).get('Some') is not None)
            ctx.ob('R06.4', 'pool helper only called when the upgrade succeeded', guarded, ctx.where(b, h.term.line), '', construct='upgrade-guard:' + b.name)

    # ---- R06.6 objects released by close are detached: drop-site audit (shared with C09) ----
    drop_site_audit(ctx, r, 'R06.6')

    # ---- R06.8 the test that discards an object returned to a closed pool (`size <= max_size` with max_size 0) is only as
    # good as the size counter: its writers are exactly the accounted ones
    from .rules_C11 import size_inventory
    size_inventory(ctx, r, 'R06.8')

    ctx.not_decided += ['promptness of waking parked getters and that they observe Closed (tokio Semaphore::close semantics)',
                        'objects that outlive every pool handle "can still be used": follows from Weak + Option typestate (C02 R02.4/R02.5)']
    ctx.assumptions += ['tokio: acquire on a closed semaphore fails, close() wakes all waiters']

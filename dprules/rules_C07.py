"""C07 - resize() makes the new limit effective in both directions."""
from .mcommon import *
from .roles import classify_write, adt_of
from .facts import strip_generics, Operand, Place
from .analysis import sources

TECHNIQUE = 'field-write inventory and def-use origin of the grow amount, loop pairing (forget / pop / size / detach) by dominance inside the shrink loop, normalised guarding comparison on the return paths, governing-condition analysis of the shrink loop'
LEVEL_TEXT = 'static analysis of every path of resize and of the return / take helpers'
EXPLANATION = ('Decided: resize() writes its argument to max_size under the lock on every path past the closed test; the grow branch '
               'is governed by new > old and passes exactly new - old to add_permits; in the shrink loop every object popped is paired '
               'with one forgotten permit, one size -= 1 and one detach; the return / take helpers withhold the permit exactly on size > '
               'max_size under the lock. The capacity-ledger rule R07.5 (the number of permits a shrink removes must be governed by old - new) '
               'does not hold on this tree: known finding D1.')


def run(ctx):
    r = roles(ctx)
    prog = ctx.prog
    z = r.RESIZE
    ctx.saw(z)
    an = prog.an(z)
    rets = an.exits()['return']

    # ---- R07.1 max_size := argument ------------------------------------------------
    ws = r.field_writes(z, r.SLOTS, r.MAX)
    ok = len(ws) == 1
    ctx.ob('R07.1', 'resize() writes max_size exactly once', ok, ctx.where(z), '%d writes' % len(ws), construct='resize:max-write-count',
           sites=[ctx.where(z, s.line) for _, _, s in ws])
    old_reads = []
    if ok:
        bb, i, s = ws[0]
        op, val = classify_write(an, s)
        src = sources(an, s.rv.ops[0])
        is_arg = any(x[0] == 'arg' for x in src) and not any(x[0] in ('bin', 'call', 'field', 'const') for x in src)
        ctx.ob('R07.1', 'max_size is set to the argument', op == '=' and is_arg, ctx.where(z, s.line), 'max_size %s %s' % (op, val), construct='resize:max-write-value')
        isc = [blk for blk in z.blocks if r.is_sem_call(z, blk.term, 'is_closed') and not blk.cleanup]
        if isc and z.blocks[isc[0].term.target].term.kind == 'switch':
            fl = dict(z.blocks[isc[0].term.target].term.switch_arms()).get('false')
            # an arm on which the requested size equals the current limit needs no write (the value is there already)
            same = []
            for blk2 in z.blocks:
                if blk2.term.kind == 'switch' and blk2.term.j.get('dty') == 'bool' and not blk2.cleanup:
                    for lab2, tgt2 in blk2.term.switch_arms():
                        bc = branch_condition(an, blk2, lab2)
                        if bc and bc[0] == 'Eq':
                            sa = sources(an, bc[1]); sb = sources(an, bc[2])
                            def is_arg_(x):
                                return any(y[0] == 'arg' for y in x) and not any(y[0] in ('bin', 'call', 'field', 'const') for y in x)
                            def is_max_(x):
                                return ('field', '%s.%s' % (r.SLOTS, r.MAX)) in x and not any(y[0] in ('bin', 'const', 'arg') for y in x) and not any(y[0] == 'field' and y[1].startswith(r.SLOTS + '.') and y[1] != '%s.%s' % (r.SLOTS, r.MAX) for y in x)
                            if (is_arg_(sa) and is_max_(sb)) or (is_arg_(sb) and is_max_(sa)):
                                same.append(tgt2)
            esc = an.reach([fl], ('normal',), avoid=[bb] + same)
            ctx.ob('R07.1', 'max_size written on every path of an open pool', not any(e in esc for e in rets), ctx.where(z, s.line), '', construct='resize:max-write-allpaths')
        g = guard_root(an, s.place)
        ctx.ob('R07.1', 'max_size written under the slots lock', g is not None, ctx.where(z, s.line), '', construct='resize:max-write-lock')
        # reads of MAX that happen before the write = the old limit
        for blk in z.blocks:
            for si_, st in enumerate(blk.stmts):
                if st.kind == 'assign' and st.rv.kind == 'use' and st.rv.ops[0].kind == 'copy' and st.rv.ops[0].place.has_field(r.SLOTS, r.MAX):
                    # (in the block of the write: the statements before it - `let old = mem::replace(&mut max_size, new)` written out)
                    if (an.dominates(blk.idx, bb) and blk.idx != bb) or (blk.idx == bb and si_ < i):
                        old_reads.append((blk.idx, st.place.local))

    def classify_operand(op):
        """'new' if the operand is the argument / the field after the write, 'old' if the field before the write"""
        src = sources(an, op)
        kinds = set()
        for x in src:
            if x[0] == 'arg':
                kinds.add('new')
            if x[0] == 'field' and x[1] == '%s.%s' % (r.SLOTS, r.MAX):
                kinds.add('field')
        # a plain copy of a local that holds the old read
        if op.kind != 'const':
            o = an.origin(op)
            if o[0] == 'place' and o[1].has_field(r.SLOTS, r.MAX):
                # which side of the write is this read on?
                pass
        # decide old/new for field reads through the defining block of the local chain
        if 'field' in kinds and ws:
            wbb = ws[0][0]
            l = op.place.local if op.kind != 'const' else None
            hops = 0
            while l is not None and hops < 8:
                d = an.single_def(l)
                if d and d[0] == 'stmt' and d[3].rv.kind == 'use' and d[3].rv.ops[0].kind != 'const':
                    p = d[3].rv.ops[0].place
                    if p.has_field(r.SLOTS, r.MAX):
                        kinds.discard('field')
                        kinds.add('old' if ((an.dominates(d[1], wbb) and d[1] != wbb) or (d[1] == wbb and d[2] is not None and d[2] < ws[0][1])) else 'new')
                        break
                    l = p.local if not p.proj else None
                else:
                    break
                hops += 1
            if 'field' in kinds and op.kind != 'const' and op.place.has_field(r.SLOTS, r.MAX):
                kinds.discard('field')
        return kinds

    # ---- R07.2 grow ----------------------------------------------------------------------
    adds = [blk for blk in z.blocks if r.is_sem_call(z, blk.term, 'add_permits') and not blk.cleanup]
    ctx.ob('R07.2', 'resize() has one add_permits (the grow branch)', len(adds) == 1, ctx.where(z), '%d sites' % len(adds), construct='resize:grow-site')
    if len(adds) == 1:
        a = adds[0]
        amt = a.term.args[1]
        d = an.origin(amt)
        okamt = False; detail = 'amount = %s' % an.resolve_operand(amt)
        if d[0] == 'stmt' and d[3].rv.kind == 'use' and d[3].rv.ops[0].kind == 'move' and d[3].rv.ops[0].place.proj == ('.0',):
            d = an.single_def(d[3].rv.ops[0].place.local)
        # look through `additional = move (_x.0)` where _x = SubWithOverflow(new, old)
        chain = amt
        for _ in range(6):
            o = an.origin(chain)
            if o[0] == 'place' and o[1].proj == ('.0',):
                dd = an.single_def(o[1].local)
                if dd and dd[0] == 'stmt' and dd[3].rv.kind == 'bin' and dd[3].rv.binop.startswith('Sub'):
                    ka = classify_operand(dd[3].rv.ops[0]); kb = classify_operand(dd[3].rv.ops[1])
                    okamt = ('new' in ka) and ('old' in kb) and 'old' not in ka and 'new' not in kb
                    detail = 'amount = Sub(%s, %s) classified (%s, %s)' % (an.resolve_operand(dd[3].rv.ops[0]), an.resolve_operand(dd[3].rv.ops[1]), sorted(ka), sorted(kb))
                break
            if o[0] == 'stmt' and o[3].rv.kind == 'bin' and o[3].rv.binop.startswith('Sub'):
                ka = classify_operand(o[3].rv.ops[0]); kb = classify_operand(o[3].rv.ops[1])
                okamt = ('new' in ka) and ('old' in kb)
                detail = 'amount = Sub(..) classified (%s, %s)' % (sorted(ka), sorted(kb))
                break
            break
        ctx.ob('R07.2', 'grow adds exactly new - old permits', okamt, ctx.where(z, a.term.line), detail, construct='resize:grow-amount')
        conds = governing_conditions(an, a.idx)
        okc = False
        for op, lhs, rhs, swbb in conds:
            kl = classify_operand(lhs); kr = classify_operand(rhs)
            if ('new' in kl and 'old' in kr and op == 'Gt') or ('old' in kl and 'new' in kr and op == 'Lt'):
                okc = True
        ctx.ob('R07.2', 'grow branch governed by new > old', okc, ctx.where(z, a.term.line),
               'governing conditions: %s' % [(c[0], an.resolve_operand(c[1]), an.resolve_operand(c[2])) for c in conds], construct='resize:grow-condition')
        ctx.ob('R07.2', 'grow happens once', not in_cycle(an, a.idx), ctx.where(z, a.term.line), '', construct='resize:grow-loop')

    # ---- R07.3 shrink: pop paired with forget, size -= 1, detach ------------------------------
    qc = queue_calls(r, z, an)
    pops = [x for x, m in qc if m in ('pop_front', 'pop_back')]
    forgets = [blk for blk in calls_named(z, ['tokio::sync::SemaphorePermit::forget']) if not blk.cleanup]
    ctx.floor('R07.3', 'pops of the idle queue in resize()', len(pops), 1)
    for p in pops:
        okf = any(an.dominates(f.idx, p.idx) and p.idx not in an.reach_after(p.idx, ('normal',), avoid=[f.idx]) for f in forgets)
        ctx.ob('R07.3', 'each released object is paired with one forgotten permit', okf, ctx.where(z, p.term.line),
               'the pop is not preceded (in the same loop iteration) by permit.forget()' if not okf else '', construct='resize:shrink-pop-forget')
        # Some arm: size -= 1 and detach before the next pop / the exit
        sws = [blk for blk in z.blocks if blk.term.kind == 'switch' and 'on' in blk.term.j and
               any(s[0] == 'call' and s[2] == p.idx for s in sources(an, Operand({'c': blk.term.j['on']})))]
        some = None
        for blk in sws:
            arms = dict(blk.term.switch_arms())
            some = arms.get('Some', arms.get('true'))
        if some is None:
            # `if pop().is_some()` form
            for blk in z.blocks:
                if blk.term.kind == 'switch' and blk.term.j.get('dty') == 'bool':
                    src = sources(an, blk.term.discr)
                    if any(s[0] == 'call' and s[1].endswith('::is_some') for s in src) and any(s[0] == 'call' and s[2] == p.idx for s in src):
                        some = dict(blk.term.switch_arms()).get('true')
        if some is None:
            ctx.undecide('R07.3', 'cannot find the test of the pop result in resize()')
            continue
        decs = [bb for bb, i, s in r.field_writes(z, r.SLOTS, r.SIZE) if classify_write(an, s) == ('-=', '1_usize')]
        dets = [x.idx for x in manager_calls(z, MANAGER_DETACH)]
        for what, bbs in (('size -= 1', decs), ('Manager::detach', dets)):
            esc = an.reach([some], ('normal',), avoid=bbs)
            okk = bool(bbs) and p.idx not in esc and not any(e in esc for e in rets)
            ctx.ob('R07.3', 'each released object: %s' % what, okk, ctx.where(z, p.term.line), '', construct='resize:shrink-' + what)
    ctx.ob('R07.3', 'one forgotten permit per released object', len(forgets) == len(pops), ctx.where(z),
           '%d forget() sites for %d pop sites in resize()' % (len(forgets), len(pops)), construct='resize:forget-count')
    for f in forgets:
        # a permit is forgotten only after a successful try_acquire on the pool semaphore
        src = sources(an, f.term.args[0])
        ctx.ob('R07.3', 'forgotten permit comes from try_acquire', any(s[0] == 'call' and s[1] == 'tokio::sync::Semaphore::try_acquire' for s in src),
               ctx.where(z, f.term.line), '', construct='resize:forget-origin')

    # ---- R07.4 surplus on return ---------------------------------------------------------------
    surplus_guard(ctx, r, 'R07.4', [x for x in r.RETURN + r.TAKE if x.path not in (r.OBJ_DROP.path, r.OBJ_TAKE.path)])
    for h in []:
        han = prog.an(h)
        ctx.saw(h)
        for blk in h.blocks:
            if not r.is_sem_call(h, blk.term, 'add_permits'):
                continue
            rels = governing_relations(han, r, blk.idx)
            dec = r.field_writes(h, r.SLOTS, r.SIZE)
            okrel = False; detail = 'no comparison of size and max_size governs this add_permits'
            for rel, swbb, cmpbb in rels:
                after_dec = any((han.dominates(wbb, cmpbb)) for wbb, _, s in dec if classify_write(han, s)[0] == '-=')
                w = 'size<max' if after_dec else 'size<=max'
                okrel = okrel or rel == w
                detail = 'governing test `%s`, expected `%s`' % (rel, w)
                g1 = None
            ctx.ob('R07.4', 'permit withheld exactly while size > max_size', okrel, ctx.where(h, blk.term.line), detail if not okrel else '',
                   construct='surplus-guard:' + h.name)
        # comparison and update under one lock acquisition
        locks = [x for x in h.blocks if x.term.kind == 'call' and x.term.callee_names() & {'std::sync::Mutex::lock'} and not x.cleanup]
        ctx.ob('R07.4', 'decision and update under a single lock acquisition', len(locks) == 1, ctx.where(h), '%d lock() calls' % len(locks), construct='surplus-lock:' + h.name)

    # ---- R07.5 capacity ledger of a shrink -----------------------------------------------------
    # the loop that forgets permits must be governed by the delta old - new (or by available_permits measured against the limit)
    for f in forgets:
        loop_sw = []
        for d in sorted(an.doms(('normal',)).get(f.idx) or ()):
            blk = z.blocks[d]
            if blk.term.kind == 'switch' and blk.term.j.get('dty') == 'bool' and in_cycle(an, d):
                loop_sw.append(blk)
        ok = False
        desc = []
        for blk in loop_sw:
            src = sources(an, blk.term.discr)
            desc.append(sorted({x[1] if x[0] != 'arg' else 'arg ' + x[1] for x in src if x[0] in ('field', 'arg', 'call')}))
            kinds = set()
            for x in src:
                if x[0] == 'arg':
                    kinds.add('new')
                if x[0] == 'call' and x[1].endswith('available_permits'):
                    kinds.add('avail')
            # a counter initialised from old - new
            for x in src:
                if x[0] == 'bin' and x[1].startswith('Sub'):
                    pass
            olds = {l for _, l in old_reads}
            # "governed by the delta": the tested value derives from a difference of the old and the new limit (a counter
            # initialised with old - new), not merely from the old limit (`size > old_max_size` is not a ledger)
            delta = False
            for x in src:
                if x[0] == 'bin' and x[1].startswith('Sub'):
                    for st_ in z.blocks[x[2]].stmts:
                        if st_.kind == 'assign' and st_.rv.kind == 'bin' and st_.rv.binop.startswith('Sub'):
                            ka = classify_operand(st_.rv.ops[0]); kb = classify_operand(st_.rv.ops[1])
                            if ('old' in ka and 'new' in kb) or ('new' in ka and 'old' in kb):
                                delta = True
            if (delta and any(_depends_on_local(an, blk.term.discr, l) for l in olds)) or 'avail' in kinds:
                ok = True
        # R07.6: unless the loop is governed by the delta (R07.5), its condition must be exactly `size > max_size`
        # (the documented behaviour whose residue is known finding D1); any other condition is a new violation
        if not ok:
            rels = []
            for blk in loop_sw:
                for lab, tgt in blk.term.switch_arms():
                    if f.idx in an.reach([tgt], ('normal',), avoid=[blk.idx]):
                        rel = cmp_relation(an, r, blk, lab)
                        if rel and any(_depends_on_local(an, blk.term.discr, l) for l in {l for _, l in old_reads}):
                            rel = (rel[0].replace('max', 'OLD max_size (read before the write)'), rel[1])
                        rels.append(rel[0] if rel else 'other(%s)' % sorted({x[1] for x in sources(an, blk.term.discr) if x[0] in ('field', 'call')}))
            # only comparisons count (the try_acquire Ok test is a Result switch, not a bool switch)
            ctx.ob('R07.6', 'the shrink releases objects / permits exactly while size > max_size', rels == ['size>max'], ctx.where(z, f.term.line),
                   'the shrink loop is governed by %s instead of `size > max_size`' % rels if rels != ['size>max'] else '', construct='resize:shrink-loop-condition', sites=rels)
        ctx.ob('R07.5', 'number of permits removed by a shrink is governed by old - new', ok, ctx.where(z, f.term.line),
               'the shrink loop is governed only by %s: free capacity that is not backed by an object is never removed, and a later grow re-adds permits that were never removed' % desc
               if not ok else '', construct='resize:shrink-capacity-ledger', sites=[ctx.where(z, x.term.line) for x in loop_sw])

    ctx.not_decided += ['"callers already waiting are admitted at once on grow" (tokio wake-up)',
                        'the capacity arithmetic over sequences of shrinks and grows with objects out (known finding D1 shows it does not hold)']
    ctx.assumptions += ['tokio Semaphore add_permits / try_acquire / forget semantics']


def _depends_on_local(an, op, l, depth=0, seen=None):
    seen = seen or set()
    if op.kind == 'const' or depth > 12:
        return False
    if op.place.local == l:
        return True
    if op.place.local in seen:
        return False
    seen.add(op.place.local)
    for d in an.defs(op.place.local):
        if d[0] == 'stmt':
            rv = d[3].rv
            if rv.place is not None and rv.place.local == l:
                return True
            for o in rv.ops:
                if _depends_on_local(an, o, l, depth + 1, seen):
                    return True
            if rv.place is not None and _depends_on_local(an, Operand({'c': {'l': rv.place.local, 'pr': [], 'own': []}}), l, depth + 1, seen):
                return True
        else:
            for a in d[3].args:
                if _depends_on_local(an, a, l, depth + 1, seen):
                    return True
    return False


def surplus_guard(ctx, r, rule, helpers):
    prog = ctx.prog
    for h in helpers:
        han = prog.an(h)
        ctx.saw(h)
        for blk in h.blocks:
            if not r.is_sem_call(h, blk.term, 'add_permits'):
                continue
            rels = governing_relations(han, r, blk.idx)
            dec = r.field_writes(h, r.SLOTS, r.SIZE)
            okrel = False; detail = 'no comparison of size and max_size governs this add_permits'
            for rel, swbb, cmpbb in rels:
                after_dec = any((han.dominates(wbb, cmpbb)) for wbb, _, s in dec if classify_write(han, s)[0] == '-=')
                w = 'size<max' if after_dec else 'size<=max'
                okrel = okrel or rel == w
                detail = 'governing test `%s`, expected `%s`' % (rel, w)
            ctx.ob(rule, 'permit withheld exactly while size > max_size', okrel, ctx.where(h, blk.term.line), detail if not okrel else '',
                   construct='surplus-guard:' + h.name)
        locks = [x for x in h.blocks if x.term.kind == 'call' and x.term.callee_names() & {'std::sync::Mutex::lock'} and not x.cleanup]
        ctx.ob(rule, 'decision and update under a single lock acquisition', len(locks) == 1, ctx.where(h), '%d lock() calls' % len(locks), construct='surplus-lock:' + h.name)

"""Run the dpa driver over /repo's current working tree and cache the facts.

Facts are content-addressed by a hash of the working tree (every file under
the repo except target/ and .git/) and of the driver binary, so any edit to
/repo forces a fresh extraction; an unchanged tree re-uses the fact files.
"""
import fcntl, glob, hashlib, json, os, shutil, subprocess, sys, time, uuid

VERIF = os.path.dirname(os.path.dirname(os.path.abspath(__file__)))
REPO = os.environ.get('DP_REPO', '/repo')
CACHE = os.environ.get('DP_CACHE', os.path.join(VERIF, '.cache'))
DRIVER = os.path.join(VERIF, 'dpa', 'target', 'release', 'dpa')

PACKAGES = ['deadpool', 'deadpool-runtime', 'deadpool-sync', 'deadpool-sqlite',
            'deadpool-r2d2', 'deadpool-diesel', 'deadpool-postgres', 'deadpool-redis']

# name -> (packages, features, no_default_features, expected crates)
CONFIGS = {
    # the configuration every quick check uses: everything the properties touch
    'full': (PACKAGES,
             ['deadpool/rt_tokio_1', 'deadpool/serde', 'deadpool-sqlite/serde',
              'deadpool-diesel/sqlite', 'deadpool-postgres/serde', 'deadpool-redis/serde',
              'deadpool-redis/cluster', 'deadpool-redis/sentinel'], False,
             ['deadpool', 'deadpool_runtime', 'deadpool_sync', 'deadpool_sqlite', 'deadpool_r2d2',
              'deadpool_diesel', 'deadpool_postgres', 'deadpool_redis']),
    # feature matrix for the thorough tier (core crate without optional features,
    # with only one of them; backends with default features only)
    'core_min': (['deadpool'], [], False, ['deadpool', 'deadpool_runtime']),
    'core_rt': (['deadpool'], ['deadpool/rt_tokio_1'], False, ['deadpool', 'deadpool_runtime']),
    'core_serde': (['deadpool'], ['deadpool/serde'], False, ['deadpool', 'deadpool_runtime']),
    'backends_default': (['deadpool-postgres', 'deadpool-redis', 'deadpool-sqlite', 'deadpool-sync'], [], False,
                         ['deadpool', 'deadpool_runtime', 'deadpool_sync', 'deadpool_sqlite',
                          'deadpool_postgres', 'deadpool_redis']),
    'sync_tracing': (['deadpool-sync'], ['deadpool-sync/tracing'], False, ['deadpool_sync', 'deadpool_runtime']),
}


class ExtractError(Exception):
    pass


def sysroot_lib():
    out = subprocess.run(['rustc', '+nightly', '--print', 'sysroot'], capture_output=True, text=True)
    if out.returncode != 0:
        raise ExtractError('cannot find nightly sysroot: ' + out.stderr)
    return os.path.join(out.stdout.strip(), 'lib')


def tree_hash(repo=None):
    repo = repo or REPO
    h = hashlib.sha256()
    files = []
    for root, dirs, fs in os.walk(repo):
        rel = os.path.relpath(root, repo)
        dirs[:] = sorted(d for d in dirs if not (rel == '.' and d in ('target', '.git')))
        for f in sorted(fs):
            files.append(os.path.join(root, f))
    for p in files:
        rp = os.path.relpath(p, repo)
        h.update(rp.encode())
        h.update(b'\0')
        try:
            with open(p, 'rb') as fh:
                h.update(hashlib.sha256(fh.read()).digest())
        except OSError:
            h.update(b'?')
    try:
        with open(DRIVER, 'rb') as fh:
            h.update(hashlib.sha256(fh.read()).digest())
    except OSError:
        pass
    return h.hexdigest()[:24]


def _member_fingerprints(target):
    fp = os.path.join(target, 'debug', '.fingerprint')
    out = []
    if os.path.isdir(fp):
        for d in os.listdir(fp):
            if d.startswith('deadpool-') or d.startswith('deadpool_'):
                out.append(os.path.join(fp, d))
    return out


def run_config(config, out_dir, target, repo=None, log=None):
    """one cargo invocation; raises ExtractError if the build fails or a fact file is missing"""
    repo = repo or REPO
    pkgs, feats, nodef, expected = CONFIGS[config]
    if not os.path.exists(DRIVER):
        raise ExtractError('driver not built: %s (run MANIFEST.setup_cmd)' % DRIVER)
    os.makedirs(out_dir, exist_ok=True)
    # the marker goes first: a run interrupted (or a sandbox snapshot taken) while the facts are being rewritten must not
    # leave a directory that looks complete
    try:
        os.remove(os.path.join(out_dir, 'COMPLETE'))
    except FileNotFoundError:
        pass
    for f in glob.glob(os.path.join(out_dir, '*.json')):
        os.remove(f)
    # cargo's freshness cache would skip the wrapper for unchanged members
    for d in _member_fingerprints(target):
        shutil.rmtree(d, ignore_errors=True)
    nonce = uuid.uuid4().hex[:12]
    env = dict(os.environ)
    env.update({
        'LD_LIBRARY_PATH': sysroot_lib() + (':' + env['LD_LIBRARY_PATH'] if env.get('LD_LIBRARY_PATH') else ''),
        'RUSTFLAGS': '-Zmir-opt-level=0 -Awarnings',
        'RUSTC_WORKSPACE_WRAPPER': DRIVER,
        'CARGO_TARGET_DIR': target,
        'CARGO_NET_OFFLINE': 'true',
        'CARGO_INCREMENTAL': '0',
        'DPA_OUT': out_dir,
        'DPA_NONCE': nonce,
    })
    env.pop('RUSTC_WRAPPER', None)
    cmd = ['cargo', '+nightly', 'check', '--offline', '--manifest-path', os.path.join(repo, 'Cargo.toml')]
    for p in pkgs:
        cmd += ['-p', p]
    if feats:
        cmd += ['--features', ','.join(feats)]
    if nodef:
        cmd += ['--no-default-features']
    t0 = time.time()
    res = subprocess.run(cmd, env=env, capture_output=True, text=True, cwd=repo)
    if log:
        log('extract[%s]: cargo check %.1fs rc=%d' % (config, time.time() - t0, res.returncode))
    if res.returncode != 0:
        tail = '\n'.join(res.stderr.splitlines()[-40:])
        raise ExtractError('cargo check failed for config %s (does /repo compile?):\n%s' % (config, tail))
    found = {}
    for f in glob.glob(os.path.join(out_dir, '*.json')):
        try:
            with open(f) as fh:
                head = fh.read(400)
        except OSError:
            continue
        name = os.path.basename(f).split('-')[0]
        if ('"nonce":"%s"' % nonce) in head:
            # skip build scripts / test harness variants
            if f.endswith('-Rlib.json') and '-test-' not in f:
                found.setdefault(name, []).append(f)
    missing = [c for c in expected if c not in found]
    if missing:
        raise ExtractError('fact files missing for %s in config %s (driver skipped?)' % (missing, config))
    tmp = os.path.join(out_dir, 'COMPLETE.tmp')
    with open(tmp, 'w') as fh:
        json.dump({'config': config, 'nonce': nonce, 'crates': {k: [os.path.basename(x) for x in v] for k, v in found.items()},
                   'cmd': ' '.join(cmd), 'wall_s': round(time.time() - t0, 2)}, fh)
    os.replace(tmp, os.path.join(out_dir, 'COMPLETE'))
    return found


def cache_is_sound(d, config):
    """the marker of a cached extraction is believed only if every fact file it lists is there, carries the marker's nonce and
    every crate the configuration expects is listed (a cache copied while it was being rewritten is extracted again)"""
    try:
        with open(os.path.join(d, 'COMPLETE')) as fh:
            m = json.load(fh)
        if m.get('config') != config:
            return False
        for c in CONFIGS[config][3]:
            if not m.get('crates', {}).get(c):
                return False
        for files in m['crates'].values():
            for f in files:
                with open(os.path.join(d, f)) as fh:
                    if ('"nonce":"%s"' % m['nonce']) not in fh.read(400):
                        return False
        return True
    except (OSError, ValueError, KeyError):
        return False


def facts_for(config='full', fresh=False, log=None, repo=None, loader=None):
    """returns (facts_dir, info) for the current working tree; with `loader`, (facts_dir, info, loader(facts_dir)) - the facts
    are then read while the cache lock is still held, so that a concurrent fresh extraction (another thorough run) cannot
    rewrite the directory under the reader"""
    repo = repo or REPO
    os.makedirs(CACHE, exist_ok=True)
    lock_path = os.path.join(CACHE, 'lock')
    with open(lock_path, 'w') as lock:
        fcntl.flock(lock, fcntl.LOCK_EX)
        th = tree_hash(repo)
        d = os.path.join(CACHE, 'facts', th, config)
        marker = os.path.join(d, 'COMPLETE')
        info = {'tree_hash': th, 'config': config, 'fresh_extraction': False}
        if os.path.exists(marker) and not fresh and cache_is_sound(d, config):
            with open(marker) as fh:
                info.update(json.load(fh))
            info['fresh_extraction'] = False
            return (d, info, loader(d)) if loader else (d, info)
        # prune old fact dirs (keep disk small)
        fdir = os.path.join(CACHE, 'facts')
        if os.path.isdir(fdir):
            olds = sorted((os.path.getmtime(os.path.join(fdir, x)), x) for x in os.listdir(fdir))
            for _, x in olds[:-6]:
                if x != th:
                    shutil.rmtree(os.path.join(fdir, x), ignore_errors=True)
        target = os.path.join(CACHE, 'target')
        run_config(config, d, target, repo=repo, log=log)
        with open(marker) as fh:
            info.update(json.load(fh))
        info['fresh_extraction'] = True
        return (d, info, loader(d)) if loader else (d, info)


if __name__ == '__main__':
    cfg = sys.argv[1] if len(sys.argv) > 1 else 'full'
    try:
        d, info = facts_for(cfg, fresh='--fresh' in sys.argv, log=lambda m: print(m, file=sys.stderr))
    except ExtractError as e:
        print('EXTRACT-ERROR:', e, file=sys.stderr)
        sys.exit(3)
    print(d)
    print(json.dumps(info))

"""C14 - SyncWrapper keeps blocking work and destruction off the async thread."""
import re
from .mcommon import calls_named, in_cycle, is_dyn_call
from .roles import adt_of, _one
from .facts import strip_generics, Operand, Place
from .analysis import sources, result_matches
from .engine import Undecided

TECHNIQUE = 'call-context rule over closures (a caller-supplied FnOnce is invoked only inside a closure passed to Runtime::spawn_blocking*), drop-site / Option::take inventory for the wrapped value, match tables of the error mapping, field-type shape; on mir_built with resolved callees'
LEVEL_TEXT = 'static analysis of every body of deadpool-sync and of the spawn_blocking functions of deadpool-runtime'
EXPLANATION = ('Decided: in deadpool-sync a caller-supplied FnOnce is invoked only inside the closure handed to Runtime::spawn_blocking (interact) '
               'or is moved uninvoked into Runtime::spawn_blocking (new); the only code that takes T out of the shared Option is the closure handed to '
               'Runtime::spawn_blocking_background in Drop, on both the Ok and the poisoned arm, exactly once per arm; SyncWrapper has a single field '
               'containing T, of type Arc<Mutex<Option<T>>>; every access to T inside those closures goes through a MutexGuard of that mutex; '
               'SpawnBlockingError::Panic maps to InteractError::Panic, an empty Option to Aborted, is_mutex_poisoned reports Mutex::is_poisoned; the '
               'Tokio1 arms of spawn_blocking / spawn_blocking_background pass the closure uninvoked to tokio::task::spawn_blocking.')

SW = 'deadpool_sync::SyncWrapper'
SPAWN = 'deadpool_runtime::Runtime::spawn_blocking'
SPAWN_BG = 'deadpool_runtime::Runtime::spawn_blocking_background'


def closure_args_of(prog, b, callee_names):
    """closure bodies passed as arguments to calls of `callee_names` in body b: [(call blk, closure body)]"""
    an = prog.an(b)
    out = []
    for blk in b.blocks:
        t = blk.term
        if t.kind == 'call' and not blk.cleanup and (t.callee_names() & set(callee_names)):
            for a in t.args:
                for s in sources(an, a):
                    if s[0] == 'closure' and s[1] in prog.bodies:
                        out.append((blk, prog.bodies[s[1]]))
                # a function of the crate passed by name does the same job as a closure
                if a.kind == 'const' and a.const.get('fn'):
                    for k in ('rfn', 'fn'):
                        if a.const.get(k) in prog.bodies:
                            out.append((blk, prog.bodies[a.const[k]])); break
    return out


def user_fn_invocations(prog, b):
    """calls of FnOnce/FnMut/Fn on a generic parameter (caller supplied closure)"""
    out = []
    for blk in b.blocks:
        t = blk.term
        if t.kind == 'call' and not blk.cleanup and is_dyn_call(t):
            out.append(blk)
    return out


def run(ctx):
    prog = ctx.prog
    c = prog.crates.get('deadpool_sync')
    if c is None:
        raise Undecided('deadpool_sync not extracted')
    bodies = [b for b in c.bodies]
    for b in bodies:
        ctx.saw(b)
    interact = prog.body('deadpool_sync::SyncWrapper::interact::{closure#0}')
    new = prog.body('deadpool_sync::SyncWrapper::new::{closure#0}')
    drop_b = prog.bodies.get('<deadpool_sync::SyncWrapper<T> as std::ops::Drop>::drop')
    if not (interact and new and drop_b):
        raise Undecided('SyncWrapper::interact / new / Drop not found')

    # ---- R14.1 call context of caller-supplied closures -------------------------------------------
    blocking_closures = {}
    for b in bodies:
        for blk, cb in closure_args_of(prog, b, [SPAWN, SPAWN_BG]):
            blocking_closures[cb.path] = (b, blk)
    n_inv = 0
    for b in bodies:
        for blk in user_fn_invocations(prog, b):
            n_inv += 1
            ok = b.path in blocking_closures
            ctx.ob('R14.1', 'caller-supplied closure invoked only on the blocking thread', ok, ctx.where(b, blk.term.line),
                   '%s invokes a caller-supplied closure outside a closure passed to Runtime::spawn_blocking: it would run (and block) on the async thread' % b.name if not ok else '',
                   construct='user-closure-call:' + b.name, sites=[ctx.where(b, blk.term.line)])
    ctx.floor('R14.1', 'invocations of caller-supplied closures in deadpool-sync', n_inv, 1)
    # interact: exactly one spawn_blocking whose closure invokes f
    ian = prog.an(interact)
    sp = closure_args_of(prog, interact, [SPAWN])
    ok = len(sp) == 1 and len(user_fn_invocations(prog, sp[0][1])) == 1
    ctx.ob('R14.1', 'interact runs the closure inside spawn_blocking, once', ok, ctx.where(interact), '', construct='interact:spawn')
    # new: the constructor closure is moved into spawn_blocking uninvoked
    nan = prog.an(new)
    sps = [blk for blk in new.blocks if blk.term.kind == 'call' and not blk.cleanup and SPAWN in blk.term.callee_names()]
    okn = len(sps) == 1 and any(s[0] == 'upvar' and s[1].startswith('f') for s in sources(nan, sps[0].term.args[1])) and not user_fn_invocations(prog, new)
    ctx.ob('R14.1', 'new() moves the constructor into spawn_blocking uninvoked', okn, ctx.where(new), '', construct='new:spawn')

    # ---- R14.2 destruction only on the background blocking thread -------------------------------------
    sw = c.adt(SW)
    tfields = [f for f in sw['variants'][0]['fields'] if 'T' in f['parts']['params']]
    SHARED_TY = 'std::sync::Arc<std::sync::Mutex<std::option::Option<T>>>'
    def single_owner(ty, depth=0):
        # the shared cell itself, or a private newtype of this crate whose only T-carrying field is one
        if ty == SHARED_TY:
            return True
        a_ = c.adt(adt_of(ty) or '')
        if a_ is None or depth > 2 or len(a_.get('variants', [])) != 1:
            return False
        tf = [f_ for f_ in a_['variants'][0]['fields'] if 'T' in f_['parts']['params']]
        return len(tf) == 1 and single_owner(tf[0]['ty'], depth + 1)
    okf = len(tfields) == 1 and single_owner(tfields[0]['ty'])
    ctx.ob('R14.2', 'the wrapped value has a single owner: Arc<Mutex<Option<T>>>', okf, '%s:%s' % (sw['file'], sw['line']), str([(f['name'], f['ty']) for f in tfields]), construct='syncwrapper:shape')
    bg = closure_args_of(prog, drop_b, [SPAWN_BG])
    ctx.ob('R14.2', 'Drop hands one closure to spawn_blocking_background', len(bg) == 1, ctx.where(drop_b), '%d closures' % len(bg), construct='drop:spawn-bg')
    dan0 = prog.an(drop_b)
    spb = [blk.idx for blk in drop_b.blocks if blk.term.kind == 'call' and not blk.cleanup and SPAWN_BG in blk.term.callee_names()]
    esc = dan0.reach([0], ('normal',), avoid=spb)
    ctx.ob('R14.2', 'every path of Drop hands the value to the background blocking thread', bool(spb) and not any(e in esc for e in dan0.exits()['return']), ctx.where(drop_b),
           'Drop can return without spawning the background destruction: the last owner then destroys the value on the calling thread' if spb else '', construct='drop:spawn-conditional')
    cu = [(b.name, blk.term.line) for b in bodies for blk in b.blocks if blk.term.kind == 'call' and not blk.cleanup and any(n.endswith('panic::catch_unwind') or n.endswith('panicking::try') for n in blk.term.callee_names())]
    ctx.ob('R14.4', 'a panic in the closure unwinds through the MutexGuard (poisons the wrapper); it is not caught', not cu, '', str(cu), construct='catch-unwind')
    if sp:
        cb_ = sp[0][1]
        can_ = prog.an(cb_)
        rec = [(blk.term.line, sorted(blk.term.callee_names())[0]) for blk in cb_.blocks if blk.term.kind == 'call' and not blk.cleanup and
               any(n.endswith('PoisonError::<T>::into_inner') or n.endswith('PoisonError::into_inner') or n.endswith('::unwrap_or_else') or n.endswith('::unwrap_or') or n.endswith('::unwrap_or_default') for n in blk.term.callee_names())
               and any(s[0] == 'call' and s[1] == 'std::sync::Mutex::lock' for a in blk.term.args for s in sources(can_, a, deep=True))]
        uw = [blk for blk in cb_.blocks if blk.term.kind == 'call' and not blk.cleanup and blk.term.callee_names() & {'std::result::Result::unwrap', 'std::result::Result::expect'}
              and any(s[0] == 'call' and s[1] == 'std::sync::Mutex::lock' for s in sources(can_, blk.term.args[0]))]
        ctx.ob('R14.4', 'interact does not run on a poisoned value (the lock result is unwrapped, never recovered)', not rec and len(uw) == 1, ctx.where(cb_),
               'poison recovery in the interact closure: %s' % rec if rec else '%d unwraps of the lock result' % len(uw), construct='interact:poison-recovery')
    TAKE_FNS = {'std::option::Option::take', 'std::mem::take', 'std::mem::replace', 'std::option::Option::replace'}
    takers = []
    for b in bodies:
        ban = prog.an(b)
        for blk in b.blocks:
            t = blk.term
            if t.kind != 'call' or blk.cleanup:
                continue
            if t.callee_names() & TAKE_FNS:
                targ = (t.func.const.get('targs') or [''])[0]
                if targ in ('T', 'std::option::Option<T>'):
                    takers.append((b, blk))
                continue
            # `.and_then(Option::take)`: the taking function passed by name to a combinator takes at that call
            for a in t.args:
                if a.kind == 'const' and a.const.get('fn') and strip_generics(a.const.get('rfn') or a.const['fn']) in TAKE_FNS and (a.const.get('targs') or [''])[0] in ('T', 'std::option::Option<T>'):
                    takers.append((b, blk)); break
    bgp = bg[0][1].path if bg else None
    for b, blk in takers:
        # in Drop itself a take is harmless as long as the taken value only travels into the background closure (no T-carrying
        # local is destroyed inline - checked below as drop:inline); anywhere else it moves the destructor to the calling thread
        ok = bg and (b.path == bgp or b.path == drop_b.path)
        ctx.ob('R14.2', 'the value is taken out of the Option only on the background blocking thread (or in Drop, on its way there)', bool(ok), ctx.where(b, blk.term.line),
               '%s takes the wrapped value: its destructor would run on the calling thread' % b.name if not ok else '', construct='take-T:' + b.name)
    ctx.floor('R14.2', 'sites taking the wrapped value', len(takers), 1)
    if bg:
        cb = bg[0][1]
        can = prog.an(cb)
        # every access to the shared Mutex on the way to destruction (lock in the closure; get_mut / into_inner of a fast path in
        # Drop) yields a LockResult: the value is taken on its Ok arm AND on its poisoned arm.  `.ok()`, `if let Ok(..)`,
        # `unwrap_or_default()` .. drop the poisoned arm: the value then stays in the Mutex and dies with the last Arc, inline
        LOCKISH = {'std::sync::Mutex::lock', 'std::sync::Mutex::get_mut', 'std::sync::Mutex::into_inner', 'std::sync::Mutex::try_lock'}
        n_lock = 0
        okarms = True
        why = []
        for B in (cb, drop_b):
            ban = prog.an(B)
            tk = [blk.idx for b, blk in takers if b.path == B.path]
            rets = ban.exits()['return']
            for L in B.blocks:
                if not (L.term.kind == 'call' and not L.cleanup and L.term.callee_names() & LOCKISH):
                    continue
                n_lock += 1
                lname = sorted(L.term.callee_names() & LOCKISH)[0]
                handled = False
                for sw_, okr, err in result_matches(ban, lambda n: n == lname):
                    arms = dict(sw_.term.switch_arms())
                    handled = True
                    for lab in ('Ok', 'Err'):
                        other = [t_ for l2, t_ in arms.items() if l2 != lab]
                        esc = ban.reach([arms[lab]], ('normal',), avoid=tk + other)
                        if any(e in esc for e in rets):
                            okarms = False; why.append('%s:%d the %s arm of %s returns without taking the value' % (B.name, sw_.term.line, lab, lname.split('::')[-1]))
                rec = [blk for blk in B.blocks if blk.term.kind == 'call' and not blk.cleanup and blk.term.callee_names() & {'std::result::Result::unwrap_or_else'} and
                       any(a.kind == 'const' and a.const.get('fn') and strip_generics(a.const['fn']).endswith('PoisonError::into_inner') for a in blk.term.args) and
                       any(s_[0] == 'call' and s_[1] == lname for s_ in sources(ban, blk.term.args[0]))]
                for r_ in rec:
                    handled = True
                    esc = ban.reach([r_.idx], ('normal',), avoid=tk)
                    if any(e in esc for e in rets):
                        okarms = False; why.append('%s:%d returns without taking the value after the recovered %s' % (B.name, r_.term.line, lname.split('::')[-1]))
                # any other consumer of the LockResult
                other_use = [blk for blk in B.blocks if blk.term.kind == 'call' and not blk.cleanup and blk.idx != L.idx and blk not in rec and blk.term.args and
                             any(s_[0] == 'call' and s_[1] == lname for s_ in sources(ban, blk.term.args[0])) and
                             any(strip_generics(n).startswith('std::result::Result::') for n in blk.term.callee_names())]
                if other_use or not handled:
                    okarms = False
                    why.append('%s:%d the result of %s is consumed by %s: the poisoned arm is not taken' % (B.name, L.term.line, lname.split('::')[-1], sorted(n for x in other_use for n in x.term.callee_names()) or 'no two-armed match'))
        ctx.ob('R14.2', 'the value is destroyed on both the Ok and the poisoned arm of the lock', okarms and n_lock >= 1, ctx.where(cb), '; '.join(why), construct='drop:both-arms')
        # an explicit drop(x) of a T-carrying value in Drop itself is inline destruction too
        for blk in drop_b.blocks:
            t = blk.term
            if t.kind == 'call' and not blk.cleanup and t.callee_names() & {'std::mem::drop'} and t.args:
                targ = (t.func.const.get('targs') or [''])[0]
                if 'T' in re.findall(r'\b[A-Z]\w*\b', targ) and 'std::sync::Arc' not in targ and not targ.startswith('&'):
                    ctx.ob('R14.2', 'Drop does not destroy T inline', False, ctx.where(drop_b, t.line), 'drop::<%s>' % targ, construct='drop:inline')
        # the drop body itself holds no T-carrying local other than the Arc clone it moves into the closure
        dan = prog.an(drop_b)
        for blk in drop_b.blocks:
            if blk.term.kind == 'drop' and not blk.cleanup and blk.term.place.is_local():
                l = drop_b.locals[blk.term.place.local]
                if 'T' in l['parts']['params'] and 'std::sync::Arc' not in l['parts']['adts'] and not l['ty'].startswith('&') and not l['parts'].get('closures'):
                    st = dan.state_at_term(blk.idx)
                    if st and (st[1] >> blk.term.place.local) & 1:
                        ctx.ob('R14.2', 'Drop does not destroy T inline', False, ctx.where(drop_b, blk.term.line), l['ty'], construct='drop:inline')
        # no Mutex::lock in the drop body itself (it must not block the async thread)
        locks = [blk for blk in drop_b.blocks if blk.term.kind == 'call' and not blk.cleanup and blk.term.callee_names() & {'std::sync::Mutex::lock', 'std::sync::Mutex::into_inner', 'std::sync::Arc::try_unwrap', 'std::sync::Arc::into_inner'}]
        ctx.ob('R14.2', 'Drop neither locks nor unwraps the shared value on the calling thread', not locks, ctx.where(drop_b), str([sorted(x.term.callee_names()) for x in locks]), construct='drop:lock-inline')

    # ---- R14.3 access under the mutex ---------------------------------------------------------------------
    for cb in [x[1] for x in sp] + [x[1] for x in bg]:
        can = prog.an(cb)
        locks = [blk for blk in cb.blocks if blk.term.kind == 'call' and not blk.cleanup and blk.term.callee_names() & {'std::sync::Mutex::lock'}]
        ctx.ob('R14.3', 'blocking closure locks the mutex', len(locks) == 1, ctx.where(cb), '%d lock() calls' % len(locks), construct='closure-lock:' + cb.name)
        for blk in user_fn_invocations(prog, cb) + [b2 for b_, b2 in takers if b_.path == cb.path]:
            ok = any(can.dominates(l.idx, blk.idx) for l in locks)
            gl = [i for i, l in enumerate(cb.locals) if 'std::sync::MutexGuard' in l['parts']['adts'] and not l['ty'].startswith('&')]
            st = can.state_at_term(blk.idx)
            held = st is not None and any((st[1] >> g) & 1 for g in gl)
            ctx.ob('R14.3', 'the value is touched only while the guard is live', ok and held, ctx.where(cb, blk.term.line), '', construct='closure-guard:' + cb.name)

    # ---- R14.4 error mapping ----------------------------------------------------------------------------------
    # the mapping may sit in a `map_err` closure or be spelled out as a match arm of interact itself
    maps = [cb for blk, cb in closure_args_of(prog, interact, ['std::result::Result::map_err'])] + [interact]
    okm = False
    n_panic = 0
    for cb in maps:
        can = prog.an(cb)
        for blk in cb.blocks:
            for s_ in blk.stmts:
                if s_.kind == 'assign' and s_.rv.kind == 'agg' and s_.rv.j.get('adt') == 'deadpool_sync::InteractError' and s_.rv.j.get('variant') == 'Panic' and not blk.cleanup:
                    n_panic += 1
                    src = sources(can, s_.rv.ops[0])
                    if any(x[0] == 'field' and x[1].startswith('deadpool_runtime::SpawnBlockingError') for x in src) or (cb is not interact and any(x[0] == 'arg' for x in src)):
                        okm = True
    okm = okm and n_panic == 1
    ctx.ob('R14.4', 'a panicking closure is reported as InteractError::Panic carrying the payload', okm, ctx.where(interact), '', construct='interact:panic-map')
    if sp:
        cb = sp[0][1]
        made = [s.rv.j['variant'] for blk in cb.blocks for s in blk.stmts if s.kind == 'assign' and s.rv.kind == 'agg' and s.rv.j.get('adt') == 'deadpool_sync::InteractError']
        ctx.ob('R14.4', 'an empty wrapper maps to Aborted', made == ['Aborted'], ctx.where(cb), str(made), construct='interact:aborted')
    ip = prog.body('deadpool_sync::SyncWrapper::is_mutex_poisoned')
    if ip is not None:
        names = set()
        for blk in ip.blocks:
            if blk.term.kind == 'call':
                names |= blk.term.callee_names()
        pan = prog.an(ip)
        dest0 = [blk for blk in ip.blocks if blk.term.kind == 'call' and blk.term.dest is not None and blk.term.dest.local == 0 and 'std::sync::Mutex::is_poisoned' in blk.term.callee_names()]
        ctx.ob('R14.4', 'is_mutex_poisoned reports Mutex::is_poisoned of the shared mutex', len(dest0) == 1, ctx.where(ip), str(sorted(names)), construct='is_poisoned')

    # ---- R14.5 deadpool-runtime --------------------------------------------------------------------------------------
    sb = prog.body('deadpool_runtime::Runtime::spawn_blocking::{closure#0}')
    sbb = prog.body('deadpool_runtime::Runtime::spawn_blocking_background')
    rtc = prog.crates.get('deadpool_runtime')
    no_tokio = rtc is not None and 'tokio_1' not in rtc.features
    if no_tokio:
        ctx.undecide('R14.5', 'deadpool-runtime was compiled without the tokio_1 feature in this configuration (no Tokio1 arm to analyse)')
    for b, nm in (() if no_tokio else ((sb, 'spawn_blocking'), (sbb, 'spawn_blocking_background'))):
        if b is None:
            ctx.undecide('R14.5', 'deadpool_runtime::Runtime::%s not extracted' % nm); continue
        ctx.saw(b)
        ban = prog.an(b)
        # tokio's blocking-pool entry points: the free function and the method on a runtime handle it is defined as
        TOKIO_BLOCKING = {'tokio::task::spawn_blocking', 'tokio::runtime::Handle::spawn_blocking', 'tokio::runtime::Runtime::spawn_blocking'}
        tk = [blk for blk in b.blocks if blk.term.kind == 'call' and not blk.cleanup and blk.term.callee_names() & TOKIO_BLOCKING]
        inv = user_fn_invocations(prog, b)
        ok = len(tk) == 1 and not inv and any(s[0] in ('upvar', 'arg') and s[1].startswith('f') for a_ in tk[0].term.args for s in sources(ban, a_))
        ctx.ob('R14.5', 'Tokio1: %s passes the closure uninvoked to tokio::task::spawn_blocking' % nm, ok, ctx.where(b), '', construct='runtime:' + nm)
    if sb is not None and not no_tokio:
        maps = [cb for blk, cb in closure_args_of(prog, sb, ['std::result::Result::map_err'])]
        made = [s.rv.j['variant'] for cb in maps for blk in cb.blocks for s in blk.stmts if s.kind == 'assign' and s.rv.kind == 'agg' and s.rv.j.get('adt') == 'deadpool_runtime::SpawnBlockingError']
        # the same mapping written as a match on the awaited JoinHandle: Err(e) => Err(Panic(e.into_panic()))
        san = prog.an(sb)
        in_err = set()
        for sw_, okr, err in result_matches(san, lambda n: n in ('tokio::task::spawn_blocking', 'tokio::runtime::Handle::spawn_blocking', 'tokio::runtime::Runtime::spawn_blocking')):
            in_err |= err
        for blk in sb.blocks:
            if blk.cleanup:
                continue
            for s in blk.stmts:
                if s.kind == 'assign' and s.rv.kind == 'agg' and s.rv.j.get('adt') == 'deadpool_runtime::SpawnBlockingError':
                    made.append(s.rv.j['variant'] if blk.idx in in_err else s.rv.j['variant'] + ' (outside the Err arm)')
        ctx.ob('R14.5', 'a join error maps to SpawnBlockingError::Panic', made == ['Panic'], ctx.where(sb), str(made), construct='runtime:join-error')

    ctx.not_decided += ['which OS thread tokio picks and the timing between the async thread and the blocking pool (tokio)',
                        'lock()/try_lock() deliberately give the caller direct access and are outside "on its own"', 'the async-std arm']
    ctx.assumptions += ['tokio::task::spawn_blocking runs the closure on a thread where blocking is allowed, to completion even if the JoinHandle is dropped']

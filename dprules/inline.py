"""Program normalisation: virtual inlining of private helper functions (and of
local closures invoked in the body that creates them) into their callers.

Extracting a helper or inlining one is behaviour preserving; the rules are
written against bodies, so they are evaluated on a *normal form* in which the
private call structure has been flattened:

* inlined: non-public plain functions of the analysed crates (not trait
  methods, not constructors of coroutines, not methods whose receiver type has
  a Drop impl, not recursive, not in the `keep` set of role-bound functions);
* closures whose aggregate is built in the same body and which are invoked there
  through Fn/FnMut/FnOnce::call* (after helper inlining: `helper(|x| ..)`);
* a function all of whose call sites were inlined is removed from the program
  ("absorbed"), so inventories do not see its events twice.
"""
import copy, os, sys, re
from .facts import Operand, Body, strip_generics
from .analysis import split_generic_args

IDX_RE = re.compile(r'^\[_(\d+)\]$')


def _remap_place(p, lo, caps=None):
    """shift the local of a place JSON by lo; `caps` maps (1, '.k') prefixes for coroutine/closure captures (unused here)"""
    p['l'] = p['l'] + lo
    pr = p.get('pr') or []
    for i, e in enumerate(pr):
        m = IDX_RE.match(e)
        if m:
            pr[i] = '[_%d]' % (int(m.group(1)) + lo)
    return p


def _remap_operand(o, lo):
    if 'c' in o:
        _remap_place(o['c'], lo)
    elif 'm' in o:
        _remap_place(o['m'], lo)
    return o


def _remap_rv(rv, lo):
    for k in ('op', 'a', 'b'):
        if k in rv and isinstance(rv[k], dict):
            _remap_operand(rv[k], lo)
    if 'p' in rv:
        _remap_place(rv['p'], lo)
    for o in rv.get('ops', []):
        _remap_operand(o, lo)
    return rv


def _remap_block(blk, lo, bo, ret_dest, ret_target, unwind_target):
    """shift locals by lo and block indices by bo; rewrite return / resume"""
    for s in blk['stmts']:
        if 'p' in s:
            _remap_place(s['p'], lo)
        if 'rv' in s:
            _remap_rv(s['rv'], lo)
        if 'l' in s and s['k'] in ('live', 'dead'):
            s['l'] = s['l'] + lo
    t = blk['term']
    for k in ('p', 'dest', 'on'):
        if k in t and isinstance(t[k], dict):
            _remap_place(t[k], lo)
    for k in ('f', 'd', 'cond', 'value'):
        if k in t and isinstance(t[k], dict):
            _remap_operand(t[k], lo)
    for a in t.get('args', []):
        _remap_operand(a, lo)
    if 't' in t:
        t['t'] = t['t'] + bo
    if 'cd' in t:
        t['cd'] = t['cd'] + bo
    if 'arms' in t:
        t['arms'] = [[v, b + bo] for v, b in t['arms']]
        t['otherwise'] = t['otherwise'] + bo
    u = t.get('u')
    if isinstance(u, int):
        t['u'] = u + bo
    elif u == 'continue' and unwind_target is not None:
        t['u'] = unwind_target
    if t['k'] == 'return':
        line = t.get('line', 0)
        if ret_dest is not None:
            blk['stmts'].append({'k': 'assign', 'p': copy.deepcopy(ret_dest),
                                 'rv': {'k': 'use', 'op': {'m': {'l': lo, 'pr': [], 'own': [], 'ty': ''}}}, 'line': line})
        if ret_target is not None:
            blk['term'] = {'k': 'goto', 't': ret_target, 'line': line, 'inlined_return': True}
        else:
            blk['term'] = {'k': 'unreachable', 'line': line}
    elif t['k'] == 'resume':
        if unwind_target is not None:
            blk['term'] = {'k': 'goto', 't': unwind_target, 'line': t.get('line', 0)}
    return blk


def _assign(dst_local, operand, line):
    return {'k': 'assign', 'p': {'l': dst_local, 'pr': [], 'own': [], 'ty': ''}, 'rv': {'k': 'use', 'op': operand}, 'line': line}


class Normaliser:
    def __init__(self, prog, crates, keep=(), only_newtypes=False):
        self.dissolved = set()          # (callee, line) of calls rewritten into the statements they stand for
        self.prog = prog
        self.crates = set(crates)
        self.keep = set(keep)
        self.drop_types = set()
        for cn in crates:
            c = prog.crates.get(cn)
            if c is None:
                continue
            for i in c.impls:
                if i.get('trait') == 'std::ops::Drop':
                    self.drop_types.add(strip_generics(i['self_ty']).split('<')[0])
        # enum-variant / tuple-struct constructors usable as functions (`.map_err(PoolError::Backend)`)
        self.ctors = {}
        for c in prog.crates.values():
            for a in c.adts:
                for v in a.get('variants', []):
                    key = a['path'] + '::' + v['name'] if a['kind'] == 'Enum' else a['path']
                    self.ctors[key] = (a['path'], v['name'], [f['name'] for f in v['fields']])
        # private enums of the analysed crates (a decision encoded as `enum Admission { Granted, Surplus }` is threaded
        # to the `match` that inspects it, like Option / Result)
        self.local_enums = set()
        for cn in crates:
            c = prog.crates.get(cn)
            if c is not None:
                for a in c.adts:
                    if a['kind'] == 'Enum':
                        self.local_enums.add(a['path'])
        self.inlinable = {}
        for p, b in prog.bodies.items():
            if self._inlinable(b):
                self.inlinable[p] = b
        self.only_newtypes = only_newtypes
        if only_newtypes:
            # representation pre-pass: only the inherent methods of the transparent counters are dissolved (and the counters
            # flattened); everything else - in particular every function a role may be bound to - stays as it is
            # .. and of the *state records*: a private struct without Drop kept under a Mutex / RwLock of another type of the crate
            # (`slots: Mutex<Slots<..>>`) is the representation of the state that lock protects; `slots.discard()` /
            # `slots.within_limit()` / `slots.release_front()` are the field updates and tests they stand for, and the
            # functions that hold the lock - the ones roles are bound to - are where they happen
            nts = set(self.newtypes) | set(self.state_records)
            self.inlinable = {p: b for p, b in self.inlinable.items() if strip_generics(b.j.get('impl_self') or '').split('<')[0] in nts}
        # coroutine bodies of private async fns (keyed by the coroutine's own path = the callee of its poll)
        self.awaitable = {}
        for p, b in prog.bodies.items():
            if not b.is_coroutine or self._crate_of(p) not in self.crates:
                continue
            ctor = prog.bodies.get(b.j.get('parent') or '')
            if ctor is None or ctor.kind not in ('Fn', 'AssocFn') or ctor.j.get('in_trait'):
                continue
            tr_ = ctor.j.get('impl_trait')
            if tr_:
                # an async method of a single-impl helper trait of the analysed crates is awaited like a private async fn
                if self._crate_of(tr_) not in self.crates or self.trait_impls.get(tr_, 0) != 1:
                    continue
            elif ctor.j.get('vis') == 'pub':
                continue
            if ctor.path in self.keep or ctor.name in self.keep or b.path in self.keep or b.name in self.keep or only_newtypes:
                continue
            # the constructor only builds the coroutine from its parameters
            aggs = [s for blk in ctor.blocks for s in blk.stmts if s.kind == 'assign' and s.rv.kind == 'agg' and s.rv.j.get('ak') == 'coroutine' and s.rv.j.get('def') == p]
            if len(aggs) != 1 or len(ctor.blocks) > 3:
                continue
            # no direct recursion
            if any(blk.term.kind == 'call' and blk.term.rcallee in (p, ctor.path) for blk in b.blocks):
                continue
            self.awaitable[p] = (b, ctor, aggs[0])

    @property
    def newtypes(self):
        """{path: inner type} of the transparent counters of the analysed crates: a non-public struct with exactly one field of an
        integer / bool / atomic type and no Drop impl (`struct SlotCount(usize)`, `struct UserCount(AtomicUsize)`)"""
        if getattr(self, '_newtypes', None) is None:
            out = {}
            for cn, c_ in self.prog.crates.items():
                if cn not in self.crates:
                    continue
                drops = {strip_generics(i.get('self_ty', '')).split('<')[0] for i in c_.impls if i.get('trait') == 'std::ops::Drop'}
                for a_ in c_.adts:
                    if a_.get('kind') != 'Struct' or a_.get('vis') == 'pub' or len(a_.get('variants', [])) != 1 or a_['path'] in drops:
                        continue
                    fl = a_['variants'][0]['fields']
                    if len(fl) == 1 and (fl[0]['ty'] in self.SCALARS or fl[0]['ty'].startswith('std::sync::atomic::Atomic<')):
                        out[a_['path']] = fl[0]['ty']
            self._newtypes = out
        return self._newtypes

    @property
    def state_records(self):
        if getattr(self, '_state_records', None) is None:
            out = set()
            for cn, c_ in self.prog.crates.items():
                if cn not in self.crates:
                    continue
                drops = {strip_generics(i.get('self_ty', '')).split('<')[0] for i in c_.impls if i.get('trait') == 'std::ops::Drop'}
                private = {a_['path'] for a_ in c_.adts if a_.get('kind') == 'Struct' and a_.get('vis') != 'pub' and a_['path'] not in drops}
                for a_ in c_.adts:
                    for v_ in a_.get('variants', []):
                        for f_ in v_['fields']:
                            ty_ = f_['ty']
                            for lock_ in ('std::sync::Mutex<', 'std::sync::RwLock<'):
                                if ty_.startswith(lock_):
                                    inner_ = strip_generics(ty_[len(lock_):]).split('<')[0].rstrip('>')
                                    if inner_ in private:
                                        out.add(inner_)
            self._state_records = out
        return self._state_records

    @property
    def error_types(self):
        """types of the analysed crates that implement std::error::Error"""
        if getattr(self, '_error_types', None) is None:
            self._error_types = {strip_generics(i.get('self_ty', '')).split('<')[0] for c in self.prog.crates.values() if c.name in self.crates
                                 for i in c.impls if i.get('trait') == 'std::error::Error'}
        return self._error_types

    @property
    def trait_impls(self):
        if getattr(self, '_trait_impls', None) is None:
            cnt = {}
            seen = set()
            for b_ in self.prog.bodies.values():
                t_ = b_.j.get('impl_trait')
                if t_ and b_.kind in ('Fn', 'AssocFn'):
                    key = (t_, b_.j.get('impl_self'))
                    if key not in seen:
                        seen.add(key); cnt[t_] = cnt.get(t_, 0) + 1
            self._trait_impls = cnt
        return self._trait_impls

    def _crate_of(self, path):
        p = path.lstrip('<')
        c0 = p.split('::')[0]
        if c0 not in self.crates and path.startswith('<') and ' as ' in path.split('>::')[0]:
            # an impl of a trait of the analysed crates for a foreign type (`impl UrlList for [String]`) lives in the trait's crate
            t0 = path.split('>::')[0].split(' as ', 1)[1].split('::')[0]
            if t0 in self.crates:
                return t0
        return c0

    def _inlinable(self, b):
        if self._crate_of(b.path) not in self.crates:
            return False
        if b.kind not in ('Fn', 'AssocFn') or b.is_coroutine:
            return False
        if b.path in self.keep or b.name in self.keep:
            return False
        tr = b.j.get('impl_trait')
        if tr:
            # the one impl of a helper trait of the analysed crates (an extension trait used like a private function): statically
            # resolved calls of its methods are inlined like calls of private functions.  Operator / std traits, traits with
            # several impls and traits of other crates stay calls.
            if (tr == 'std::convert::From' or tr.startswith('std::convert::From<')) and not b.j.get('impl_derived') and b.path.startswith('<') and \
                    strip_generics(b.path[1:].split(' as ')[0]).split('<')[0] in self.error_types:
                # a conversion into a type of the analysed crates (`impl From<AcquireError> for PoolError`): what `?` / `.into()`
                # / `map_err(Into::into)` does at a call site is this body - the variant it builds is built at the call site
                pass
            elif self._crate_of(tr) not in self.crates or self.trait_impls.get(tr, 0) != 1 or b.j.get('impl_derived'):
                return False
        else:
            if b.j.get('vis') == 'pub':
                return False
            if b.j.get('in_trait'):
                return False
        if '_serde' in b.path or '__' in b.path:
            return False
        # constructors of async fns (the body only builds the coroutine)
        for blk in b.blocks:
            for s in blk.stmts:
                if s.kind == 'assign' and s.rv.kind == 'agg' and s.rv.j.get('ak') in ('coroutine',):
                    return False
        # methods taking a guard-like value (a type with a Drop impl) by value or by `&mut`: their calls are typestate events
        ins = b.j.get('inputs') or []
        shared = bool(ins) and ins[0].startswith('&') and not re.match(r"^&('\w+ )?mut ", ins[0])
        if ins and not shared:
            t0 = ins[0].lstrip('&')
            if t0.startswith('mut '):
                t0 = t0[4:]
            if t0.startswith("'"):
                t0 = t0.split(' ', 1)[1] if ' ' in t0 else t0
                if t0.startswith('mut '):
                    t0 = t0[4:]
            if strip_generics(t0).split('<')[0] in self.drop_types:
                return False
        # direct recursion
        for blk in b.blocks:
            if blk.term.kind == 'call' and blk.term.rcallee == b.path:
                return False
        return True

    # ------------------------------------------------------------------------------------------
    def view(self, body, depth=4):
        bj = copy.deepcopy(body.j)
        inlined = []
        # a constructor passed as a function constructs that variant from (the payload of) the value it is applied to
        for blk in bj['blocks']:
            t = blk['term']
            if t['k'] != 'call' or blk.get('cleanup'):
                continue
            for a in t.get('args', []):
                if 'k' in a and a['k'].get('fn') in self.ctors:
                    adt, var, flds = self.ctors[a['k']['fn']]
                    recv = [copy.deepcopy(x) for x in t['args'] if 'k' not in x][:1]
                    if len(flds) != 1 or not recv:
                        continue
                    if 'm' in recv[0]:
                        recv[0] = {'c': recv[0]['m']}
                    nl = self._new_local(bj, adt, t.get('line', 0))
                    blk['stmts'].append({'k': 'assign', 'p': {'l': nl, 'pr': [], 'own': [], 'ty': adt},
                                         'rv': {'k': 'agg', 'ak': 'adt', 'adt': adt, 'variant': var, 'fields': flds, 'ops': recv, 'from_ctor_ref': True}, 'line': t.get('line', 0)})
                    inlined.append('ctor-ref:' + a['k']['fn'])
        changed = True
        rounds = 0
        while changed and rounds < depth:
            changed = False
            rounds += 1
            nblocks = len(bj['blocks'])
            for x in range(nblocks):
                t = bj['blocks'][x]['term']
                if t['k'] != 'call' or 'k' not in t['f']:
                    continue
                c = t['f']['k']
                p = c.get('rfn') or c.get('fn')
                if not self.only_newtypes:
                    # conversions into an error type of the analysed crates, as they are written at use sites: `e.into()` is the
                    # blanket impl around `From::from`; `?` on a Result with another error type is `Err(From::from(e))`
                    if p == '<T as std::convert::Into<U>>::into' and len(c.get('targs', [])) == 2:
                        p2 = '<%s as std::convert::From<%s>>::from' % (c['targs'][1], c['targs'][0])
                        if p2 in self.inlinable and p2 != body.path:
                            self.dissolved.add((strip_generics(p), t.get('line', 0)))
                            t['f'] = {'k': {'v': p2, 'ty': '', 'fn': 'std::convert::From::from', 'fn_inst': p2, 'targs': [c['targs'][1], c['targs'][0]],
                                            'trait': 'std::convert::From', 'rfn': p2, 'rfn_inst': p2, 'rk': 'item'}}
                            c = t['f']['k']; p = p2
                            inlined.append('into-as-from:' + p2)
                    elif c.get('fn') == 'std::ops::FromResidual::from_residual' and len(c.get('targs', [])) == 2 and c['targs'][0].startswith('std::option::Option<') \
                            and c['targs'][1].startswith('std::option::Option<') and t.get('t') is not None and t.get('dest'):
                        # the failure value of an Option is `None`
                        self.dissolved.add((strip_generics(p), t.get('line', 0)))
                        bj['blocks'][x]['stmts'].append({'k': 'assign', 'p': copy.deepcopy(t['dest']), 'rv': {'k': 'agg', 'ak': 'adt', 'adt': 'std::option::Option', 'variant': 'None',
                                                                                                            'fields': [], 'ops': [], 'from_residual': True}, 'line': t.get('line', 0)})
                        bj['blocks'][x]['term'] = {'k': 'goto', 't': t['t'], 'line': t.get('line', 0)}
                        inlined.append('desugar:option-residual'); changed = True
                        continue
                    elif c.get('fn') == 'std::ops::FromResidual::from_residual' and self._desugar_converting_residual(bj, x):
                        self.dissolved.add((strip_generics(p), t.get('line', 0)))
                        inlined.append('desugar:converting-residual'); changed = True
                        continue
                callee = self.inlinable.get(p)
                if callee is not None and p != body.path and inlined.count(p) < 6:
                    self._inline_call(bj, x, callee.j, closure=False)
                    inlined.append(p); changed = True
                    continue
                if self.only_newtypes:
                    continue          # representation pre-pass: nothing else is rewritten
                # `helper(..).await` on a private async fn that is not role-bound: the helper's body takes the place of the await
                acb = self.awaitable.get(p)
                if acb is not None and body.is_coroutine and p != body.path and inlined.count(p) < 3:
                    if self._inline_await(bj, x, acb):
                        inlined.append(p); changed = True
                        continue
                # `?` applied to a value every definition of which is an explicit Ok / Err / Some / None (the result of an
                # inlined helper): rewritten as the match it stands for, so that threading can follow each case
                if strip_generics(c.get('fn', '')).endswith('Try::branch') and self._desugar_known_branch(bj, x):
                    changed = True; inlined.append('desugar:known-branch')
                    continue
                # boolean / defaulting combinators of Option and Result: rewritten as the match they stand for
                fn0 = strip_generics(c.get('fn', ''))
                if fn0 in COMBINATORS and self._desugar_combinator(bj, x, fn0):
                    changed = True; inlined.append('desugar:' + fn0)
                    continue
                if fn0 in VALUE_COMBINATORS and self._desugar_value_combinator(bj, x, fn0):
                    changed = True; inlined.append('desugar:' + fn0)
                    continue
                if fn0 in ('std::collections::VecDeque::remove', 'std::collections::VecDeque::<T, A>::remove') and len(t.get('args', [])) == 2 and self._is_const_zero(bj, t['args'][1]):
                    # `queue.remove(0)` is `queue.pop_front()` (a shared `release(slots, index)` helper called with the front index)
                    self.dissolved.add((strip_generics(c.get('rfn') or c.get('fn') or '?'), t.get('line', 0)))
                    nm_ = (c.get('rfn') or c.get('fn')).rsplit('::', 1)[0] + '::pop_front'
                    t['f'] = {'k': {'v': nm_, 'ty': '', 'fn': strip_generics(nm_) if False else nm_, 'fn_inst': nm_, 'targs': c.get('targs', []), 'rfn': nm_, 'rfn_inst': nm_, 'rk': 'item'}}
                    t['args'] = t['args'][:1]
                    changed = True; inlined.append('desugar:remove(0)')
                    continue
                if fn0 == 'std::mem::replace' and self._desugar_scalar_replace(bj, x):
                    changed = True; inlined.append('desugar:mem::replace(scalar)')
                    self.dissolved.add((strip_generics(c.get('rfn') or c.get('fn') or '?'), t.get('line', 0)))
                    continue
                if fn0.split('::')[-1] in ('compare_exchange', 'compare_exchange_weak') and 'atomic' in fn0 and self._desugar_cas_loop(bj, x):
                    changed = True; inlined.append('desugar:cas-loop')
                    self.dissolved.add((strip_generics(c.get('rfn') or c.get('fn') or '?'), t.get('line', 0)))
                    continue
                # a closure built in this body and invoked here
                fn = strip_generics(c.get('fn', ''))
                if fn in ('std::ops::Fn::call', 'std::ops::FnMut::call_mut', 'std::ops::FnOnce::call_once') and t.get('args'):
                    fi = self._fn_item_of(bj, t['args'][0])
                    if fi is not None and len(t['args']) > 1 and 'k' not in t['args'][1]:
                        # `f(x)` where f is a function item handed down (e.g. `for_each(StatementCache::clear)`): a direct call
                        tup = t['args'][1].get('m') or t['args'][1].get('c')
                        n_args = self._tuple_arity(bj, tup)
                        if n_args is not None:
                            t['f'] = copy.deepcopy(fi)
                            t['args'] = [{'m': {'l': tup['l'], 'pr': list(tup.get('pr', [])) + ['.%d' % i], 'own': list(tup.get('own', [])) + [None], 'ty': ''}} for i in range(n_args)]
                            inlined.append('fn-item-call:' + fi['k'].get('fn', '?')); changed = True
                            continue
                    cl = self._closure_of(bj, t['args'][0])
                    if cl is not None and cl in self.prog.bodies and not self.prog.bodies[cl].is_coroutine and inlined.count(cl) < 8 \
                            and self._crate_of(cl) in self.crates:
                        self._inline_call(bj, x, self.prog.bodies[cl].j, closure=True, const_env=getattr(self, '_last_closure_env', None))
                        inlined.append(cl); changed = True
        if not self.only_newtypes and thread_jumps(bj, enums=self.local_enums):
            inlined.append('jump-threading')
        if self.newtypes and self._flatten_newtypes(bj):
            inlined.append('newtype-flattening')
        if not inlined:
            return body
        nb = Body(body.crate, bj)
        nb.inlined = inlined
        return nb

    def _new_local(self, bj, ty, line, like=None):
        parts = {'adts': sorted(set(re.findall(r'[A-Za-z_][\w]*(?:::[A-Za-z_][\w]*)+', ty))), 'params': [], 'closures': []}
        if like is not None:
            parts = copy.deepcopy(bj['locals'][like]['parts'])
        bj['locals'].append({'ty': ty, 'parts': parts, 'user': False, 'mut': True, 'line': line})
        return len(bj['locals']) - 1

    def _desugar_combinator(self, bj, x, fn0):
        """`o.is_some_and(f)` => match o { Some(v) => f(v), None => false } (and the siblings in COMBINATORS)"""
        adt, hit, miss_value, n_args = COMBINATORS[fn0]
        blk = bj['blocks'][x]
        t = blk['term']
        args = t.get('args', [])
        if len(args) != n_args or t.get('t') is None:
            return False
        o = args[0]
        op_place = o.get('m') or o.get('c')
        if op_place is None:
            return False
        oty = op_place.get('ty', '')
        if not oty.startswith(adt + '<'):
            return False
        line = t.get('line', 0)
        targs = split_generic_args(oty)
        variants = {'std::option::Option': {'0': 'None', '1': 'Some'}, 'std::result::Result': {'0': 'Ok', '1': 'Err'}}[adt]
        hit_idx = [k for k, v in variants.items() if v == hit][0]
        pay_ty = targs[0] if hit in ('Some', 'Ok') else (targs[1] if len(targs) > 1 else '')
        lo_ = self._new_local(bj, oty, line, like=op_place['l'] if not op_place.get('pr') else None)
        f = args[-1]
        fl = None
        if 'k' not in f:
            fp = f.get('m') or f.get('c')
            fl = self._new_local(bj, fp.get('ty', ''), line, like=fp['l'] if not fp.get('pr') else None)
        ld = self._new_local(bj, 'isize', line)
        lx = self._new_local(bj, pay_ty, line)
        ltup = self._new_local(bj, '(%s,)' % pay_ty, line)
        blk['stmts'].append(_assign(lo_, copy.deepcopy(o), line))
        if fl is not None:
            blk['stmts'].append(_assign(fl, copy.deepcopy(f), line))
        oplace = {'l': lo_, 'pr': [], 'own': [], 'ty': oty}
        blk['stmts'].append({'k': 'assign', 'p': {'l': ld, 'pr': [], 'own': [], 'ty': 'isize'}, 'rv': {'k': 'discr', 'p': copy.deepcopy(oplace)}, 'line': line})
        nb = len(bj['blocks'])
        b_hit, b_miss, b_un = nb, nb + 1, nb + 2
        arms = [[k, b_hit if k == hit_idx else b_miss] for k in sorted(variants)]
        blk['term'] = {'k': 'switch', 'd': {'m': {'l': ld, 'pr': [], 'own': [], 'ty': 'isize'}}, 'arms': arms, 'otherwise': b_un, 'dty': 'isize',
                       'on': copy.deepcopy(oplace), 'adt': adt, 'variants': variants, 'line': line, 'desugared': fn0}
        pay = {'l': lo_, 'pr': ['@' + hit, '.0'], 'own': [None, adt], 'ty': pay_ty}
        hit_stmts = [_assign(lx, {'m': pay}, line)]
        if fl is not None:
            hit_stmts.append({'k': 'assign', 'p': {'l': ltup, 'pr': [], 'own': [], 'ty': ''}, 'rv': {'k': 'agg', 'ak': 'tuple', 'ops': [{'m': {'l': lx, 'pr': [], 'own': [], 'ty': pay_ty}}]}, 'line': line})
            callee = {'k': {'v': 'std::ops::FnOnce::call_once', 'ty': '', 'fn': 'std::ops::FnOnce::call_once', 'fn_inst': 'std::ops::FnOnce::call_once', 'targs': []}}
            cargs = [{'m': {'l': fl, 'pr': [], 'own': [], 'ty': ''}}, {'m': {'l': ltup, 'pr': [], 'own': [], 'ty': ''}}]
        else:
            callee = copy.deepcopy(f)
            cargs = [{'m': {'l': lx, 'pr': [], 'own': [], 'ty': pay_ty}}]
        bj['blocks'].append({'cleanup': False, 'stmts': hit_stmts,
                             'term': {'k': 'call', 'f': callee, 'args': cargs, 'dest': copy.deepcopy(t['dest']), 't': t['t'], 'u': t.get('u', 'continue'), 'line': line}})
        if miss_value == 'arg1':
            mv = copy.deepcopy(args[1])
        else:
            mv = {'k': {'v': miss_value, 'ty': 'bool'}}
        bj['blocks'].append({'cleanup': False, 'stmts': [{'k': 'assign', 'p': copy.deepcopy(t['dest']), 'rv': {'k': 'use', 'op': mv}, 'line': line}],
                             'term': {'k': 'goto', 't': t['t'], 'line': line}})
        bj['blocks'].append({'cleanup': False, 'stmts': [], 'term': {'k': 'unreachable', 'line': line}})
        return True


    def _desugar_value_combinator(self, bj, x, fn0):
        """`c.then_some(v)` => if c { Some(v) } else { None };  `o.ok_or(e)` / `o.ok_or_else(f)` => match o { Some(v) => Ok(v),
        None => Err(e | f()) }: the branch these stand for becomes a switch that the path rules can follow"""
        blk = bj['blocks'][x]
        t = blk['term']
        args = t.get('args', [])
        if t.get('t') is None or not t.get('dest'):
            return False
        tail = fn0.split('::')[-1]
        if tail in ('unwrap_or_default', 'unwrap_or', 'unwrap_or_else', 'map_or_else'):
            return self._desugar_option_default(bj, x, tail)
        if tail == 'filter':
            return self._desugar_option_filter(bj, x)
        if len(args) != 2:
            return False
        line = t.get('line', 0)
        dest = t['dest']
        dty = dest.get('ty', '') or bj['locals'][dest['l']]['ty']
        nb = len(bj['blocks'])
        def agg(adt, variant, ops):
            return {'k': 'assign', 'p': copy.deepcopy(dest), 'rv': {'k': 'agg', 'ak': 'adt', 'adt': adt, 'variant': variant, 'fields': [str(i) for i in range(len(ops))], 'ops': ops}, 'line': line}
        if fn0 == 'core::bool::then_some' or fn0.endswith('bool::then_some'):
            c, v = args
            lc = self._new_local(bj, 'bool', line)
            blk['stmts'].append(_assign(lc, copy.deepcopy(c), line))
            lv = None
            if 'k' not in v and ((v.get('m') or v.get('c')) or {}).get('pr'):
                vp = v.get('m') or v.get('c')
                lv = self._new_local(bj, vp.get('ty', ''), line, like=vp['l'] if not vp.get('pr') else None)
                blk['stmts'].append(_assign(lv, copy.deepcopy(v), line))
            vop = copy.deepcopy(v) if lv is None else {'m': {'l': lv, 'pr': [], 'own': [], 'ty': bj['locals'][lv]['ty']}}
            blk['term'] = {'k': 'switch', 'd': {'m': {'l': lc, 'pr': [], 'own': [], 'ty': 'bool'}}, 'arms': [['0', nb + 1]], 'otherwise': nb, 'dty': 'bool', 'line': line, 'desugared': fn0}
            bj['blocks'].append({'cleanup': False, 'stmts': [agg('std::option::Option', 'Some', [vop])], 'term': {'k': 'goto', 't': t['t'], 'line': line}})
            bj['blocks'].append({'cleanup': False, 'stmts': [agg('std::option::Option', 'None', [])], 'term': {'k': 'goto', 't': t['t'], 'line': line}})
            return True
        # Option::ok_or / ok_or_else
        o, e = args
        op_place = o.get('m') or o.get('c')
        if op_place is None:
            return False
        oty = op_place.get('ty', '') or bj['locals'][op_place['l']]['ty']
        if not oty.startswith('std::option::Option<'):
            return False
        pay_ty = split_generic_args(oty)[0]
        lo_ = self._new_local(bj, oty, line, like=op_place['l'] if not op_place.get('pr') else None)
        ld = self._new_local(bj, 'isize', line)
        blk['stmts'].append(_assign(lo_, copy.deepcopy(o), line))
        le = None
        if 'k' not in e and ((e.get('m') or e.get('c')) or {}).get('pr'):
            ep = e.get('m') or e.get('c')
            le = self._new_local(bj, ep.get('ty', ''), line, like=ep['l'] if not ep.get('pr') else None)
            blk['stmts'].append(_assign(le, copy.deepcopy(e), line))
        oplace = {'l': lo_, 'pr': [], 'own': [], 'ty': oty}
        blk['stmts'].append({'k': 'assign', 'p': {'l': ld, 'pr': [], 'own': [], 'ty': 'isize'}, 'rv': {'k': 'discr', 'p': copy.deepcopy(oplace)}, 'line': line})
        variants = {'0': 'None', '1': 'Some'}
        b_some, b_none, b_un, b_err = nb, nb + 1, nb + 2, nb + 3
        blk['term'] = {'k': 'switch', 'd': {'m': {'l': ld, 'pr': [], 'own': [], 'ty': 'isize'}}, 'arms': [['0', b_none], ['1', b_some]], 'otherwise': b_un, 'dty': 'isize',
                       'on': copy.deepcopy(oplace), 'adt': 'std::option::Option', 'variants': variants, 'line': line, 'desugared': fn0}
        pay = {'l': lo_, 'pr': ['@Some', '.0'], 'own': [None, 'std::option::Option'], 'ty': pay_ty}
        bj['blocks'].append({'cleanup': False, 'stmts': [agg('std::result::Result', 'Ok', [{'m': pay}])], 'term': {'k': 'goto', 't': t['t'], 'line': line}})
        eop = copy.deepcopy(e) if le is None else {'m': {'l': le, 'pr': [], 'own': [], 'ty': bj['locals'][le]['ty']}}
        if fn0.endswith('ok_or_else'):
            ety = split_generic_args(dty)[1] if dty.startswith('std::result::Result<') and len(split_generic_args(dty)) > 1 else ''
            lerr = self._new_local(bj, ety, line)
            ltup = self._new_local(bj, '()', line)
            if 'k' not in e:
                callee = {'k': {'v': 'std::ops::FnOnce::call_once', 'ty': '', 'fn': 'std::ops::FnOnce::call_once', 'fn_inst': 'std::ops::FnOnce::call_once', 'targs': []}}
                cargs = [eop, {'m': {'l': ltup, 'pr': [], 'own': [], 'ty': '()'}}]
                pre = [{'k': 'assign', 'p': {'l': ltup, 'pr': [], 'own': [], 'ty': '()'}, 'rv': {'k': 'agg', 'ak': 'tuple', 'ops': []}, 'line': line}]
            else:
                callee = copy.deepcopy(e); cargs = []; pre = []
            bj['blocks'].append({'cleanup': False, 'stmts': pre, 'term': {'k': 'call', 'f': callee, 'args': cargs, 'dest': {'l': lerr, 'pr': [], 'own': [], 'ty': ety}, 't': b_err, 'u': t.get('u', 'continue'), 'line': line}})
            bj['blocks'].append({'cleanup': False, 'stmts': [], 'term': {'k': 'unreachable', 'line': line}})
            bj['blocks'].append({'cleanup': False, 'stmts': [agg('std::result::Result', 'Err', [{'m': {'l': lerr, 'pr': [], 'own': [], 'ty': ety}}])], 'term': {'k': 'goto', 't': t['t'], 'line': line}})
        else:
            bj['blocks'].append({'cleanup': False, 'stmts': [agg('std::result::Result', 'Err', [eop])], 'term': {'k': 'goto', 't': t['t'], 'line': line}})
            bj['blocks'].append({'cleanup': False, 'stmts': [], 'term': {'k': 'unreachable', 'line': line}})
        return True



    def _desugar_option_filter(self, bj, x):
        """`o.filter(p)` => match o { Some(v) => if p(&v) { Some(v) } else { None }, None => None }"""
        blk = bj['blocks'][x]
        t = blk['term']
        args = t.get('args', [])
        if len(args) != 2 or 'k' in args[0]:
            return False
        o, f = args
        op_place = o.get('m') or o.get('c')
        oty = op_place.get('ty', '') or bj['locals'][op_place['l']]['ty']
        if not oty.startswith('std::option::Option<'):
            return False
        line = t.get('line', 0)
        dest = t['dest']
        pay_ty = split_generic_args(oty)[0]
        lo_ = self._new_local(bj, oty, line, like=op_place['l'] if not op_place.get('pr') else None)
        ld = self._new_local(bj, 'isize', line)
        lref = self._new_local(bj, '&' + pay_ty, line)
        ltup = self._new_local(bj, '(&%s,)' % pay_ty, line)
        lb = self._new_local(bj, 'bool', line)
        blk['stmts'].append(_assign(lo_, copy.deepcopy(o), line))
        oplace = {'l': lo_, 'pr': [], 'own': [], 'ty': oty}
        blk['stmts'].append({'k': 'assign', 'p': {'l': ld, 'pr': [], 'own': [], 'ty': 'isize'}, 'rv': {'k': 'discr', 'p': copy.deepcopy(oplace)}, 'line': line})
        nb = len(bj['blocks'])
        b_some, b_none, b_un, b_test, b_keep = nb, nb + 1, nb + 2, nb + 3, nb + 4
        blk['term'] = {'k': 'switch', 'd': {'m': {'l': ld, 'pr': [], 'own': [], 'ty': 'isize'}}, 'arms': [['0', b_none], ['1', b_some]], 'otherwise': b_un, 'dty': 'isize',
                       'on': copy.deepcopy(oplace), 'adt': 'std::option::Option', 'variants': {'0': 'None', '1': 'Some'}, 'line': line, 'desugared': 'filter'}
        pay = {'l': lo_, 'pr': ['@Some', '.0'], 'own': [None, 'std::option::Option'], 'ty': pay_ty}
        call_once = {'k': {'v': 'std::ops::FnOnce::call_once', 'ty': '', 'fn': 'std::ops::FnOnce::call_once', 'fn_inst': 'std::ops::FnOnce::call_once', 'targs': []}}
        none_stmt = {'k': 'assign', 'p': copy.deepcopy(dest), 'rv': {'k': 'agg', 'ak': 'adt', 'adt': 'std::option::Option', 'variant': 'None', 'fields': [], 'ops': []}, 'line': line}
        # Some: test the predicate on a reference to the payload
        pre = [{'k': 'assign', 'p': {'l': lref, 'pr': [], 'own': [], 'ty': '&' + pay_ty}, 'rv': {'k': 'ref', 'p': copy.deepcopy(pay), 'mut': False}, 'line': line},
               {'k': 'assign', 'p': {'l': ltup, 'pr': [], 'own': [], 'ty': ''}, 'rv': {'k': 'agg', 'ak': 'tuple', 'ops': [{'m': {'l': lref, 'pr': [], 'own': [], 'ty': '&' + pay_ty}}]}, 'line': line}]
        fop = copy.deepcopy(f)
        if 'k' in fop:
            callee = fop; cargs = [{'m': {'l': lref, 'pr': [], 'own': [], 'ty': '&' + pay_ty}}]; pre = pre[:1]
        else:
            callee = call_once; cargs = [fop, {'m': {'l': ltup, 'pr': [], 'own': [], 'ty': ''}}]
        bj['blocks'].append({'cleanup': False, 'stmts': pre, 'term': {'k': 'call', 'f': callee, 'args': cargs, 'dest': {'l': lb, 'pr': [], 'own': [], 'ty': 'bool'}, 't': b_test, 'u': t.get('u', 'continue'), 'line': line}})
        bj['blocks'].append({'cleanup': False, 'stmts': [copy.deepcopy(none_stmt)], 'term': {'k': 'goto', 't': t['t'], 'line': line}})
        bj['blocks'].append({'cleanup': False, 'stmts': [], 'term': {'k': 'unreachable', 'line': line}})
        b_drop = nb + 5          # (the value was there and the predicate said no: a block of its own, not the None arm's)
        bj['blocks'].append({'cleanup': False, 'stmts': [], 'term': {'k': 'switch', 'd': {'m': {'l': lb, 'pr': [], 'own': [], 'ty': 'bool'}}, 'arms': [['0', b_drop]], 'otherwise': b_keep, 'dty': 'bool', 'line': line}})
        bj['blocks'].append({'cleanup': False, 'stmts': [{'k': 'assign', 'p': copy.deepcopy(dest), 'rv': {'k': 'agg', 'ak': 'adt', 'adt': 'std::option::Option', 'variant': 'Some', 'fields': ['0'], 'ops': [{'m': copy.deepcopy(pay)}]}, 'line': line}],
                             'term': {'k': 'goto', 't': t['t'], 'line': line}})
        bj['blocks'].append({'cleanup': False, 'stmts': [copy.deepcopy(none_stmt)], 'term': {'k': 'goto', 't': t['t'], 'line': line}})
        return True

    def _desugar_option_default(self, bj, x, tail):
        """`o.unwrap_or_default()` / `o.unwrap_or(v)` / `o.unwrap_or_else(f)` / `o.map_or_else(d, f)` => match o { Some(v) => v | f(v),
        None => Default::default() | v | f() | d() }"""
        blk = bj['blocks'][x]
        t = blk['term']
        args = t.get('args', [])
        want = {'unwrap_or_default': 1, 'unwrap_or': 2, 'unwrap_or_else': 2, 'map_or_else': 3}[tail]
        if len(args) != want:
            return False
        o = args[0]
        op_place = o.get('m') or o.get('c')
        if op_place is None:
            return False
        oty = op_place.get('ty', '') or bj['locals'][op_place['l']]['ty']
        if not oty.startswith('std::option::Option<'):
            return False
        line = t.get('line', 0)
        dest = t['dest']
        dty = dest.get('ty', '') or bj['locals'][dest['l']]['ty']
        pay_ty = split_generic_args(oty)[0]
        lo_ = self._new_local(bj, oty, line, like=op_place['l'] if not op_place.get('pr') else None)
        ld = self._new_local(bj, 'isize', line)
        blk['stmts'].append(_assign(lo_, copy.deepcopy(o), line))
        oplace = {'l': lo_, 'pr': [], 'own': [], 'ty': oty}
        blk['stmts'].append({'k': 'assign', 'p': {'l': ld, 'pr': [], 'own': [], 'ty': 'isize'}, 'rv': {'k': 'discr', 'p': copy.deepcopy(oplace)}, 'line': line})
        nb = len(bj['blocks'])
        b_some, b_none, b_un = nb, nb + 1, nb + 2
        blk['term'] = {'k': 'switch', 'd': {'m': {'l': ld, 'pr': [], 'own': [], 'ty': 'isize'}}, 'arms': [['0', b_none], ['1', b_some]], 'otherwise': b_un, 'dty': 'isize',
                       'on': copy.deepcopy(oplace), 'adt': 'std::option::Option', 'variants': {'0': 'None', '1': 'Some'}, 'line': line, 'desugared': tail}
        pay = {'l': lo_, 'pr': ['@Some', '.0'], 'own': [None, 'std::option::Option'], 'ty': pay_ty}
        call_once = {'k': {'v': 'std::ops::FnOnce::call_once', 'ty': '', 'fn': 'std::ops::FnOnce::call_once', 'fn_inst': 'std::ops::FnOnce::call_once', 'targs': []}}
        def call_blk(fop, arg_ops, pre):
            if 'k' in fop:
                return {'cleanup': False, 'stmts': pre, 'term': {'k': 'call', 'f': copy.deepcopy(fop), 'args': arg_ops, 'dest': copy.deepcopy(dest), 't': t['t'], 'u': t.get('u', 'continue'), 'line': line}}
            ltup = self._new_local(bj, '(..)', line)
            pre = pre + [{'k': 'assign', 'p': {'l': ltup, 'pr': [], 'own': [], 'ty': ''}, 'rv': {'k': 'agg', 'ak': 'tuple', 'ops': arg_ops}, 'line': line}]
            return {'cleanup': False, 'stmts': pre, 'term': {'k': 'call', 'f': copy.deepcopy(call_once), 'args': [copy.deepcopy(fop), {'m': {'l': ltup, 'pr': [], 'own': [], 'ty': ''}}], 'dest': copy.deepcopy(dest), 't': t['t'], 'u': t.get('u', 'continue'), 'line': line}}
        # Some arm
        if tail == 'map_or_else':
            lx = self._new_local(bj, pay_ty, line)
            some_blk = call_blk(args[2], [{'m': {'l': lx, 'pr': [], 'own': [], 'ty': pay_ty}}], [_assign(lx, {'m': pay}, line)])
        else:
            some_blk = {'cleanup': False, 'stmts': [{'k': 'assign', 'p': copy.deepcopy(dest), 'rv': {'k': 'use', 'op': {'m': pay}}, 'line': line}], 'term': {'k': 'goto', 't': t['t'], 'line': line}}
        # None arm
        if tail == 'unwrap_or':
            none_blk = {'cleanup': False, 'stmts': [{'k': 'assign', 'p': copy.deepcopy(dest), 'rv': {'k': 'use', 'op': copy.deepcopy(args[1])}, 'line': line}], 'term': {'k': 'goto', 't': t['t'], 'line': line}}
        elif tail == 'unwrap_or_default':
            dfn = '<%s as std::default::Default>::default' % dty
            none_blk = {'cleanup': False, 'stmts': [], 'term': {'k': 'call', 'f': {'k': {'v': dfn, 'ty': '', 'fn': dfn, 'rfn': dfn, 'fn_inst': dfn, 'targs': []}}, 'args': [], 'dest': copy.deepcopy(dest), 't': t['t'], 'u': t.get('u', 'continue'), 'line': line}}
        else:
            none_blk = call_blk(args[1], [], [])
        bj['blocks'].append(some_blk)
        bj['blocks'].append(none_blk)
        bj['blocks'].append({'cleanup': False, 'stmts': [], 'term': {'k': 'unreachable', 'line': line}})
        return True


    def _desugar_converting_residual(self, bj, x):
        """`r?` where the error type of `r` differs from the function's and the conversion is an impl of the analysed crates:
        `from_residual(r)` => `Err(<F as From<E>>::from(r.err))` (what the std impl does), so that the conversion is inlined"""
        blk = bj['blocks'][x]
        t = blk['term']
        c = t['f']['k']
        ta = c.get('targs', [])
        args = t.get('args', [])
        if len(ta) != 2 or len(args) != 1 or 'k' in args[0] or t.get('t') is None or not t.get('dest'):
            return False
        if not (ta[0].startswith('std::result::Result<') and ta[1].startswith('std::result::Result<std::convert::Infallible,')):
            return False
        f_ty = split_generic_args(ta[0])[-1]
        e_ty = split_generic_args(ta[1])[-1]
        if f_ty == e_ty:
            return False
        p2 = '<%s as std::convert::From<%s>>::from' % (f_ty, e_ty)
        if p2 not in self.inlinable:
            return False
        line = t.get('line', 0)
        rp = args[0].get('m') or args[0].get('c')
        le = self._new_local(bj, e_ty, line)
        lf = self._new_local(bj, f_ty, line)
        pay = {'l': rp['l'], 'pr': list(rp.get('pr', [])) + ['@Err', '.0'], 'own': list(rp.get('own', [])) + [None, 'std::result::Result'], 'ty': e_ty}
        blk['stmts'].append(_assign(le, {'m': pay}, line))
        nb = len(bj['blocks'])
        dest = t['dest']
        blk['term'] = {'k': 'call', 'f': {'k': {'v': p2, 'ty': '', 'fn': 'std::convert::From::from', 'fn_inst': p2, 'targs': [f_ty, e_ty], 'trait': 'std::convert::From',
                                                 'rfn': p2, 'rfn_inst': p2, 'rk': 'item'}},
                       'args': [{'m': {'l': le, 'pr': [], 'own': [], 'ty': e_ty}}], 'dest': {'l': lf, 'pr': [], 'own': [], 'ty': f_ty}, 't': nb, 'u': t.get('u', 'continue'), 'line': line,
                       'desugared': 'converting-residual'}
        bj['blocks'].append({'cleanup': False, 'stmts': [{'k': 'assign', 'p': copy.deepcopy(dest),
                                                           'rv': {'k': 'agg', 'ak': 'adt', 'adt': 'std::result::Result', 'variant': 'Err', 'fields': ['0'],
                                                                  'ops': [{'m': {'l': lf, 'pr': [], 'own': [], 'ty': f_ty}}], 'from_residual': True}, 'line': line}],
                             'term': {'k': 'goto', 't': t['t'], 'line': line}})
        return True

    def _is_const_zero(self, bj, op, depth=0):
        if 'k' in op:
            return str(op['k'].get('v', '')).split('_')[0] == '0' and str(op['k'].get('ty', 'usize')) in ('usize', '')
        if depth > 4:
            return False
        pl = op.get('m') or op.get('c')
        if pl is None or pl.get('pr'):
            return False
        ds = self._all_defs(bj, pl['l'])
        return len(ds) == 1 and ds[0][0] == 'stmt' and ds[0][2]['rv']['k'] == 'use' and self._is_const_zero(bj, ds[0][2]['rv']['op'], depth + 1)

    SCALARS = ('usize', 'isize', 'u8', 'u16', 'u32', 'u64', 'u128', 'i8', 'i16', 'i32', 'i64', 'i128', 'bool')

    def _desugar_scalar_replace(self, bj, x):
        """`let old = mem::replace(&mut place, new)` on a plain integer / bool place is `let old = place; place = new;`"""
        blk = bj['blocks'][x]
        t = blk['term']
        args = t.get('args', [])
        if len(args) != 2 or t.get('t') is None or not t.get('dest') or 'k' in args[0]:
            return False
        rp = args[0].get('m') or args[0].get('c')
        if rp.get('pr'):
            return False
        d = self._def_of(bj, rp['l'])
        if d is None or d[0] != 'stmt' or d[2]['rv']['k'] != 'ref' or d[1] != x:
            return False
        place = d[2]['rv']['p']
        # through reborrows made in this block: `&mut *r` with `r = &mut slots.max_size`
        for _ in range(3):
            if place.get('pr') == ['*']:
                d2 = self._def_of(bj, place['l'])
                if d2 is not None and d2[0] == 'stmt' and d2[2]['rv']['k'] == 'ref' and d2[1] == x:
                    place = d2[2]['rv']['p']; continue
            break
        ty = place.get('ty') or (bj['locals'][place['l']]['ty'] if not place.get('pr') else '')
        if ty not in self.SCALARS:
            return False
        line = t.get('line', 0)
        blk['stmts'].append({'k': 'assign', 'p': copy.deepcopy(t['dest']), 'rv': {'k': 'use', 'op': {'c': copy.deepcopy(place)}}, 'line': line})
        blk['stmts'].append({'k': 'assign', 'p': copy.deepcopy(place), 'rv': {'k': 'use', 'op': copy.deepcopy(args[1])}, 'line': line})
        blk['term'] = {'k': 'goto', 't': t['t'], 'line': line, 'desugared': 'mem::replace'}
        return True

    def _desugar_cas_loop(self, bj, x):
        """a compare-exchange retry loop that stores `expected.wrapping_add(k)` / `wrapping_sub(k)` (or the plain operator) is
        `fetch_add(k)` / `fetch_sub(k)`: the call is replaced by that read-modify-write and its result by `Ok(old)`, which makes the
        retry arm unreachable.  Only when the expected value comes from a load of the same atomic or from the failed attempt."""
        blk = bj['blocks'][x]
        t = blk['term']
        args = t.get('args', [])
        if len(args) != 5 or t.get('t') is None or not t.get('dest') or t['dest'].get('pr'):
            return False
        exp, new = args[1], args[2]
        if 'k' in exp or 'k' in new:
            return False
        el = (exp.get('m') or exp.get('c'))
        nl = (new.get('m') or new.get('c'))
        if el.get('pr') or nl.get('pr'):
            return False
        # new = wrapping_op(expected, k) | expected op k
        dn = self._all_defs(bj, nl['l'])
        if len(dn) != 1:
            return False
        op_ = None; k_ = None
        if dn[0][0] == 'call':
            tt = dn[0][2]
            fn = strip_generics(tt['f'].get('k', {}).get('fn', '')) if 'k' in tt.get('f', {}) else ''
            m = fn.split('::')[-1]
            if m in ('wrapping_add', 'wrapping_sub') and len(tt.get('args', [])) == 2 and 'k' in tt['args'][1]:
                a0 = tt['args'][0].get('m') or tt['args'][0].get('c')
                if a0 and not a0.get('pr') and self._same_value(bj, a0['l'], el['l']):
                    op_ = 'fetch_add' if m == 'wrapping_add' else 'fetch_sub'; k_ = tt['args'][1]
        if op_ is None:
            return False
        # expected: defined by a load of an atomic and/or by the Err payload of this very call
        ok_src = True
        for d in self._all_defs(bj, self._root_copy(bj, el['l'])):
            if d[0] == 'call':
                fn = strip_generics(d[2]['f'].get('k', {}).get('fn', '')) if 'k' in d[2].get('f', {}) else ''
                if not (fn.endswith('::load') and 'atomic' in fn):
                    ok_src = False
            else:
                rv = d[2]['rv']
                src = rv.get('op') if rv['k'] == 'use' else None
                pl = (src.get('m') or src.get('c')) if src and 'k' not in src else None
                # through plain copies to the place read: the payload of this call's Err
                for _ in range(6):
                    if pl is None or pl.get('pr'):
                        break
                    dd = self._all_defs(bj, pl['l'])
                    if len(dd) == 1 and dd[0][0] == 'stmt' and dd[0][2]['rv']['k'] == 'use' and 'k' not in dd[0][2]['rv']['op']:
                        pl = dd[0][2]['rv']['op'].get('m') or dd[0][2]['rv']['op'].get('c'); continue
                    pl = None
                if not (pl and pl.get('pr') and pl['pr'][0].startswith('@Err') and self._root_copy(bj, pl['l']) == self._root_copy(bj, t['dest']['l'])):
                    ok_src = False
        if not ok_src:
            return False
        # it must really be a retry loop: the failed attempt feeds the next one and the call is reached again from its own Err arm
        # (a single attempt whose failure is ignored loses the update under contention - that is not a fetch_add)
        retried = any(d[0] == 'stmt' for d in self._all_defs(bj, self._root_copy(bj, el['l'])))
        seen_ = set(); work_ = [t['t']]
        while work_:
            y = work_.pop()
            if y in seen_ or y is None or y >= len(bj['blocks']):
                continue
            seen_.add(y)
            ty_ = bj['blocks'][y]['term']
            for key_ in ('t', 'otherwise'):
                if isinstance(ty_.get(key_), int):
                    work_.append(ty_[key_])
            for arm_ in ty_.get('arms', []):
                work_.append(arm_[1])
        if not retried or x not in seen_:
            return False
        line = t.get('line', 0)
        old = self._new_local(bj, 'usize', line)
        fn_name = 'std::sync::atomic::Atomic::<usize>::' + op_
        nb = len(bj['blocks'])
        res_ty = t['dest'].get('ty', '')
        bj['blocks'].append({'cleanup': False,
                             'stmts': [{'k': 'assign', 'p': copy.deepcopy(t['dest']), 'rv': {'k': 'agg', 'ak': 'adt', 'adt': 'std::result::Result', 'variant': 'Ok', 'fields': ['0'],
                                                                                              'ops': [{'c': {'l': old, 'pr': [], 'own': [], 'ty': 'usize'}}]}, 'line': line}],
                             'term': {'k': 'goto', 't': t['t'], 'line': line}})
        blk['term'] = {'k': 'call', 'f': {'k': {'v': fn_name, 'ty': '', 'fn': fn_name, 'rfn': fn_name, 'fn_inst': fn_name, 'targs': ['usize']}},
                       'args': [copy.deepcopy(args[0]), copy.deepcopy(k_), copy.deepcopy(args[3])], 'dest': {'l': old, 'pr': [], 'own': [], 'ty': 'usize'},
                       't': nb, 'u': t.get('u', 'continue'), 'line': line, 'desugared': 'cas-loop'}
        return True

    def _root_copy(self, bj, l, depth=0):
        """follow `_a = copy/move _b` chains with a single definition back to the local they copy"""
        for _ in range(6):
            ds = self._all_defs(bj, l)
            if len(ds) == 1 and ds[0][0] == 'stmt' and ds[0][2]['rv']['k'] == 'use' and 'k' not in ds[0][2]['rv']['op']:
                p = ds[0][2]['rv']['op'].get('m') or ds[0][2]['rv']['op'].get('c')
                if not p.get('pr'):
                    l = p['l']; continue
            break
        return l

    def _same_value(self, bj, a, b):
        return self._root_copy(bj, a) == self._root_copy(bj, b)


    def _flatten_newtypes(self, bj):
        """the representation normal form of a transparent counter: `slots.size.0` is `slots.size`, `SlotCount(x)` is `x`, and a
        reference to such a field made only to call one of the (inlined) methods of the newtype is read through: `(*r).0` with
        `r = &mut slots.size` is `slots.size`.  Returns True if anything changed."""
        NT = self.newtypes
        changed = [False]
        def is_nt_ty(ty):
            t = (ty or '').strip()
            for pre in ('&mut ', '&'):
                if t.startswith(pre):
                    t = t[len(pre):]
                    if t.startswith("'"):
                        t = t.split(' ', 1)[1] if ' ' in t else t
                    if t.startswith('mut '):
                        t = t[4:]
            return strip_generics(t).split('<')[0] in NT
        # references to newtype-typed places with a single definition
        defs = {}
        for i, blk in enumerate(bj['blocks']):
            for st in blk['stmts']:
                if st['k'] == 'assign' and not st['p'].get('pr'):
                    defs.setdefault(st['p']['l'], []).append(st)
            tt = blk['term']
            if tt['k'] == 'call' and tt.get('dest') and not tt['dest'].get('pr'):
                defs.setdefault(tt['dest']['l'], []).append(None)
        argc = bj.get('arg_count', 0)
        fwd = {}
        def resolve(l, depth=0):
            if l in fwd:
                return fwd[l]
            if depth > 6 or l <= argc or len(defs.get(l, [])) != 1 or defs[l][0] is None:
                return None
            rv = defs[l][0]['rv']
            if rv['k'] == 'use' and 'k' not in rv['op']:
                p = rv['op'].get('m') or rv['op'].get('c')
                if not p.get('pr'):
                    return resolve(p['l'], depth + 1)
                return None
            if rv['k'] == 'ref':
                p = rv['p']
                if p.get('pr') == ['*']:
                    return resolve(p['l'], depth + 1)          # reborrow
                if is_nt_ty(bj['locals'][l]['ty']):
                    # the locals the place is built from must themselves be defined once
                    if p['l'] > argc and len(defs.get(p['l'], [])) != 1:
                        return None
                    return p
            return None
        for l in list(defs):
            if is_nt_ty(bj['locals'][l]['ty']):
                r_ = resolve(l)
                if r_ is not None:
                    fwd[l] = r_
        def fix_place(p):
            pr = p.get('pr') or []
            own = p.get('own') or []
            if pr and pr[0] == '*' and p['l'] in fwd:
                tgt = fwd[p['l']]
                p['l'] = tgt['l']
                p['pr'] = list(tgt.get('pr') or []) + pr[1:]
                p['own'] = (list(tgt.get('own') or []) + [None] * len(tgt.get('pr') or []))[:len(tgt.get('pr') or [])] + (own[1:] if len(own) == len(pr) else [None] * (len(pr) - 1))
                changed[0] = True
                pr = p['pr']; own = p['own']
            if any(o in NT for o in own if o):
                keep = [k for k in range(len(pr)) if not (k < len(own) and own[k] in NT)]
                p['pr'] = [pr[k] for k in keep]
                p['own'] = [own[k] if k < len(own) else None for k in keep]
                changed[0] = True
        consts = {}
        for c_ in self.prog.crates.values():
            for k_ in c_.j.get('consts', []) or []:
                if strip_generics(k_.get('ty', '')).split('<')[0] in NT:
                    m_ = re.match(r'^.*\((.*)\)$', str(k_.get('value', '')))
                    if m_:
                        consts[k_['path']] = (m_.group(1), NT[strip_generics(k_['ty']).split('<')[0]])
        def fix_operand(o):
            if isinstance(o, dict):
                if 'c' in o:
                    fix_place(o['c'])
                elif 'm' in o:
                    fix_place(o['m'])
                elif 'k' in o and isinstance(o['k'], dict):
                    # an associated constant of the newtype (`SlotCount::ZERO`) is the literal it wraps
                    key = strip_generics(str(o['k'].get('v', '')))
                    if key in consts:
                        o['k']['v'], o['k']['ty'] = consts[key]
                        changed[0] = True
        for blk in bj['blocks']:
            for st in blk['stmts']:
                if 'p' in st and isinstance(st['p'], dict):
                    fix_place(st['p'])
                rv = st.get('rv')
                if rv:
                    if rv['k'] == 'agg' and rv.get('ak') == 'adt' and strip_generics(rv.get('adt', '')).split('<')[0] in NT and len(rv.get('ops', [])) == 1:
                        st['rv'] = {'k': 'use', 'op': rv['ops'][0]}
                        rv = st['rv']; changed[0] = True
                    for k in ('op', 'a', 'b'):
                        if k in rv and isinstance(rv[k], dict):
                            fix_operand(rv[k])
                    if 'p' in rv and isinstance(rv['p'], dict):
                        fix_place(rv['p'])
                    for o in rv.get('ops', []):
                        fix_operand(o)
            tt = blk['term']
            for k in ('p', 'dest', 'on'):
                if k in tt and isinstance(tt[k], dict):
                    fix_place(tt[k])
            for k in ('d', 'cond', 'value'):
                if k in tt and isinstance(tt[k], dict):
                    fix_operand(tt[k])
            for a in tt.get('args', []):
                fix_operand(a)
        for loc in bj['locals']:
            base = strip_generics(loc['ty']).split('<')[0]
            if base in NT:
                loc['ty'] = NT[base]; changed[0] = True
            elif is_nt_ty(loc['ty']):
                for n_, inner in NT.items():
                    if n_ in loc['ty']:
                        loc['ty'] = loc['ty'].replace(n_, inner); changed[0] = True
        return changed[0]

    def _all_defs(self, bj, l):
        out = []
        for i, blk in enumerate(bj['blocks']):
            for s in blk['stmts']:
                if s['k'] == 'assign' and s['p']['l'] == l and not s['p']['pr']:
                    out.append(('stmt', i, s))
            tt = blk['term']
            if tt['k'] == 'call' and tt.get('dest') and tt['dest']['l'] == l and not tt['dest'].get('pr'):
                out.append(('call', i, tt))
        return out

    def _desugar_known_branch(self, bj, x):
        blk = bj['blocks'][x]
        t = blk['term']
        args = t.get('args', [])
        if len(args) != 1 or 'k' in args[0] or t.get('t') is None or not t.get('dest') or t['dest'].get('pr'):
            return False
        ap = args[0].get('m') or args[0].get('c')
        if ap.get('pr'):
            return False
        # every definition (through plain moves) is an aggregate of Result / Option
        l = ap['l']; adt = None
        seen = set()
        work = [l]
        aty_ = ap.get('ty') or bj['locals'][l]['ty']
        if aty_.startswith('std::option::Option<'):
            # `o?` on an Option is `match o { Some(v) => v, None => return None }` whatever `o` is: nothing is converted on the way
            adt = 'std::option::Option'
            work = []
        while work:
            y = work.pop()
            if y in seen:
                continue
            seen.add(y)
            ds = self._all_defs(bj, y)
            if not ds:
                return False
            for d in ds:
                if d[0] != 'stmt':
                    # `from_residual(r)` builds the failure variant of its result type, whatever r is
                    ty_ = bj['locals'][y]['ty']
                    if d[0] == 'call' and 'k' in d[2]['f'] and d[2]['f']['k'].get('fn') == 'std::ops::FromResidual::from_residual' and \
                            ty_.split('<')[0] in ('std::result::Result', 'std::option::Option'):
                        adt = ty_.split('<')[0]
                        continue
                    return False
                rv = d[2]['rv']
                if rv['k'] == 'use' and 'k' not in rv['op'] and not (rv['op'].get('m') or rv['op'].get('c')).get('pr'):
                    work.append((rv['op'].get('m') or rv['op'].get('c'))['l'])
                elif rv['k'] == 'use' and 'k' not in rv['op'] and (rv['op'].get('m') or rv['op'].get('c')).get('pr') == ['@Ready', '.0']:
                    # the result of an await whose helper was inlined: `_p = Poll::Ready(_y)` at each return of the helper
                    pl_ = (rv['op'].get('m') or rv['op'].get('c'))['l']
                    ok_ = True
                    for d2 in self._all_defs(bj, pl_):
                        r2 = d2[2]['rv'] if d2[0] == 'stmt' else None
                        if r2 and r2['k'] == 'agg' and r2.get('adt') == 'std::task::Poll' and r2.get('variant') == 'Ready' and r2.get('ops') and 'k' not in r2['ops'][0] and \
                                not (r2['ops'][0].get('m') or r2['ops'][0].get('c')).get('pr'):
                            work.append((r2['ops'][0].get('m') or r2['ops'][0].get('c'))['l'])
                        else:
                            ok_ = False
                    if not ok_:
                        return False
                elif rv['k'] == 'agg' and rv.get('ak') == 'adt' and rv.get('adt') in ('std::result::Result', 'std::option::Option'):
                    adt = rv['adt']
                else:
                    return False
        if adt is None:
            return False
        line = t.get('line', 0)
        variants = {'std::option::Option': {'0': 'None', '1': 'Some'}, 'std::result::Result': {'0': 'Ok', '1': 'Err'}}[adt]
        good = 'Ok' if adt.endswith('Result') else 'Some'
        bad = 'Err' if adt.endswith('Result') else 'None'
        lv = self._new_local(bj, ap.get('ty', adt), line, like=l)
        ld = self._new_local(bj, 'isize', line)
        blk['stmts'].append(_assign(lv, copy.deepcopy(args[0]), line))
        blk['stmts'].append({'k': 'assign', 'p': {'l': ld, 'pr': [], 'own': [], 'ty': 'isize'}, 'rv': {'k': 'discr', 'p': {'l': lv, 'pr': [], 'own': [], 'ty': ''}}, 'line': line})
        nb = len(bj['blocks'])
        gi = [k for k, v in variants.items() if v == good][0]
        bi = [k for k, v in variants.items() if v == bad][0]
        blk['term'] = {'k': 'switch', 'd': {'m': {'l': ld, 'pr': [], 'own': [], 'ty': 'isize'}}, 'arms': [[gi, nb], [bi, nb + 1]], 'otherwise': nb + 2, 'dty': 'isize',
                       'on': {'l': lv, 'pr': [], 'own': [], 'ty': ''}, 'adt': adt, 'variants': variants, 'line': line, 'desugared': 'Try::branch'}
        dest = t['dest']
        cf = 'std::ops::ControlFlow'
        bj['blocks'].append({'cleanup': False, 'stmts': [{'k': 'assign', 'p': copy.deepcopy(dest), 'rv': {'k': 'agg', 'ak': 'adt', 'adt': cf, 'variant': 'Continue', 'fields': ['0'],
                             'ops': [{'m': {'l': lv, 'pr': ['@' + good, '.0'], 'own': [None, adt], 'ty': ''}}]}, 'line': line}],
                             'term': {'k': 'goto', 't': t['t'], 'line': line}})
        lr = self._new_local(bj, adt, line)
        bad_ops = [{'m': {'l': lv, 'pr': ['@Err', '.0'], 'own': [None, adt], 'ty': ''}}] if bad == 'Err' else []
        bj['blocks'].append({'cleanup': False, 'stmts': [
            {'k': 'assign', 'p': {'l': lr, 'pr': [], 'own': [], 'ty': adt}, 'rv': {'k': 'agg', 'ak': 'adt', 'adt': adt, 'variant': bad, 'fields': ['0'] if bad_ops else [], 'ops': bad_ops}, 'line': line},
            {'k': 'assign', 'p': copy.deepcopy(dest), 'rv': {'k': 'agg', 'ak': 'adt', 'adt': cf, 'variant': 'Break', 'fields': ['0'], 'ops': [{'m': {'l': lr, 'pr': [], 'own': [], 'ty': adt}}]}, 'line': line}],
            'term': {'k': 'goto', 't': t['t'], 'line': line}})
        bj['blocks'].append({'cleanup': False, 'stmts': [], 'term': {'k': 'unreachable', 'line': line}})
        return True

    def _def_of(self, bj, l):
        """the unique definition of local l: ('stmt', block idx, stmt) | ('call', block idx, term) | None"""
        found = []
        for i, blk in enumerate(bj['blocks']):
            for s in blk['stmts']:
                if s['k'] == 'assign' and s['p']['l'] == l and not s['p']['pr']:
                    found.append(('stmt', i, s))
            tt = blk['term']
            if tt['k'] == 'call' and tt.get('dest') and tt['dest']['l'] == l and not tt['dest'].get('pr'):
                found.append(('call', i, tt))
        return found[0] if len(found) == 1 else None

    def _inline_await(self, bj, x, acb):
        """x: index of the block polling the coroutine `acb[0]`.  Rewrites ctor call .. poll loop .. Ready arm into the body."""
        cb, ctor, agg = acb
        blocks = bj['blocks']
        t = blocks[x]['term']
        if not t.get('dest') or t['dest'].get('pr') or t.get('t') is None:
            return False
        p_local = t['dest']['l']
        sw = blocks[t['t']]['term']
        if sw['k'] != 'switch' or sw.get('adt') != 'std::task::Poll' or not sw.get('variants'):
            return False
        arms = {sw['variants'].get(k): b_ for k, b_ in sw['arms']}
        ready, pending = arms.get('Ready'), arms.get('Pending')
        if ready is None or pending is None:
            return False
        # the yield of this await and its cancellation continuation
        cur = pending; yb = None
        for _ in range(8):
            tt = blocks[cur]['term']
            if tt['k'] == 'yield':
                yb = tt; break
            cur = tt.get('t')
            if cur is None or tt['k'] not in ('goto', 'drop'):
                break
        if yb is None:
            return False
        cancel_to = yb.get('cd')
        # back from the polled pin to the constructor call
        if not t.get('args') or 'k' in t['args'][0]:
            return False
        l = (t['args'][0].get('m') or t['args'][0].get('c'))['l']
        ctor_blk = None
        for _ in range(12):
            d = self._def_of(bj, l)
            if d is None:
                return False
            if d[0] == 'stmt':
                rv = d[2]['rv']
                if rv['k'] == 'use' and 'k' not in rv['op']:
                    l = (rv['op'].get('m') or rv['op'].get('c'))['l']; continue
                if rv['k'] in ('ref', 'copyderef'):
                    l = rv['p']['l']; continue
                return False
            tt = d[2]
            c = tt['f'].get('k', {}) if 'k' in tt.get('f', {}) else {}
            if (c.get('rfn') or c.get('fn')) == ctor.path:
                ctor_blk = d[1]; break
            fn = strip_generics(c.get('fn', ''))
            if fn.endswith('IntoFuture::into_future') or fn.endswith('Pin::new_unchecked') or fn.endswith('Pin::new'):
                a0 = tt['args'][0]
                if 'k' in a0:
                    return False
                l = (a0.get('m') or a0.get('c'))['l']; continue
            return False
        if ctor_blk is None:
            return False
        A = blocks[ctor_blk]
        at = A['term']
        line = at.get('line', 0)
        lo = len(bj['locals']); bo = len(blocks)
        cj = copy.deepcopy(cb.j)
        _instantiate_const_params(cj, ((at.get('f') or {}).get('k') or {}).get('targs') or [])
        bj.setdefault('helper_locals', []).append([lo, lo + len(cj['locals']), cj['path']])          # state of the helper's coroutine
        bj['locals'].extend(cj['locals'])
        for dbg in cj.get('debug', []):
            if 'p' in dbg:
                _remap_place(dbg['p'], lo)
                dbg.pop('arg', None)
                bj['debug'].append(dbg)
        # captured variables: upvar j of the coroutine is constructor parameter `agg.ops[j]`
        for j, op in enumerate(agg.rv.ops):
            if op.kind == 'const':
                continue
            k = op.place.local - 1            # index of the constructor argument
            if 0 <= k < len(at.get('args', [])):
                A['stmts'].append({'k': 'assign', 'p': {'l': lo + 1, 'pr': ['.%d' % j], 'own': [None], 'ty': ''},
                                   'rv': {'k': 'use', 'op': copy.deepcopy(at['args'][k])}, 'line': line})
        # the task context the helper's own awaits use
        A['stmts'].append(_assign(lo + 2, {'c': {'l': 2, 'pr': [], 'own': [], 'ty': ''}}, line))
        A['term'] = {'k': 'goto', 't': bo, 'line': line, 'inlined_await': cj['path']}
        unwind_to = t.get('u') if isinstance(t.get('u'), int) else None
        for cblk in cj['blocks']:
            kind = cblk['term']['k']
            ln = cblk['term'].get('line', 0)
            nb = _remap_block(cblk, lo, bo, None, None, unwind_to)
            if kind == 'return':
                nb['stmts'].append({'k': 'assign', 'p': {'l': p_local, 'pr': [], 'own': [], 'ty': ''},
                                    'rv': {'k': 'agg', 'ak': 'adt', 'adt': 'std::task::Poll', 'variant': 'Ready', 'fields': ['0'],
                                           'ops': [{'m': {'l': lo, 'pr': [], 'own': [], 'ty': ''}}]}, 'line': ln})
                nb['term'] = {'k': 'goto', 't': ready, 'line': ln, 'inlined_return': True}
            elif kind == 'coroutine_drop':
                nb['term'] = {'k': 'goto', 't': cancel_to, 'line': ln} if cancel_to is not None else {'k': 'unreachable', 'line': ln}
            elif kind == 'yield':
                # for the compiler's layout of the OUTER coroutine this suspension is the outer await
                nb['term'].setdefault('await_line', yb.get('await_line', yb.get('line', 0)))
                nb['term']['inlined_from'] = cj['path']
            blocks.append(nb)
        _prune_unreachable(bj)
        return True

    def _tuple_arity(self, bj, place):
        if place is None or place.get('pr'):
            return None
        for blk in bj['blocks']:
            for s in blk['stmts']:
                if s['k'] == 'assign' and s['p']['l'] == place['l'] and not s['p']['pr'] and s['rv']['k'] == 'agg' and s['rv'].get('ak') == 'tuple':
                    return len(s['rv']['ops'])
        return None

    def _fn_item_of(self, bj, operand, depth=0):
        """the function-item constant the operand refers to (directly, through refs / moves of a zero-sized fn-def value)"""
        if depth > 6:
            return None
        if 'k' in operand:
            return operand if operand['k'].get('fn') and operand['k'].get('rk', 'item') in ('item', None) and (operand['k'].get('rfn') or operand['k'].get('fn')) else None
        p = operand.get('c') or operand.get('m')
        if p is None or [e for e in p.get('pr', []) if e != '*']:
            return None
        defs = [s for blk in bj['blocks'] for s in blk['stmts'] if s['k'] == 'assign' and s['p']['l'] == p['l'] and not s['p']['pr']]
        if len(defs) != 1:
            return None
        rv = defs[0]['rv']
        if rv['k'] in ('ref', 'copyderef') and not [e for e in rv['p'].get('pr', []) if e != '*']:
            return self._fn_item_of(bj, {'c': rv['p']}, depth + 1)
        if rv['k'] == 'use':
            return self._fn_item_of(bj, rv['op'], depth + 1)
        return None

    def _closure_of(self, bj, operand, depth=0):
        """path of the closure whose aggregate (in this body) the operand refers to (through refs / moves)"""
        if depth > 6 or 'k' in operand:
            return None
        p = operand.get('c') or operand.get('m')
        if p is None or [e for e in p.get('pr', []) if e != '*']:
            return None
        l = p['l']
        defs = []
        for blk in bj['blocks']:
            for s in blk['stmts']:
                if s['k'] == 'assign' and s['p']['l'] == l and not s['p']['pr']:
                    defs.append(s)
        if len(defs) != 1:
            return None
        rv = defs[0]['rv']
        if rv['k'] == 'agg' and rv.get('ak') == 'closure':
            self._last_closure_env = rv.get('const_env')
            return rv['def']
        if rv['k'] in ('ref', 'copyderef') and not [e for e in rv['p'].get('pr', []) if e != '*']:
            return self._closure_of(bj, {'c': rv['p']}, depth + 1)
        if rv['k'] == 'use':
            return self._closure_of(bj, rv['op'], depth + 1)
        return None

    def _inline_call(self, bj, x, cj, closure, const_env=None):
        blk = bj['blocks'][x]
        t = blk['term']
        lo = len(bj['locals'])
        bo = len(bj['blocks'])
        cj = copy.deepcopy(cj)
        _instantiate_const_params(cj, ((t.get('f') or {}).get('k') or {}).get('targs') or [])
        if const_env is not None:
            _instantiate_const_params(cj, [const_env])
        bj['locals'].extend(cj['locals'])
        for d in cj.get('debug', []):
            if 'p' in d:
                _remap_place(d['p'], lo)
                d.pop('arg', None)
                bj['debug'].append(d)
        ret_target = t.get('t')
        u = t.get('u')
        unwind_target = u if isinstance(u, int) else None
        dest = t.get('dest')
        line = t.get('line', 0)
        # argument passing
        args = t.get('args', [])
        if closure:
            # closure bodies take (env, a0, a1, ..) untupled; the call passes (env, (a0, a1, ..))
            blk['stmts'].append(_assign(lo + 1, copy.deepcopy(args[0]), line))
            n_formal = cj['arg_count'] - 1
            if len(args) > 1 and 'k' not in args[1]:
                tp = args[1].get('m') or args[1].get('c')
                for i in range(n_formal):
                    src = {'l': tp['l'], 'pr': list(tp.get('pr', [])) + ['.%d' % i], 'own': list(tp.get('own', [])) + [None], 'ty': ''}
                    blk['stmts'].append(_assign(lo + 2 + i, {'m': src}, line))
        else:
            for i, a in enumerate(args):
                blk['stmts'].append(_assign(lo + 1 + i, copy.deepcopy(a), line))
        blk['term'] = {'k': 'goto', 't': bo, 'line': line, 'inlined_call': cj['path']}
        for cb in cj['blocks']:
            bj['blocks'].append(_remap_block(cb, lo, bo, dest, ret_target, unwind_target))


def _instantiate_const_params(cj, targs):
    """a helper generic over a `const FLAG: bool` (one body serving two callers) is inlined with the flag's value at this call:
    the constant operand named after the parameter is replaced by the literal and the switches it decides are folded.  (Only the
    unambiguous case: one literal among the generic arguments, one parameter name among the body's constants.)"""
    lits = [a for a in targs if a in ('true', 'false') or re.match(r'^\d+(_[iu](8|16|32|64|128|size))?$', str(a))]
    names = set()
    def walk(o, f):
        if isinstance(o, dict):
            if set(o.keys()) >= {'v', 'ty'} and isinstance(o.get('v'), str) and 'fn' not in o:
                f(o)
            for v in o.values():
                walk(v, f)
        elif isinstance(o, list):
            for v in o:
                walk(v, f)
    def collect(k):
        if re.match(r'^[A-Z][A-Z0-9_]*$', k['v']) and k.get('ty') in ('bool', 'usize', 'u8', 'u16', 'u32', 'u64', 'isize', 'i32', 'i64'):
            names.add(k['v'])
    walk(cj['blocks'], collect)
    if len(lits) == 1:
        # closures built in this body are generic over the same parameters: remember the value for when they are inlined
        for blk in cj['blocks']:
            for s_ in blk['stmts']:
                if s_['k'] == 'assign' and s_['rv']['k'] == 'agg' and s_['rv'].get('ak') == 'closure':
                    s_['rv']['const_env'] = lits[0]
    if len(lits) != 1 or len(names) != 1:
        return
    name, val = list(names)[0], lits[0]
    _subst_const_param(cj, name, val)


def _subst_const_param(cj, name, val):
    def walk(o, f):
        if isinstance(o, dict):
            if set(o.keys()) >= {'v', 'ty'} and isinstance(o.get('v'), str) and 'fn' not in o:
                f(o)
            for v in o.values():
                walk(v, f)
        elif isinstance(o, list):
            for v in o:
                walk(v, f)
    def subst(k):
        if k['v'] == name:
            k['v'] = val; k['from_const_param'] = True
    walk(cj['blocks'], subst)
    # fold what the parameter decides: constant propagation restricted to values derived from the parameter (`FLAG`, `!FLAG`,
    # copies, the short-circuit arms of `FLAG && x`), switches on them become gotos, unreachable blocks are blanked; repeated
    # until nothing changes.  Constants that do not come from the parameter (`cfg!(..)`) are left alone - section 23.
    for _round in range(6):
        defs = {}
        for bi, blk in enumerate(cj['blocks']):
            if blk['term'].get('blanked'):
                continue
            for s_ in blk['stmts']:
                if s_['k'] == 'assign' and not s_['p'].get('pr'):
                    defs.setdefault(s_['p']['l'], []).append(s_['rv'])
                    s_['rv']['_blk'] = bi
            tt = blk['term']
            if tt['k'] == 'call' and tt.get('dest') and not tt['dest'].get('pr'):
                defs.setdefault(tt['dest']['l'], []).append(None)
        # locals tested by the switch of the very block that defines them from a literal: `if cfg!(..)` - never folded
        own_switch = set()
        for bi, blk in enumerate(cj['blocks']):
            if blk['term']['k'] == 'switch' and _bare_local(blk['term']['d']) is not None:
                l_ = _bare_local(blk['term']['d'])
                if any(s_['k'] == 'assign' and not s_['p'].get('pr') and s_['p']['l'] == l_ for s_ in blk['stmts']):
                    own_switch.add(l_)
        known = {}
        grew = True
        while grew:
            grew = False
            for l, ds in defs.items():
                if l in known or len(ds) != 1 or ds[0] is None:
                    continue
                rv = ds[0]
                v = None
                if rv['k'] == 'use':
                    op = rv['op']
                    if 'k' in op and op['k'].get('from_const_param') and op['k']['v'] in ('true', 'false'):
                        v = op['k']['v'] == 'true'
                    elif 'k' in op and _round > 0 and op['k'].get('v') in ('true', 'false') and op['k'].get('ty') == 'bool' and l not in own_switch:
                        # the literal arm of a short-circuit (`FLAG && x` is `false` when FLAG is) once the other arm is gone
                        v = op['k']['v'] == 'true'
                    elif 'k' not in op:
                        pl = op.get('m') or op.get('c')
                        if not pl.get('pr') and pl['l'] in known:
                            v = known[pl['l']]
                elif rv['k'] == 'un' and rv.get('op') in ('Not',) or (rv['k'] == 'un' and rv.get('uop') == 'Not'):
                    a = rv.get('a') or rv.get('op_') or (rv.get('ops') or [None])[0]
                    pl = (a.get('m') or a.get('c')) if isinstance(a, dict) and 'k' not in a else None
                    if pl and not pl.get('pr') and pl['l'] in known:
                        v = not known[pl['l']]
                if v is not None:
                    known[l] = v; grew = True
        # what is known is written down as the constant it is (so that the value also travels out of this body: the return
        # value of an instantiated closure is threaded to the test its caller makes)
        for blk in cj['blocks']:
            for s_ in blk['stmts']:
                if s_['k'] == 'assign' and not s_['p'].get('pr') and s_['p']['l'] in known and s_['rv']['k'] in ('un', 'use') and \
                        not (s_['rv']['k'] == 'use' and 'k' in s_['rv']['op']):
                    s_['rv'] = {'k': 'use', 'op': {'k': {'v': 'true' if known[s_['p']['l']] else 'false', 'ty': 'bool', 'from_const_param': True}}}
        folded = False
        for blk in cj['blocks']:
            t = blk['term']
            if t['k'] != 'switch' or t.get('dty') != 'bool':
                continue
            v = None
            d = t['d']
            if 'k' in d and d['k'].get('from_const_param') and d['k']['v'] in ('true', 'false'):
                v = d['k']['v'] == 'true'
            else:
                l = _bare_local(d)
                if l in known:
                    v = known[l]
                else:
                    for s_ in blk['stmts']:
                        if s_['k'] == 'assign' and not s_['p'].get('pr') and s_['p']['l'] == l:
                            op = s_['rv'].get('op') if s_['rv']['k'] == 'use' else None
                            v = (op['k']['v'] == 'true') if isinstance(op, dict) and 'k' in op and op['k'].get('from_const_param') and op['k']['v'] in ('true', 'false') else None
            if v is not None:
                arms = {a: b for a, b in t['arms']}
                tgt = (arms.get('0', t['otherwise'])) if not v else (arms.get('1') if '1' in arms else t['otherwise'])
                blk['term'] = {'k': 'goto', 't': tgt, 'line': t.get('line', 0), 'const_param': name}
                folded = True
        if not folded:
            break
        _prune_unreachable(cj)


# enums whose freshly built values are threaded to the switch that inspects them (`let r = {.. None / Some(x) ..}; match r`)
THREAD_ENUMS = ('std::option::Option', 'std::result::Result', 'std::ops::ControlFlow')


# calls a threaded path may run through (cloning them changes no verdict: smart-pointer derefs, the explicit release of a guard)
THREAD_THROUGH_CALLS = ('std::ops::Deref::deref', 'std::ops::DerefMut::deref_mut', 'std::mem::drop')


def _succ_normal(t):
    """the single normal successor of a goto / drop / assert / harmless-call terminator, else None"""
    if t['k'] == 'goto':
        return t['t']
    if t['k'] == 'drop':
        return t.get('t')
    return None


def _bare_local(o):
    if 'k' in o:
        return None
    p = o.get('m') or o.get('c')
    return p['l'] if p is not None and not p.get('pr') else None


def thread_jumps(bj, max_clones=60, enums=()):
    """jump threading for boolean flags: when a block assigns `_f = const true|false` and every path from there to a
    `switch` on (a copy of) _f runs through single-successor blocks that do not redefine it, the path is cloned and its
    switch replaced by the arm that is taken.  Infeasible paths through `let ok = helper(); if ok {..}` joins disappear."""
    blocks = bj['blocks']
    # flags whose address is taken are left alone
    addr = set()
    for blk in blocks:
        for s in blk['stmts']:
            if s['k'] == 'assign' and s['rv']['k'] in ('ref', 'rawptr') and not s['rv']['p'].get('pr'):
                addr.add(s['rv']['p']['l'])
    n_clones = 0
    changed = True
    while changed and n_clones < max_clones:
        changed = False
        for pi in range(len(blocks)):
            P = blocks[pi]
            if P.get('cleanup'):
                continue
            nxt = _succ_normal(P['term'])
            if P['term']['k'] == 'call' and 'k' in P['term']['f'] and P['term']['f']['k'].get('fn') == 'std::ops::FromResidual::from_residual':
                nxt = P['term'].get('t')          # what it returns is of known variant (below)
            if nxt is None and P['term']['k'] != 'switch':
                continue
            # last constant-bool definition in P that is not overwritten later in P
            flags = {}
            for s in P['stmts']:
                if s['k'] != 'assign' or s['p'].get('pr'):
                    continue
                l = s['p']['l']
                rv = s['rv']
                if rv['k'] == 'use' and 'k' in rv['op'] and rv['op']['k'].get('v') in ('true', 'false') and rv['op']['k'].get('ty') == 'bool':
                    flags[l] = rv['op']['k']['v']
                elif rv['k'] == 'agg' and rv.get('ak') == 'adt' and rv.get('variant') and (rv.get('adt') in THREAD_ENUMS or rv.get('adt') in enums):
                    flags[l] = '@' + rv['variant']          # a value of known variant: `switch discriminant(l)` is decided
                elif rv['k'] == 'use' and _bare_local(rv['op']) in flags:
                    flags[l] = flags[_bare_local(rv['op'])]
                else:
                    flags.pop(l, None)
            tP0 = P['term']
            if tP0['k'] == 'call':
                for a_ in tP0.get('args', []):
                    flags.pop(_bare_local(a_), None)
                if tP0.get('dest') and not tP0['dest'].get('pr'):
                    flags.pop(tP0['dest']['l'], None)
                    # `_r = from_residual(..)`: the failure variant of the result type
                    if 'k' in tP0['f'] and tP0['f']['k'].get('fn') == 'std::ops::FromResidual::from_residual':
                        ty_ = bj['locals'][tP0['dest']['l']]['ty'].split('<')[0]
                        if ty_ in ('std::result::Result', 'std::option::Option'):
                            flags[tP0['dest']['l']] = '@Err' if ty_.endswith('Result') else '@None'
            flags = {l: v for l, v in flags.items() if l not in addr}
            if not flags:
                continue
            # the value of known variant is matched in the very block that builds it (`match Some(x) { .. }`): the switch is decided.
            # (Boolean constants are deliberately NOT folded here: `if cfg!(debug_assertions)` is a constant tested in its own
            # block, and the other build takes the other arm - section 23)
            tP = P['term']
            if tP['k'] == 'switch' and tP.get('variants') and _bare_local(tP['d']) is not None:
                dl = _bare_local(tP['d'])
                src_l = None
                for s in P['stmts']:
                    if s['k'] == 'assign' and not s['p'].get('pr') and s['p']['l'] == dl:
                        rv = s['rv']
                        src_l = rv['p']['l'] if rv['k'] == 'discr' and not rv['p'].get('pr') else None
                if src_l is not None and str(flags.get(src_l, '')).startswith('@'):
                    want = flags[src_l][1:]
                    idx = [k_ for k_, v_ in tP['variants'].items() if v_ == want]
                    if idx:
                        arms = {a: b for a, b in tP['arms']}
                        P['term'] = {'k': 'goto', 't': arms.get(idx[0], tP['otherwise']), 'line': tP.get('line', 0), 'threaded': True}
                        changed = True
                        n_clones += 1
                        continue
            if nxt is None:
                continue
            chain = []
            cur = nxt
            target = None
            fl = dict(flags)
            while cur is not None and cur not in chain and cur != pi and len(chain) < 32:
                B = blocks[cur]
                if B.get('cleanup'):
                    break
                ok = True
                for s in B['stmts']:
                    if s['k'] != 'assign':
                        continue
                    # cloned blocks must not compute anything: a temporary defined twice would blur every def-use analysis.
                    # allowed: constants, copies / discriminants of flag locals, unit / enum aggregates
                    rv_ = s['rv']
                    # (`_p = Poll::Ready(_x)` / `_y = _p@Ready.0` of an inlined await only wrap and unwrap a flag local)
                    wrap_ = rv_['k'] == 'agg' and rv_.get('adt') == 'std::task::Poll' and rv_.get('variant') == 'Ready' and len(rv_.get('ops', [])) == 1 and \
                        _bare_local(rv_['ops'][0]) in fl and not s['p'].get('pr')
                    unwrap_ = None
                    if rv_['k'] == 'use' and 'k' not in rv_['op']:
                        pl_ = rv_['op'].get('m') or rv_['op'].get('c')
                        if pl_.get('pr') == ['@Ready', '.0'] and str(fl.get(pl_['l'], '')).startswith('Ready:') and not s['p'].get('pr'):
                            unwrap_ = fl[pl_['l']][6:]
                    if wrap_:
                        fl[s['p']['l']] = 'Ready:' + fl[_bare_local(rv_['ops'][0])]
                        continue
                    if unwrap_ is not None:
                        fl[s['p']['l']] = unwrap_
                        continue
                    simple = (rv_['k'] == 'use' and ('k' in rv_['op'] or _bare_local(rv_['op']) in fl)) or \
                        (rv_['k'] == 'discr' and not rv_['p'].get('pr') and rv_['p']['l'] in fl) or \
                        (rv_['k'] == 'agg' and not rv_.get('ops'))
                    if not simple:
                        ok = False
                        break
                    if s['p'].get('pr'):
                        continue
                    l = s['p']['l']
                    rv = s['rv']
                    if rv['k'] == 'use' and _bare_local(rv['op']) in fl:
                        fl[l] = fl[_bare_local(rv['op'])]
                    elif rv['k'] == 'use' and 'k' in rv['op'] and rv['op']['k'].get('v') in ('true', 'false') and rv['op']['k'].get('ty') == 'bool' and l not in addr:
                        fl[l] = rv['op']['k']['v']
                    elif rv['k'] == 'discr' and not rv['p'].get('pr') and str(fl.get(rv['p']['l'], '')).startswith('@'):
                        fl[l] = 'discr' + fl[rv['p']['l']]       # `_d = discriminant(_x)` with _x of known variant
                    else:
                        fl.pop(l, None)
                if not ok:
                    break
                chain.append(cur)
                tt = B['term']
                if tt['k'] == 'call':
                    # a call that takes a flag local (by move / reference is excluded by `addr`) or writes one ends the knowledge
                    for a_ in tt.get('args', []):
                        if _bare_local(a_) in fl:
                            fl.pop(_bare_local(a_), None)
                    if tt.get('dest') and not tt['dest'].get('pr'):
                        fl.pop(tt['dest']['l'], None)
                if tt['k'] == 'switch' and tt.get('variants') and _bare_local(tt['d']) in fl and str(fl[_bare_local(tt['d'])]).startswith('discr@'):
                    want = fl[_bare_local(tt['d'])][6:]
                    idx = [k_ for k_, v_ in tt['variants'].items() if v_ == want]
                    if idx:
                        arms = {a: b for a, b in tt['arms']}
                        target = arms.get(idx[0], tt['otherwise'])
                    break
                if tt['k'] == 'switch' and tt.get('dty') == 'bool' and _bare_local(tt['d']) in fl and fl[_bare_local(tt['d'])] in ('true', 'false'):
                    v = fl[_bare_local(tt['d'])]
                    arms = {a: b for a, b in tt['arms']}
                    # bool switches are emitted as `[0 -> false-arm], otherwise -> true-arm`
                    if v == 'false':
                        target = arms.get('0', arms.get('false'))
                        if target is None:
                            target = tt['otherwise']
                    else:
                        target = arms.get('1', arms.get('true'))
                        if target is None:
                            target = tt['otherwise']
                    break
                if tt['k'] == 'drop' and _bare_local({'c': tt['p']}) in fl:
                    fl.pop(_bare_local({'c': tt['p']}), None)          # (its copies made before keep what they know)
                cur = _succ_normal(tt)
                if not fl:
                    break
            if os.environ.get('DP_DEBUG_THREAD') and any(str(v).startswith('@') for v in flags.values()):
                print('thread: P=%d flags=%s chain=%s target=%s fl=%s' % (pi, flags, chain, target, fl), file=sys.stderr)
            if target is None or not chain:
                continue
            # only worth it when some block of the chain is a join (otherwise nothing is infeasible)... always sound; clone
            base = len(blocks)
            for k, c in enumerate(chain):
                nb = copy.deepcopy(blocks[c])
                nb['threaded_from'] = c
                if k < len(chain) - 1:
                    if nb['term']['k'] in ('goto', 'drop', 'assert', 'call'):
                        nb['term']['t'] = base + k + 1
                else:
                    nb['term'] = {'k': 'goto', 't': target, 'line': nb['term'].get('line', 0), 'threaded': True}
                blocks.append(nb)
            P['term']['t'] = base
            n_clones += 1
            changed = True
        # blank blocks that lost all predecessors
        if changed:
            _blank_unreachable(bj)
    return n_clones


def _prune_unreachable(bj):
    """blank every block that cannot be reached from the entry any more (the poll loop of an inlined await)"""
    blocks = bj['blocks']
    seen = {0}
    work = [0]
    while work:
        x = work.pop()
        t = blocks[x]['term']
        succ = []
        for k in ('t', 'cd', 'otherwise'):
            if isinstance(t.get(k), int):
                succ.append(t[k])
        if isinstance(t.get('u'), int):
            succ.append(t['u'])
        for a in t.get('arms', []):
            succ.append(a[1])
        for s in succ:
            if s not in seen and 0 <= s < len(blocks):
                seen.add(s); work.append(s)
    for i, b in enumerate(blocks):
        if i not in seen and (b['stmts'] or b['term']['k'] != 'unreachable'):
            b['stmts'] = []
            b['term'] = {'k': 'unreachable', 'line': b['term'].get('line', 0), 'blanked': True}


def _blank_unreachable(bj):
    blocks = bj['blocks']
    seen = {0}
    work = [0]
    while work:
        x = work.pop()
        t = blocks[x]['term']
        succ = []
        for k in ('t', 'cd', 'otherwise', 'resume', 'drop'):
            if isinstance(t.get(k), int):
                succ.append(t[k])
        if isinstance(t.get('u'), int):
            succ.append(t['u'])
        for a in t.get('arms', []):
            succ.append(a[1])
        for s in succ:
            if s not in seen and 0 <= s < len(blocks):
                seen.add(s); work.append(s)
    for i, b in enumerate(blocks):
        if i not in seen and (b['stmts'] or b['term']['k'] != 'unreachable'):
            if b.get('threaded_from') is not None or any(blocks[j].get('threaded_from') == i for j in range(len(blocks))):
                b['stmts'] = []
                b['term'] = {'k': 'unreachable', 'line': b['term'].get('line', 0), 'blanked': True}


# callee -> (enum, variant on which the closure runs, value on the other variant, number of arguments)
COMBINATORS = {
    'std::option::Option::is_some_and': ('std::option::Option', 'Some', 'false', 2),
    'std::option::Option::is_none_or': ('std::option::Option', 'Some', 'true', 2),
    'std::option::Option::map_or': ('std::option::Option', 'Some', 'arg1', 3),
    'std::result::Result::is_ok_and': ('std::result::Result', 'Ok', 'false', 2),
    'std::result::Result::is_err_and': ('std::result::Result', 'Err', 'false', 2),
}


VALUE_COMBINATORS = ('core::bool::then_some', 'std::bool::then_some', 'std::option::Option::ok_or', 'std::option::Option::ok_or_else',
                     'std::option::Option::unwrap_or_default', 'std::option::Option::unwrap_or', 'std::option::Option::unwrap_or_else', 'std::option::Option::map_or_else',
                     'std::option::Option::filter')


AWAIT_PLUMBING = ('IntoFuture::into_future', 'Pin::new_unchecked', 'Pin::<Ptr>::new_unchecked', 'future::get_context', 'Try::branch', 'Fn::call', 'FnMut::call_mut', 'FnOnce::call_once')


def _call_sites(bodies):
    """{(callee name, line)} over the non-cleanup call terminators of the given bodies"""
    out = set()
    for b in bodies:
        for blk in b.blocks:
            t = blk.term
            if t.kind == 'call' and not blk.cleanup and t.func is not None and t.func.kind == 'const':
                out.add((strip_generics(t.func.const.get('rfn') or t.func.const.get('fn') or '?'), t.line))
    return out


def devirtualise_boxed_futures(prog):
    """`fn f(..) -> Pin<Box<dyn Future>> { Box::pin(async move { .. }) }` awaited by its caller: the caller polls a `dyn Future`
    and the compiler's resolved callee is missing.  Where the polled value is, by def-use inside the caller, the result of a call
    of such a constructor, the poll is resolved to the constructor's coroutine - the same edge an `async fn` has.  Returns the
    number of polls resolved."""
    n = 0
    boxed = {}
    for p, b in prog.bodies.items():
        if b.kind not in ('Fn', 'AssocFn'):
            continue
        cors = [s.rv.j.get('def') for blk in b.blocks for s in blk.stmts if s.kind == 'assign' and s.rv.kind == 'agg' and s.rv.j.get('ak') == 'coroutine']
        pins = [blk for blk in b.blocks if blk.term.kind == 'call' and not blk.cleanup and any(strip_generics(n_).endswith('Box::pin') or strip_generics(n_).endswith('Box::into_pin') for n_ in blk.term.callee_names())]
        if len(cors) == 1 and len(pins) == 1 and cors[0] in prog.bodies:
            boxed[p] = cors[0]
    if not boxed:
        return 0
    for b in prog.bodies.values():
        an = None
        for blk in b.blocks:
            t = blk.term
            if t.kind != 'call' or blk.cleanup or not t.args or not any(n_ == '<std::pin::Pin<P> as std::future::Future>::poll' or n_.endswith('Pin<P> as std::future::Future>::poll') for n_ in t.callee_names()):
                continue
            if t.rcallee in prog.bodies:
                continue
            from .analysis import BodyAn
            an = an or BodyAn(b)
            op = t.args[0]
            found = None
            for _ in range(12):
                if op.kind == 'const':
                    break
                ds = an.defs(op.place.local)
                if len(ds) != 1:
                    break
                d = ds[0]
                if d[0] == 'stmt':
                    rv = d[3].rv
                    if rv.kind in ('use', 'cast') and rv.ops:
                        op = rv.ops[0]; continue
                    if rv.kind in ('ref', 'copyderef', 'rawptr'):
                        op = Operand({'c': {'l': rv.place.local, 'pr': [], 'own': []}}); continue
                    break
                tt = d[3]
                if tt.rcallee in boxed:
                    found = boxed[tt.rcallee]; break
                if tt.args and any(n_.endswith('IntoFuture::into_future') or n_.endswith('::new_unchecked') or n_.endswith('Pin::<Ptr>::as_mut') or n_.endswith('Pin::as_mut') or n_.endswith('DerefMut::deref_mut') for n_ in tt.callee_names()):
                    op = tt.args[0]; continue
                break
            if found:
                t.func.const['rfn'] = found
                t.func.const['devirtualised'] = True
                n += 1
    if n:
        prog._cg = None
        prog._an = {}
    return n


def normalise(prog, crates, keep=(), only_newtypes=False):
    """replace every body of the given crates by its inlined view and drop absorbed helpers; returns the Normaliser"""
    nz = Normaliser(prog, crates, keep, only_newtypes=only_newtypes)
    if only_newtypes and not nz.newtypes and not nz.inlinable:
        return nz
    if nz.newtypes:
        for cn, c_ in prog.crates.items():
            if cn in nz.crates:
                for a_ in c_.adts:
                    for v_ in a_.get('variants', []):
                        for f_ in v_['fields']:
                            if f_['ty'] in nz.newtypes and a_['path'] not in nz.newtypes:
                                inner = nz.newtypes[f_['ty']]
                                f_['parts']['adts'] = [x for x in f_['parts'].get('adts', []) if x != f_['ty']] + ([strip_generics(inner).split('<')[0]] if '::' in inner else [])
                                f_['newtype'] = f_['ty']
                                f_['ty'] = inner
    before = _call_sites([b for p_, b in prog.bodies.items() if nz._crate_of(p_) in nz.crates])
    new = {}
    for p, b in list(prog.bodies.items()):
        if nz._crate_of(p) in nz.crates:
            new[p] = nz.view(b)
        else:
            new[p] = b
    # which inlinable helpers are still called somewhere (not inlined, e.g. depth limit / passed as fn pointers)?
    still = set()
    for p, b in new.items():
        for blk in b.blocks:
            t = blk.term
            if t.kind == 'call' and t.rcallee in nz.inlinable:
                still.add(t.rcallee)
            for op in ([t.func] if t.func else []) + t.args:
                if op.kind == 'const' and op.const.get('fn'):
                    for k in ('rfn', 'fn'):
                        if op.const.get(k) in nz.inlinable and not (t.kind == 'call' and op is t.func):
                            still.add(op.const[k])
            for s in blk.stmts:
                if s.kind == 'assign':
                    for op in s.rv.ops:
                        if op.kind == 'const' and op.const.get('fn'):
                            for k in ('rfn', 'fn'):
                                if op.const.get(k) in nz.inlinable:
                                    still.add(op.const[k])
    # a helper that nobody calls at all (dead code, e.g. after an edit that dropped its only call) was inlined nowhere: it
    # stays in the program as it is, so that none of its call sites silently disappears from what the rules look at
    used = set()
    for b in new.values():
        used |= set(getattr(b, 'inlined', []))
    # (a conversion impl of an error type is public API as well: it is inlined at its uses and stays a body of its own)
    absorbed = [p for p in nz.inlinable if p not in still and p in used and not str(nz.inlinable[p].j.get('impl_trait') or '').startswith('std::convert::From')]
    # closures of absorbed functions were copied by reference (their bodies stay, paths unchanged); closures that were
    # inlined at their only invocation stay too (harmless: they contain no call sites of their own that matter twice?)
    for p in absorbed:
        new.pop(p, None)
    # closures inlined into the body that creates them are absorbed as well when they are invoked nowhere else
    inlined_closures = set()
    for b in new.values():
        for q in getattr(b, 'inlined', []):
            if q in prog.bodies and prog.bodies[q].kind == 'Closure':
                inlined_closures.add(q)
    for q in inlined_closures:
        new.pop(q, None)
    prog.bodies = new
    prog.by_name = {}
    for b in new.values():
        prog.by_name.setdefault(b.name, []).append(b)
    prog._cg = None
    prog._an = {}
    prog.absorbed = absorbed + sorted(inlined_closures)
    # self-check of the normal form: no call site of the original program may vanish, apart from the calls the rewriting
    # itself dissolves (calls of inlined helpers / coroutines / closures, the plumbing of an inlined await, desugared combinators)
    gone = set(nz.inlinable) | {b_.path for (b_, c_, a_) in nz.awaitable.values()} | {c_.path for (b_, c_, a_) in nz.awaitable.values()} | set(inlined_closures)
    gone_names = {strip_generics(g) for g in gone}
    after = _call_sites(new.values())
    lost = sorted((n_, l_) for (n_, l_) in before - after
                  if (n_, l_) not in nz.dissolved and n_ not in gone_names and not n_.endswith(AWAIT_PLUMBING) and n_ not in COMBINATORS and n_ not in VALUE_COMBINATORS and not any(n_ == strip_generics(k) for k in COMBINATORS)
                  and not any(x in n_ for x in ('IntoFuture', 'new_unchecked', 'get_context', 'Try>::branch', 'Try::branch')))
    prog.normalise_lost = lost
    for c in prog.crates.values():
        c.bodies = [new[b.path] for b in c.bodies if b.path in new]
    return nz


def default_keep(prog):
    """role-bound private functions that the rules refer to as call targets (bound on the un-normalised program)"""
    keep = set()
    try:
        from .roles import ManagedRoles
        r = ManagedRoles(prog)
        keep |= {h.path for h in r.RETURN + r.TAKE}
        # async helpers that carry a role of their own are not dissolved into the getter: the timeout wrapper and every
        # coroutine that itself calls into user code (recycler, creator, hook runner)
        if r.TIMEOUT_WRAPPER is not None:
            keep.add(r.TIMEOUT_WRAPPER.path)
        from .mcommon import is_dyn_call
        from .analysis import sources as _sources
        # the hook runner: the async fn that is handed one of the hook lists of the pool
        for b in prog.bodies.values():
            if not (b.path.startswith('deadpool::managed') or b.path.startswith('<deadpool::managed') or (' as deadpool::managed::' in b.path.split('>::')[0] and str(b.file).startswith('src/'))):
                continue
            ban = None
            for blk in b.blocks:
                tt = blk.term
                if tt.kind == 'call' and not blk.cleanup and tt.rcallee in prog.bodies and tt.args and tt.args[0].kind != 'const':
                    cb = prog.bodies[tt.rcallee]
                    if cb.kind in ('Fn', 'AssocFn') and any(s_.kind == 'assign' and s_.rv.kind == 'agg' and s_.rv.j.get('ak') == 'coroutine' for x_ in cb.blocks for s_ in x_.stmts):
                        ban = ban or prog.an(b)
                        if any(s_[0] == 'field' and s_[1].startswith(r.HOOKS + '.') for s_ in _sources(ban, tt.args[0])):
                            keep.add(cb.path)
                            for x_ in cb.blocks:
                                for s_ in x_.stmts:
                                    if s_.kind == 'assign' and s_.rv.kind == 'agg' and s_.rv.j.get('ak') == 'coroutine':
                                        keep.add(s_.rv.j['def'])
        for b in prog.bodies.values():
            if b.is_coroutine and (b.path.startswith('deadpool::managed') or b.path.startswith('<deadpool::managed') or (' as deadpool::managed::' in b.path.split('>::')[0] and str(b.file).startswith('src/'))):
                for blk in b.blocks:
                    tt = blk.term
                    if tt.kind == 'call' and not blk.cleanup and (is_dyn_call(tt) or (tt.func.kind == 'const' and str(tt.func.const.get('fn', '')).startswith('deadpool::managed::Manager::'))):
                        keep.add(b.path); break
    except Exception:
        pass
    try:
        from .ucommon import UnmanagedRoles
        u = UnmanagedRoles(prog)
        keep.add(u.ADD_HELPER.path)
        if u.CLEAR is not None:
            keep.add(u.CLEAR.path)
        for b in u.bodies():
            if b.name.endswith('::is_closed'):
                keep.add(b.path)
    except Exception:
        pass
    for n in ('deadpool_postgres::StatementCache::get', 'deadpool_postgres::StatementCache::insert', 'deadpool_diesel::manager::RecyclingMethod::perform_recycle_check'):
        keep.add(n)
    return keep


DEADPOOL_CRATES = ('deadpool', 'deadpool_runtime', 'deadpool_sync', 'deadpool_sqlite', 'deadpool_r2d2', 'deadpool_diesel', 'deadpool_postgres', 'deadpool_redis')

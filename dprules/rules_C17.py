"""C17 - redis pool hands out only clean, synchronised connections."""
from .mcommon import calls_named, in_cycle, branch_condition
from .roles import adt_of
from .facts import strip_generics, Operand, Place
from .analysis import sources, success_edges, reach_without_edges
from .engine import Undecided

TECHNIQUE = 'command-constant and call-order rules on the recycle() body, def-use origin of the PING argument (fresh counter value) and of both sides of the reply comparison, must-pass-through of the equality branch to Ok; sibling check of Connection::take'
LEVEL_TEXT = 'static analysis of every path of the standalone redis Manager::recycle and of the three Connection::take functions'
EXPLANATION = ('Decided: recycle() builds one pipeline with cmd("UNWATCH") then cmd("PING") whose argument derives from a fetch_add(1) on the '
               "manager's counter (the only update of that field), sends it on the connection being recycled, propagates a query error, compares the "
               'reply with that same value and returns Ok only on the equal branch (a mismatch is an Err); Connection::take of the standalone, cluster '
               'and sentinel flavours all forward to Object::take of the wrapped pool object.')


def run(ctx):
    prog = ctx.prog
    c = prog.crates.get('deadpool_redis')
    if c is None:
        raise Undecided('deadpool_redis not extracted')
    rec = prog.bodies.get('<deadpool_redis::Manager as deadpool::managed::Manager>::recycle::{closure#0}')
    if rec is None:
        raise Undecided('redis Manager::recycle not found')
    ctx.saw(rec)
    an = prog.an(rec)
    cmds = [blk for blk in rec.blocks if blk.term.kind == 'call' and not blk.cleanup and any(n in ('redis::Pipeline::cmd', 'redis::cmd', 'redis::Cmd::new') for n in blk.term.callee_names())]
    names = [an.resolve_operand(x.term.args[-1]).strip('"') for x in cmds]
    ctx.ob('R17.1', 'the recycle pipeline is UNWATCH followed by PING', names == ['UNWATCH', 'PING'] and an.dominates(cmds[0].idx, cmds[1].idx) if len(cmds) == 2 else False,
           ctx.where(rec), 'commands %s' % names, construct='recycle:commands', sites=names)
    # one pipeline: the second cmd is chained on the result of the first
    if len(cmds) == 2:
        src = sources(an, cmds[1].term.args[0], deep=True)
        ctx.ob('R17.1', 'both commands go into the same pipeline', any(s[0] == 'call' and s[2] == cmds[0].idx for s in src), ctx.where(rec, cmds[1].term.line), '', construct='recycle:one-pipeline')
    # (other counters - diagnostics - may be bumped here too: the PING counter is the field named by the property's anchor)
    fa = [blk for blk in rec.blocks if blk.term.kind == 'call' and not blk.cleanup and any('atomic' in n and n.endswith('::fetch_add') for n in blk.term.callee_names())
          and blk.term.args and any(s[0] == 'field' and s[1] == 'deadpool_redis::Manager.ping_number' for s in sources(an, blk.term.args[0]))]
    okf = len(fa) == 1 and an.resolve_operand(fa[0].term.args[1]) == '1_usize' and any(s[0] == 'field' and s[1] == 'deadpool_redis::Manager.ping_number' for s in sources(an, fa[0].term.args[0]))
    ctx.ob('R17.1', 'a fresh number is drawn from the manager counter (fetch_add 1)', okf, ctx.where(rec), '', construct='recycle:counter')
    # the only update of that field in the crate
    ups = []
    for b in c.bodies:
        ban = prog.an(b)
        for blk in b.blocks:
            t = blk.term
            if t.kind == 'call' and not blk.cleanup and t.args and any('atomic' in n and n.split('::')[-1] in ('fetch_add', 'fetch_sub', 'store', 'swap') for n in t.callee_names()):
                if any(s[0] == 'field' and s[1] == 'deadpool_redis::Manager.ping_number' for s in sources(ban, t.args[0])):
                    ups.append(b.name)
    ctx.ob('R17.1', 'the counter is updated nowhere else', ups == [rec.name], '', str(ups), construct='recycle:counter-writers')
    args = [blk for blk in rec.blocks if blk.term.kind == 'call' and not blk.cleanup and any(n in ('redis::Pipeline::arg', 'redis::Cmd::arg') for n in blk.term.callee_names())]
    oka = len(args) == 1 and fa and any(s[0] == 'call' and s[2] == fa[0].idx for s in sources(an, args[0].term.args[1], deep=True)) and \
        (len(cmds) == 2 and an.dominates(cmds[1].idx, args[0].idx))
    # ... the whole value: a narrowing cast on the way (`as u8`) makes the values repeat
    narrow = []
    if args and fa:
        seen_l = set(); work_ = [args[0].term.args[1]]
        while work_ and len(seen_l) < 200:
            o_ = work_.pop()
            if o_.kind == 'const' or o_.place.local in seen_l:
                continue
            seen_l.add(o_.place.local)
            for d_ in an.defs(o_.place.local):
                if d_[0] == 'stmt':
                    if d_[3].rv.kind == 'cast':
                        src_ty = rec.locals[d_[3].rv.ops[0].place.local]['ty'] if d_[3].rv.ops[0].kind != 'const' else ''
                        dst_ty = rec.locals[o_.place.local]['ty']
                        order = ['u8', 'i8', 'u16', 'i16', 'u32', 'i32', 'u64', 'i64', 'usize', 'isize', 'u128', 'i128']
                        if src_ty in order and dst_ty in order and order.index(dst_ty) // 2 < order.index(src_ty) // 2 and not (src_ty in ('usize', 'isize') and dst_ty in ('u64', 'i64')):
                            narrow.append((d_[3].line, '%s as %s' % (src_ty, dst_ty)))
                    work_ += [x_ for x_ in d_[3].rv.ops if x_.kind != 'const']
                    if d_[3].rv.kind in ('ref', 'copyderef'):
                        from .facts import Operand as _Op
                        work_.append(_Op({'c': {'l': d_[3].rv.place.local, 'pr': [], 'own': []}}))
                else:
                    if d_[1] != fa[0].idx:
                        work_ += [x_ for x_ in d_[3].args if x_.kind != 'const']
    ctx.ob('R17.1', 'the PING value is the whole counter value (no narrowing on the way)', not narrow, ctx.where(rec, narrow[0][0]) if narrow else ctx.where(rec),
           'narrowing cast %s between the counter and the PING argument: values repeat, a stale echo can match' % [n_[1] for n_ in narrow] if narrow else '', construct='recycle:ping-narrowed')
    ctx.ob('R17.1', 'PING carries that fresh value', bool(oka), ctx.where(rec, args[0].term.line) if args else ctx.where(rec), '%d arg() calls' % len(args), construct='recycle:ping-arg')
    q = [blk for blk in rec.blocks if blk.term.kind == 'call' and not blk.cleanup and any(n in ('redis::Pipeline::query_async', 'redis::Cmd::query_async') for n in blk.term.callee_names())]
    okq = len(q) == 1 and any(s[0] == 'upvar' and s[1].startswith('conn') for s in sources(an, q[0].term.args[1], deep=True))
    ctx.ob('R17.1', 'the pipeline is sent on the connection being recycled', okq, ctx.where(rec, q[0].term.line) if q else ctx.where(rec), '', construct='recycle:query-conn')
    ok_e, fail_e = success_edges(an)
    poll = [blk for blk in rec.blocks if blk.term.kind == 'call' and blk.term.rcallee and 'query_async' in blk.term.rcallee and blk.term.rcallee.endswith('{closure#0}')]
    if poll:
        reach = reach_without_edges(an, poll[0].idx, ok_e, ('normal',))
        bad = [bb for bb, cls, det in an.ret_assignments() if cls == 'ok' and bb in reach]
        ctx.ob('R17.1', 'a query error discards the connection', not bad, ctx.where(rec, poll[0].term.line), '', construct='recycle:query-error')
    # comparison gate
    eqs = [blk for blk in rec.blocks if blk.term.kind == 'call' and not blk.cleanup and any(n.endswith('PartialEq::eq') or n.endswith('::eq') or n.endswith('PartialEq::ne') for n in blk.term.callee_names())]
    sws = []
    for blk in rec.blocks:
        if blk.term.kind == 'switch' and blk.term.j.get('dty') == 'bool':
            src = sources(an, blk.term.discr)
            for s in src:
                if s[0] == 'call' and (s[1].endswith('::eq') or s[1].endswith('::ne')) and s[2] in [e.idx for e in eqs]:
                    sws.append((blk, rec.blocks[s[2]], s[1].endswith('::ne')))
    okc = False
    if len(sws) == 1 and poll and fa:
        sw, eq, neg = sws[0]
        a0 = sources(an, eq.term.args[0], deep=True); a1 = sources(an, eq.term.args[1], deep=True)
        has_reply = lambda s: any(x[0] == 'call' and x[2] == poll[0].idx for x in s)
        has_cnt = lambda s: any(x[0] == 'call' and x[2] == fa[0].idx for x in s)
        pair = (has_reply(a0) and has_cnt(a1) and not has_reply(a1)) or (has_reply(a1) and has_cnt(a0) and not has_reply(a0))
        arms = dict(sw.term.switch_arms())
        good, bad = ('false', 'true') if neg else ('true', 'false')
        rg = an.reach([arms[good]], ('normal',), avoid=[arms[bad]]); rb = an.reach([arms[bad]], ('normal',), avoid=[arms[good]])
        ok_g = [bb for bb, cls, det in an.ret_assignments() if cls == 'ok' and bb in rg]
        ok_b = [bb for bb, cls, det in an.ret_assignments() if cls == 'ok' and bb in rb]
        err_b = [bb for bb, cls, det in an.ret_assignments() if cls == 'err' and bb in rb]
        okc = pair and bool(ok_g) and not ok_b and bool(err_b)
    ctx.ob('R17.1', 'the echoed value is compared with the value sent; only equality yields Ok', okc, ctx.where(rec), '%d comparisons' % len(sws), construct='recycle:compare')
    all_ok = [bb for bb, cls, det in an.ret_assignments() if cls == 'ok']
    ctx.ob('R17.1', 'Ok(()) has a single exit', len(all_ok) == 1, ctx.where(rec), '%d' % len(all_ok), construct='recycle:ok-count')

    # ---- R17.2 take -----------------------------------------------------------------------------------------
    n = 0
    for path in ('deadpool_redis::Connection::take', 'deadpool_redis::cluster::Connection::take', 'deadpool_redis::sentinel::Connection::take'):
        b = prog.body(path)
        if b is None:
            ctx.undecide('R17.2', '%s not found' % path); continue
        n += 1
        ctx.saw(b)
        ban = prog.an(b)
        calls = [blk for blk in b.blocks if blk.term.kind == 'call' and not blk.cleanup]
        tk = [blk for blk in calls if blk.term.rcallee and strip_generics(blk.term.rcallee) == 'deadpool::managed::Object::take']
        # the wrapped pool object: the field of this Connection type whose type is the pool's Object (whatever it is called)
        cadt = path.rsplit('::', 1)[0]
        wrapped = {'%s.%s' % (cadt, f['name']) for a in c.adts if a['path'] == cadt for v in a.get('variants', []) for f in v['fields'] if 'deadpool::managed::Object<' in f['ty']}
        ok = len(tk) == 1 and tk[0].term.dest.local == 0 and len(wrapped) == 1 and any(s[0] == 'field' and s[1] in wrapped for s in sources(ban, tk[0].term.args[0]))
        ctx.ob('R17.2', '%s forwards to Object::take of the wrapped object' % path.split('::', 1)[1], ok, ctx.where(b), '', construct='take:' + path)
    ctx.floor('R17.2', 'Connection::take siblings', n, 3)

    ctx.not_decided += ['that the server received and echoed the commands (redis crate and server)', 'leftover WATCH state on the server side']
    ctx.assumptions += ['redis::Pipeline sends commands in the order they were added; ignore() drops the UNWATCH reply']

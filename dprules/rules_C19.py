"""C19 - redis configs are unambiguous; conversions and serialisation are lossless (structural clauses)."""
import re
from .mcommon import calls_named, in_cycle
from .roles import adt_of
from .facts import strip_generics, Operand, Place
from .analysis import sources, success_edges, reach_without_edges
from .engine import Undecided
from .rules_C10 import explore
from . import preds, poscontrol

TECHNIQUE = 'decision-table extraction of the (url, connection) matches by constrained CFG exploration, struct-field / variant coverage of every From impl by def-use origin, derive-symmetry and default inventory of the serde impls (including the expanded Deserialize visitors)'
LEVEL_TEXT = 'static analysis of the three redis Config::builder functions, every From impl of deadpool-redis config types and the serde impls of PoolConfig / Timeouts / QueueMode'
EXPLANATION = ('Decided: each of the three builder() functions is the four-row table: (Some, Some) -> UrlAndConnectionSpecified without constructing a '
               'manager; (None, None) -> ConnectionInfo::default(); the two mixed rows pass exactly the named source; constructor errors propagate with ? '
               'into ConfigError::Redis; no panic site; every From impl between a local description type and its redis counterpart feeds each target field '
               'from the same-named source field and each variant from the same-named variant (tls_params excluded: documented as not configurable); '
               'PoolConfig, Timeouts and QueueMode derive both Serialize and Deserialize; the Deserialize visitor of PoolConfig requires exactly max_size and '
               'takes Default::default() for timeouts and queue_mode, whose Default impls return "no timeouts" and Fifo. The value-level round trip through '
               'serde is not decided.')

FLAVOURS = [
    ('standalone', 'deadpool_redis::config::Config', 'deadpool_redis::config::Config::builder', 'url', 'connection', 'deadpool_redis::Manager::new'),
    ('cluster', 'deadpool_redis::cluster::config::Config', 'deadpool_redis::cluster::config::Config::builder', 'urls', 'connections', 'deadpool_redis::cluster::Manager::new'),
    ('sentinel', 'deadpool_redis::sentinel::config::Config', 'deadpool_redis::sentinel::config::Config::builder', 'urls', 'connections', 'deadpool_redis::sentinel::Manager::new'),
]


def tuple_ref_decider(tl, assignment):
    def decide(blk):
        t = blk.term
        on = t.j.get('on')
        if on and on['l'] == tl and on['pr'] and on['pr'][0].startswith('.') and all(p == '*' for p in on['pr'][1:]) and t.j.get('adt') == 'std::option::Option':
            idx = on['pr'][0][1:]
            if idx in assignment:
                return [tgt for lab, tgt in t.switch_arms() if lab == assignment[idx]]
        return None
    return decide


def address_signature(b, an, blocks):
    """the explicit server addresses built in (these blocks of) a body: {(variant, constants of each field)} over the
    aggregates of the connection-address type"""
    out = set()
    for blk in b.blocks:
        if blk.cleanup or (blocks is not None and blk.idx not in blocks):
            continue
        for s in blk.stmts:
            if s.kind == 'assign' and s.rv.kind == 'agg' and s.rv.j.get('ak') == 'adt' and s.rv.j['adt'].endswith('::ConnectionAddr'):
                out.add((s.rv.j['variant'],) + tuple(tuple(sorted(x[1] for x in sources(an, op, deep=True) if x[0] == 'const' and not x[1].startswith('fn'))) for op in s.rv.ops))
    return out


# conversions that hand their argument on unchanged (as far as the value's content goes)
IDENTITY_CALLS = ('Clone>::clone', 'Clone::clone', 'Into>::into', 'Into::into', 'From>::from', 'From::from', 'ToOwned>::to_owned', 'ToOwned::to_owned',
                  'Option::map', 'Option::<T>::map', 'Option::cloned', 'Option::copied', 'Option::as_ref', 'Option::as_deref', 'Deref>::deref', 'Deref::deref',
                  'AsRef>::as_ref', 'AsRef::as_ref', 'String::as_str', 'Borrow>::borrow', 'Borrow::borrow', 'PathBuf::as_path', 'Path::to_path_buf',
                  'IntoIterator>::into_iter', 'IntoIterator::into_iter', 'Iterator>::map', 'Iterator::map', 'Iterator>::collect', 'Iterator::collect', 'iter', 'Iterator>::cloned', 'Iterator::cloned')


def calls_on_the_way(an, op, limit=300, prog=None, depth=0):
    """every call / arithmetic step the value in `op` went through inside this body (field-insensitive backward closure);
    a closure on the way (`.map(|x| ..)`) contributes the steps its return value goes through"""
    out = set()
    seen = set()
    work = [op]
    while work and len(seen) < limit:
        o = work.pop()
        if o.kind not in ('copy', 'move'):
            continue
        l = o.place.local
        if l in seen:
            continue
        seen.add(l)
        for d in an.defs(l):
            if d[0] == 'stmt':
                rv = d[3].rv
                if rv.kind in ('bin', 'un'):
                    out.add(('bin', rv.binop, d[3].line))
                if rv.kind == 'cast' and rv.j.get('ck', '').startswith(('IntToInt', 'FloatToInt', 'IntToFloat')):
                    out.add(('cast', rv.j.get('ty', '?'), d[3].line))
                for x in rv.ops:
                    work.append(x)
                if rv.kind in ('ref', 'copyderef', 'rawptr', 'discr'):
                    work.append(Operand({'c': {'l': rv.place.local, 'pr': [], 'own': []}}))
                if rv.kind == 'agg' and rv.j.get('ak') == 'closure' and prog is not None and depth < 3 and rv.j.get('def') in prog.bodies:
                    cb = prog.bodies[rv.j['def']]
                    out |= calls_on_the_way(prog.an(cb), Operand({'c': {'l': 0, 'pr': [], 'own': []}}), limit, prog, depth + 1)
            else:
                t = d[3]
                for n in t.callee_names():
                    out.add(('call', strip_generics(n), t.line))
                for a in t.args:
                    if a.kind == 'const' and a.const.get('fn') and prog is not None:
                        out.add(('call', strip_generics(a.const.get('rfn') or a.const['fn']), t.line))
                for a in t.args:
                    work.append(a)
    return out


def not_identity(steps):
    bad = []
    for k, n, line in sorted(steps, key=str):
        if k == 'call' and n.startswith('<') and '>::' in n and ' as ' in n.rsplit('>::', 1)[0]:
            # <T as Trait<U>>::method -> Trait::method
            inner, meth = n.rsplit('>::', 1)
            n = re.sub(r'<.*$', '', inner.split(' as ', 1)[1]) + '::' + meth
        if k == 'call' and (n.endswith(IDENTITY_CALLS) or '::{closure#' in n):
            continue
        if k == 'call' and n.startswith('deadpool_redis::') and n.endswith('::from'):
            continue          # a From impl of this crate between the two families of description types: checked on its own (R19.2)
        bad.append('%s %s (line %s)' % (k, n, line))
    return sorted(set(bad))


TIMEOUTS_T = 'deadpool::managed::config::Timeouts'
QMODE_T = 'deadpool::managed::config::QueueMode'


def _is_none(an, op):
    """the operand is an absent Option: the literal None or `<Option<_> as Default>::default()` (what a derived Default writes)"""
    if 'None' in an.resolve_operand(op):
        return True
    src = sources(an, op)
    return bool(src) and all(x[0] == 'call' and x[1].startswith('<std::option::Option') and x[1].endswith('as std::default::Default>::default') for x in src)


def _const_signature(prog, name):
    """signature of an associated constant naming a default (`QueueMode::DEFAULT`): from the evaluated constant's value"""
    for c_ in prog.crates.values():
        for k_ in c_.j.get('consts', []) or []:
            if k_.get('path') == strip_generics(str(name)) and str(k_.get('ty', '')) == QMODE_T:
                v_ = str(k_.get('value', ''))
                if v_.startswith(QMODE_T + '::'):
                    return ('QueueMode', v_.split('::')[-1])
    return None


def ret_signature(prog, path, depth=0):
    """what a constructor-like function of the crate returns, as far as the defaults are concerned: ('Timeouts', (field values..))
    with 'None' for an absent timeout, ('QueueMode', variant) - followed through calls of other such functions; None = not understood"""
    b = prog.bodies.get(path)
    if b is None or depth > 4:
        return None
    an = prog.an(b)
    sigs = set()
    for blk in b.blocks:
        if blk.cleanup:
            continue
        for s in blk.stmts:
            if s.kind == 'assign' and s.rv.kind == 'agg' and s.rv.j.get('ak') == 'adt' and s.rv.j.get('adt') in (TIMEOUTS_T, QMODE_T):
                if s.rv.j['adt'] == QMODE_T:
                    sigs.add(('QueueMode', s.rv.j['variant']))
                else:
                    sigs.add(('Timeouts', tuple('None' if _is_none(an, o) else '?' for o in s.rv.ops)))
        for s in blk.stmts:
            if s.kind == 'assign' and s.rv.kind == 'use' and s.rv.ops and s.rv.ops[0].kind == 'const' and s.place.is_local() and b.locals[s.place.local]['ty'] == QMODE_T:
                cs = _const_signature(prog, s.rv.ops[0].const.get('v'))
                if cs:
                    sigs.add(cs)
        t = blk.term
        if t.kind == 'call' and t.rcallee in prog.bodies and t.rcallee != path and t.dest is not None and t.dest.is_local():
            ty = b.locals[t.dest.local]['ty']
            if ty in (TIMEOUTS_T, QMODE_T):
                sigs.add(ret_signature(prog, t.rcallee, depth + 1))
    return list(sigs)[0] if len(sigs) == 1 else None


def operand_signature(prog, b, an, op):
    """signature of the value in an operand: built here, or returned by a function of the crate"""
    out = set()
    for x in sources(an, op):
        if x[0] == 'agg' and x[1].startswith(QMODE_T + '::'):
            out.add(('QueueMode', x[1].split('::')[-1]))
        elif x[0] == 'agg' and x[1].startswith(TIMEOUTS_T):
            st = [s for s in b.blocks[x[2]].stmts if s.kind == 'assign' and s.rv.kind == 'agg' and s.rv.j.get('adt') == TIMEOUTS_T]
            out.add(('Timeouts', tuple('None' if _is_none(an, o) else '?' for o in st[0].rv.ops)) if st else None)
        elif x[0] == 'call':
            t = b.blocks[x[2]].term
            out.add(ret_signature(prog, t.rcallee) if t.rcallee in prog.bodies else None)
        elif x[0] == 'const' and _const_signature(prog, x[1]):
            out.add(_const_signature(prog, x[1]))
        elif x[0] in ('arg', 'field', 'upvar', 'unknown', 'const'):
            out.add(None)
    return list(out)[0] if len(out) == 1 else None


def run(ctx):
    prog = ctx.prog
    c = prog.crates.get('deadpool_redis')
    if c is None:
        raise Undecided('deadpool_redis not extracted')

    # ---- R19.1 builder tables ------------------------------------------------------------------------
    for tag, cfg, bname, fu, fc, mnew in FLAVOURS:
        b = prog.body(bname)
        if b is None:
            ctx.undecide('R19.1', '%s not found' % bname); continue
        ctx.saw(b)
        an = prog.an(b)
        # decision table over (url named?, connection named?) by abstract evaluation (dprules/abseval.py): whatever the tests are
        # written as - a match on the pair, is_some() tests, if-let chains, `connection.cloned().unwrap_or_default()`
        from .abseval import Eval
        fuq = '%s.%s' % (cfg, fu); fcq = '%s.%s' % (cfg, fc)
        # the options tested must be the options given: nothing that can turn a present value into an absent one on the way
        for blk in b.blocks:
            t_ = blk.term
            ops_ = []
            if t_.kind == 'switch' and not blk.cleanup and t_.j.get('adt') == 'std::option::Option' and 'on' in t_.j:
                ops_.append(Operand({'c': t_.j['on']}))
            if t_.kind == 'call' and not blk.cleanup and t_.args and any(n.endswith('Option::is_some') or n.endswith('Option::is_none') or n.endswith('Option::<T>::is_some') or n.endswith('Option::<T>::is_none') for n in t_.callee_names()):
                ops_.append(t_.args[0])
            for o_ in ops_:
                ds_ = sources(an, o_, deep=True)
                if any(x[0] == 'field' and x[1] in (fuq, fcq) for x in ds_):
                    # (every call on the way, including the ones the origin analysis looks through)
                    steps_ = calls_on_the_way(an, Operand({'c': {'l': o_.place.local, 'pr': [], 'own': []}}) if o_.kind != 'const' else o_)
                    filt = sorted({x[1] for x in steps_ if x[0] == 'call' and x[1].split('::')[-1] in ('filter', 'and_then', 'take_if', 'or', 'xor', 'zip', 'and', 'then_some', 'then')})
                    if filt:
                        ctx.ob('R19.1', '%s: presence of url / connection is tested as given' % tag, False, ctx.where(b, t_.line),
                               'the tested option passes through %s first: a value that is present can be treated as absent (or vice versa)' % filt, construct='%s:presence-altered' % tag)
        # .. and presence is not replaced by emptiness of the contents: `urls.as_deref().unwrap_or_default().is_empty()` treats
        # `Some(vec![])` as "not named" (the slice view of an Option itself - `Option::as_slice` - is exact)
        for blk in b.blocks:
            t_ = blk.term
            if t_.kind == 'switch' and not blk.cleanup and t_.j.get('dty') == 'bool' and t_.discr.kind != 'const':
                ds_ = sources(an, t_.discr, deep=True)
                if any(x[0] == 'field' and x[1] in (fuq, fcq) for x in ds_) and any(x[0] == 'call' and x[1].split('::')[-1] in ('is_empty', 'len') for x in ds_) and \
                        not any(x[0] == 'call' and x[1].endswith('Option::as_slice') for x in ds_):
                    ctx.ob('R19.1', '%s: presence of url / connection is tested as given' % tag, False, ctx.where(b, t_.line),
                           'the decision looks at the emptiness of the contents, not at the presence of the option: `Some(empty)` counts as not named', construct='%s:presence-by-emptiness' % tag)
        def make_leaf(vu, vc):
            def leaf(op, origins):
                fl = {x[1] for x in origins if x[0] == 'field' and x[1].startswith(cfg + '.')}
                if fl == {fuq}:
                    return ('Some', None) if vu == 'Some' else 'None'
                if fl == {fcq}:
                    return ('Some', None) if vc == 'Some' else 'None'
                return None
            return leaf
        news = [blk for blk in b.blocks if blk.term.kind == 'call' and not blk.cleanup and blk.term.rcallee and strip_generics(blk.term.rcallee) == mnew]
        rows = {}
        unknown = []
        for vu in ('None', 'Some'):
            for vc in ('None', 'Some'):
                ev = Eval(an, make_leaf(vu, vc))
                rows[(vu, vc)] = ev.explore()
                unknown += [x for x in ev.unknown if x not in unknown]
        # errors carried in a private type and converted at the boundary (`From<BuilderError> for ConfigError` through `?`): the
        # variant that reaches the caller is decided inside std's from_residual, where this rule does not look
        priv_err = sorted({st_.rv.j['adt'] for blk_ in b.blocks for st_ in blk_.stmts if st_.kind == 'assign' and st_.rv.kind == 'agg' and st_.rv.j.get('ak') == 'adt' and
                           st_.rv.j.get('adt', '').startswith('deadpool_redis::') and st_.rv.j['adt'] != 'deadpool_redis::config::ConfigError' and
                           any(b2.j.get('impl_trait') == 'std::convert::From' and 'ConfigError' in (b2.j.get('impl_self') or '') and ('From<%s' % st_.rv.j['adt']) in (b2.j.get('impl_trait_ref') or '') for b2 in prog.bodies.values())})
        if priv_err:
            ctx.undecide('R19.1', '%s: builder() reports through the private error type %s converted to ConfigError at the boundary: not followed' % (tag, priv_err[0]))
            continue
        if len({frozenset(v) for v in rows.values()}) == 1 and not unknown:
            # no test in builder() distinguishes the four cases: the decision is made elsewhere (a public accessor, a shared
            # decision function returning a private type) - this rule does not follow it there: no verdict, no alarm
            # .. except for the one row that needs no knowledge of what the function returns: with both named, the function that
            # decides reports UrlAndConnectionSpecified and nothing else can fail first (a url parsed with `?` *before* the
            # test turns "both named, one url malformed" into a parse error)
            for dp_ in sorted({blk.term.rcallee for blk in b.blocks if blk.term.kind == 'call' and not blk.cleanup and blk.term.rcallee in prog.bodies
                               and blk.term.rcallee.startswith('deadpool_redis::')}):
                db_ = prog.bodies[dp_]
                dan_ = prog.an(db_)
                drows = {}
                for vu in ('None', 'Some'):
                    for vc in ('None', 'Some'):
                        drows[(vu, vc)] = Eval(dan_, make_leaf(vu, vc)).explore()
                if len({frozenset(v) for v in drows.values()}) == 1:
                    continue
                ctx.saw(db_)
                blocks = drows[('Some', 'Some')]
                errs = sorted({s_.rv.j['variant'] for x in blocks for s_ in db_.blocks[x].stmts if s_.kind == 'assign' and s_.rv.kind == 'agg' and s_.rv.j.get('adt') == 'deadpool_redis::config::ConfigError'
                               and not s_.rv.j.get('from_residual')})
                early = sorted({db_.blocks[x].term.line for x in blocks if not db_.blocks[x].cleanup and
                                ((db_.blocks[x].term.kind == 'call' and any(n.endswith('FromResidual::from_residual') for n in db_.blocks[x].term.callee_names())) or
                                 any(s_.kind == 'assign' and s_.rv.kind == 'agg' and s_.rv.j.get('from_residual') for s_ in db_.blocks[x].stmts))})
                ok_ = errs == ['UrlAndConnectionSpecified'] and not early
                ctx.ob('R19.1', '%s: both given -> UrlAndConnectionSpecified and nothing else (decided in %s)' % (tag, db_.name.split('::')[-1]), ok_, ctx.where(db_),
                       'errors built %s; another failure can be returned first at line(s) %s' % (errs, early) if not ok_ else '', construct='%s:row:both:delegated' % tag)
            ctx.undecide('R19.1', '%s: builder() itself does not test url / connection (the decision is made in a function it calls): not followed' % tag)
            continue
        if unknown or not news:
            ctx.undecide('R19.1', '%s: the tests on url / connection at line(s) %s are not understood' % (tag, [b.blocks[x].term.line for x in unknown]) if unknown else '%s: no manager constructor call found' % tag)
            continue
        class _Live:
            """the analysis restricted to the definitions inside one row's part of the body"""
            def __init__(self, an_, live):
                self._an = an_; self._live = live
            def defs(self, l):
                return [d for d in self._an.defs(l) if d[1] in self._live]
            def single_def(self, l):
                d = self.defs(l)
                return d[0] if len(d) == 1 else None
            def __getattr__(self, k):
                return getattr(self._an, k)
        for vu in ('None', 'Some'):
            for vc in ('None', 'Some'):
                blocks = rows[(vu, vc)]
                mk = [x for x in news if x.idx in blocks]
                errs = sorted({s.rv.j['variant'] for x in blocks for s in b.blocks[x].stmts if s.kind == 'assign' and s.rv.kind == 'agg' and s.rv.j.get('adt') == 'deadpool_redis::config::ConfigError'})
                if vu == 'Some' and vc == 'Some':
                    ok = not mk and errs == ['UrlAndConnectionSpecified']
                    ctx.ob('R19.1', '%s: both given -> UrlAndConnectionSpecified, no manager constructed' % tag, ok, ctx.where(b), 'managers %d, errors %s' % (len(mk), errs), construct='%s:row:both' % tag)
                    continue
                ok = len(mk) == 1 and 'UrlAndConnectionSpecified' not in errs
                lan = _Live(an, blocks)
                src = sources(lan, mk[0].term.args[0], deep=True) if mk else set()
                flds = {x[1].split('.')[-1] for x in src if x[0] == 'field' and x[1].startswith(cfg + '.')}
                defaults = any(x[0] == 'call' and (x[1].endswith('ConnectionInfo as std::default::Default>::default') or x[1].endswith('default_connection_info')) for x in src)
                # `vec![ConnectionInfo::default()]` writes the element through a raw pointer: fall back on the call being on this row's path
                # before the constructor
                if not defaults and mk:
                    defaults = any(blk.idx in blocks and mk[0].idx in an.reach_after(blk.idx, ('normal',)) for blk in b.blocks if blk.term.kind == 'call' and not blk.cleanup and
                                   any(n.endswith('ConnectionInfo as std::default::Default>::default') or n.endswith('default_connection_info') for n in blk.term.callee_names()))
                if vu == 'None' and vc == 'None':
                    ok = ok and defaults and not ({fu, fc} & flds)
                    what = 'neither given -> ConnectionInfo::default()'
                elif vu == 'Some':
                    ok = ok and fu in flds and fc not in flds and not defaults
                    what = 'only %s given -> exactly that source' % fu
                else:
                    ok = ok and fc in flds and fu not in flds and not defaults
                    what = 'only %s given -> exactly that source' % fc
                ctx.ob('R19.1', '%s: %s' % (tag, what), ok, ctx.where(b), 'sources %s defaults=%s' % (sorted(flds), defaults), construct='%s:row:%s:%s' % (tag, vu, vc), sites=sorted(flds))
                if mk and (vu == 'Some' or vc == 'Some'):
                    # exactly the named servers: nothing on the way from the list to the constructor may drop an element
                    # (`flat_map` / `filter_map` / `flatten` over the parse results swallow the malformed ones)
                    LOSSY = ('flat_map', 'filter_map', 'filter', 'flatten', 'ok', 'skip', 'take', 'step_by', 'dedup', 'skip_while', 'take_while', 'find', 'nth', 'last', 'unwrap_or_default')
                    steps_ = set()
                    for a_ in mk[0].term.args[:1]:
                        if a_.kind != 'const':
                            steps_ |= calls_on_the_way(lan, Operand({'c': {'l': a_.place.local, 'pr': [], 'own': []}}), prog=prog)
                    lossy = sorted({x[1] for x in steps_ if x[0] == 'call' and x[1].split('::')[-1] in LOSSY and ('Iterator' in x[1] or 'iter::' in x[1] or 'Result' in x[1] or 'Option' in x[1])})
                    ctx.ob('R19.1', '%s: every named server reaches the manager (none is dropped on the way)' % tag, not lossy, ctx.where(b, mk[0].term.line),
                           'the list passes through %s: an entry that fails to parse is silently left out instead of yielding a configuration error' % lossy if lossy else '',
                           construct='%s:row-lossy:%s:%s' % (tag, vu, vc))
        # sibling agreement: the server used when neither is named is the one `Config::default()` of this flavour names
        dflt = prog.bodies.get('<%s as std::default::Default>::default' % cfg)
        if dflt is None:
            ctx.undecide('R19.1', '%s: Default for Config not found' % tag)
        else:
            ctx.saw(dflt)
            own = set(rows[('None', 'None')]) - set().union(*[set(v) for k, v in rows.items() if k != ('None', 'None')])
            sig_row = address_signature(b, an, own)
            sig_def = address_signature(dflt, prog.an(dflt), None)
            ctx.ob('R19.1', '%s: naming neither uses the server Config::default() names' % tag, sig_row == sig_def, ctx.where(b),
                   'the (None, None) row builds %s, Default for Config builds %s: "the default local server" is two different servers' % (sorted(sig_row), sorted(sig_def)) if sig_row != sig_def else '',
                   construct='%s:default-agreement' % tag, sites=sorted(map(str, sig_def)))
        # constructor errors propagate through `?`
        for x in news:
            nxt = [blk for blk in b.blocks if blk.term.kind == 'call' and not blk.cleanup and any(n.endswith('Try::branch') for n in blk.term.callee_names()) and
                   any(s[0] == 'call' and s[2] == x.idx for s in sources(an, blk.term.args[0]))]
            ctx.ob('R19.1', '%s: a constructor error (malformed URL) is propagated' % tag, len(nxt) == 1, ctx.where(b, x.term.line), '', construct='%s:error-propagation' % tag)
        # no panic site
        bad = [blk for blk in b.blocks if not blk.cleanup and (preds.is_panic_assert(blk.term) or (blk.term.kind == 'call' and preds.panic_call_names(blk.term.callee_names())))]
        ctx.ob('R19.1', '%s: builder() has no panic site' % tag, not bad, ctx.where(b), str([x.term.line for x in bad]), construct='%s:panic' % tag)
        # pool section passed through
        pc = [blk for blk in b.blocks if blk.term.kind == 'call' and not blk.cleanup and blk.term.rcallee and strip_generics(blk.term.rcallee).endswith('PoolBuilder::config')]
        ctx.ob('R19.1', '%s: the pool section reaches the builder' % tag, len(pc) == 1 and any(s[0] == 'call' and s[1].endswith('get_pool_config') for s in sources(an, pc[0].term.args[1])), ctx.where(b), '', construct='%s:pool-config' % tag)
    poscontrol.assert_controls(ctx, ['panic:', 'assert:'])
    fe = prog.bodies.get('<deadpool_redis::config::ConfigError as std::convert::From<redis::RedisError>>::from')
    if fe is not None:
        made = [s.rv.j['variant'] for blk in fe.blocks for s in blk.stmts if s.kind == 'assign' and s.rv.kind == 'agg' and s.rv.j.get('adt') == 'deadpool_redis::config::ConfigError']
        ctx.ob('R19.1', 'a RedisError becomes ConfigError::Redis', made == ['Redis'], ctx.where(fe), str(made), construct='error:redis')

    # ---- R19.2 From impls -------------------------------------------------------------------------------------
    n_from = 0
    EXCL = {'tls_params'}
    for b in c.bodies:
        if b.j.get('impl_trait') != 'std::convert::From' or not b.path.endswith('::from'):
            continue
        self_ty = b.j.get('impl_self', '')
        tref = b.j.get('impl_trait_ref', '')
        if not ((self_ty.startswith('redis::') and 'deadpool_redis::' in tref) or (self_ty.startswith('deadpool_redis::') and 'From<redis::' in tref)):
            continue
        if self_ty.split('<')[0].endswith('Error') or 'Error' in tref.split('From<')[-1].split('::')[-1]:
            continue          # error conversions are not connection descriptions
        n_from += 1
        ctx.saw(b)
        an = prog.an(b)
        short = '%s <- %s' % (self_ty.split('::')[-1], tref.split('From<')[-1].rstrip('>').split('::')[0])
        # struct to struct: each field from the same-named field
        aggs = [(blk, s) for blk in b.blocks for s in blk.stmts if s.kind == 'assign' and s.rv.kind == 'agg' and s.rv.j.get('ak') == 'adt' and s.place.local == 0 and not blk.cleanup]
        sw = [blk for blk in b.blocks if blk.term.kind == 'switch' and blk.term.j.get('variants') and 'on' in blk.term.j and blk.term.j['on']['l'] == 1 and not blk.term.j['on']['pr']]
        if sw:
            arms = dict(sw[0].term.switch_arms())
            for lab, tgt in arms.items():
                if lab == 'otherwise':
                    continue
                others = [t for l2, t in arms.items() if l2 != lab and t != tgt]
                reach = an.reach([tgt], ('normal',), avoid=others)
                mine = [(blk, s) for blk, s in aggs if blk.idx in reach and not any(blk.idx in an.reach([o], ('normal',), avoid=[tgt]) for o in others)]
                made = sorted({s.rv.j['variant'] for blk, s in mine})
                ctx.ob('R19.2', '%s: variant %s maps to the same-named variant' % (short, lab), made == [lab], ctx.where(b, sw[0].term.line), 'maps to %s' % made,
                       construct='from:%s:%s' % (b.name, lab))
                for blk, s in mine:
                    for fname, op in zip(s.rv.j['fields'], s.rv.ops):
                        if fname in EXCL:
                            continue
                        src = sources(an, op, deep=True)
                        got = {x[1].split('.')[-1] for x in src if x[0] == 'field' and ('@' not in x[1])}
                        # payload fields of the matched variant carry the variant's field name
                        ok = (fname in got or (fname.isdigit() and fname in got)) and any(x[0] == 'arg' for x in src) and \
                            not any(x[0] == 'call' and x[1].endswith('Default>::default') for x in src)
                        ctx.ob('R19.2', '%s::%s.%s comes from the same-named field' % (short, lab, fname), ok, ctx.where(b, s.line), 'from %s' % sorted(got),
                               construct='from-field:%s:%s.%s' % (b.name, lab, fname))
                        bad = not_identity(calls_on_the_way(an, op, prog=prog))
                        ctx.ob('R19.2', '%s::%s.%s is carried across unchanged (identity conversions only)' % (short, lab, fname), not bad, ctx.where(b, s.line), 'passes through %s' % bad if bad else '',
                               construct='from-value:%s:%s.%s' % (b.name, lab, fname))
        else:
            for blk, s in aggs:
                for fname, op in zip(s.rv.j['fields'], s.rv.ops):
                    if fname in EXCL:
                        continue
                    src = sources(an, op, deep=True)
                    got = {x[1].split('.')[-1] for x in src if x[0] == 'field'}
                    # a value selected by a match on the same-named source field (control dependence); the arms are checked below
                    for sblk in b.blocks:
                        if sblk.term.kind == 'switch' and sblk.term.j.get('variants') and 'on' in sblk.term.j:
                            lf = Place(sblk.term.j['on']).last_field()
                            if lf is None:
                                # the matched value was bound by destructuring first (`let Info { protocol, .. } = info; match protocol`)
                                fs_ = sorted({x[1] for x in sources(an, Operand({'c': sblk.term.j['on']})) if x[0] == 'field'})
                                lf = (fs_[0].rsplit('.', 1)[0], fs_[0].rsplit('.', 1)[1]) if len(fs_) == 1 else None
                            if lf and any(x[0] == 'agg' and x[1].rsplit('::', 1)[0].split('::')[-1] == sblk.term.j['adt'].split('::')[-1] for x in src):
                                got.add(lf[1])
                    consts = [x for x in src if x[0] in ('const',) and x[1] not in ('()',)]
                    ctrl = any(x[0] == 'agg' for x in src) and not any(x[0] == 'field' and x[1].split('.')[-1] == fname for x in src)
                    from_arg = any(x[0] == 'arg' for x in src) and not any(x[0] == 'call' and x[1].endswith('Default>::default') for x in src)
                    ok = fname in got and (from_arg or ctrl)
                    ctx.ob('R19.2', '%s.%s comes from the same-named field' % (short, fname), ok, ctx.where(b, s.line), 'from %s' % sorted(got), construct='from-field:%s:%s' % (b.name, fname))
                    bad = not_identity(calls_on_the_way(an, op, prog=prog))
                    ctx.ob('R19.2', '%s.%s is carried across unchanged (identity conversions only)' % (short, fname), not bad, ctx.where(b, s.line), 'passes through %s' % bad if bad else '',
                           construct='from-value:%s:%s' % (b.name, fname))
            # nested enum matches inside (protocol): variant names preserved
            for blk in b.blocks:
                t = blk.term
                if t.kind == 'switch' and t.j.get('variants') and not blk.cleanup:
                    arms = dict(t.switch_arms())
                    for lab, tgt in arms.items():
                        if lab == 'otherwise':
                            continue
                        others = [x for l2, x in arms.items() if l2 != lab and x != tgt]
                        reach = an.reach([tgt], ('normal',), avoid=others)
                        made = sorted({s.rv.j['variant'] for x in reach for s in b.blocks[x].stmts if s.kind == 'assign' and s.rv.kind == 'agg' and s.rv.j.get('ak') == 'adt'
                                       and s.rv.j['adt'].split('::')[-1] == t.j['adt'].split('::')[-1] and not any(x in an.reach([o], ('normal',), avoid=[tgt]) for o in others)})
                        ctx.ob('R19.2', '%s: nested %s::%s keeps its name' % (short, t.j['adt'].split('::')[-1], lab), made == [lab], ctx.where(b, t.line), 'maps to %s' % made,
                               construct='from-nested:%s:%s' % (b.name, lab))
    ctx.floor('R19.2', 'From impls between deadpool-redis and redis description types', n_from, 10)
    # the other way a description reaches the redis crate: IntoConnectionInfo impls on deadpool-redis types (by value or by reference)
    n_into = 0
    for b in c.bodies:
        if b.j.get('impl_trait') != 'redis::IntoConnectionInfo' or not b.path.endswith('::into_connection_info'):
            continue
        if 'deadpool_redis::' not in b.j.get('impl_self', ''):
            continue
        n_into += 1
        ctx.saw(b)
        an = prog.an(b)
        short = 'IntoConnectionInfo for %s' % b.j.get('impl_self', '').replace('deadpool_redis::config::', '')
        for blk in b.blocks:
            if blk.cleanup:
                continue
            for s in blk.stmts:
                if s.kind == 'assign' and s.rv.kind == 'agg' and s.rv.j.get('ak') == 'adt' and s.rv.j['adt'].startswith('redis::') and s.rv.j.get('fields'):
                    for fname, op in zip(s.rv.j['fields'], s.rv.ops):
                        if fname in EXCL:
                            continue
                        src = sources(an, op, deep=True)
                        got = {x[1].split('.')[-1] for x in src if x[0] == 'field'}
                        nested = any(x[0] == 'agg' and x[1].startswith('redis::') for x in src)      # a nested description built here is checked on its own
                        ok = (fname in got or nested) and any(x[0] == 'arg' for x in src) and not any(x[0] == 'call' and x[1].endswith('Default>::default') for x in src)
                        ctx.ob('R19.2', '%s: %s.%s comes from the same-named field of the description' % (short, s.rv.j['adt'].split('::')[-1], fname), ok, ctx.where(b, s.line),
                               'from %s%s' % (sorted(got), ' and Default::default()' if any(x[0] == 'call' and x[1].endswith('Default>::default') for x in src) else ''),
                               construct='into-field:%s:%s.%s' % (b.name, s.rv.j['adt'].split('::')[-1], fname))
    ctx.floor('R19.2', 'IntoConnectionInfo impls on deadpool-redis description types', n_into, 1)

    # ---- R19.3 serde ------------------------------------------------------------------------------------------------------
    core = prog.crates.get('deadpool')
    if core is None or 'serde' not in core.features:
        ctx.undecide('R19.3', 'core crate not extracted with the serde feature')
    else:
        for ty in ('deadpool::managed::config::PoolConfig', 'deadpool::managed::config::Timeouts', 'deadpool::managed::config::QueueMode'):
            ser = [i for i in core.impls if adt_of(i['self_ty']) == ty and i.get('trait', '').endswith('Serialize') and i['derived']]
            de = [i for i in core.impls if adt_of(i['self_ty']) == ty and i.get('trait', '').endswith('Deserialize') and i['derived']]
            ctx.ob('R19.3', '%s derives both Serialize and Deserialize' % ty.split('::')[-1], len(ser) == 1 and len(de) == 1, '', 'Serialize %d, Deserialize %d' % (len(ser), len(de)), construct='serde-derive:' + ty.split('::')[-1])
        # the expanded visitor of PoolConfig
        vm = [b for p, b in prog.bodies.items() if 'visit_map' in p and "for deadpool::managed::config::PoolConfig>" in p]
        if len(vm) != 1:
            ctx.undecide('R19.3', 'Deserialize visitor of PoolConfig not found (%d)' % len(vm))
        else:
            b = vm[0]
            ctx.saw(b)
            an = prog.an(b)
            missing = sorted({an.resolve_operand(blk.term.args[0]).strip('"') for blk in b.blocks if blk.term.kind == 'call' and not blk.cleanup and any(n.endswith('de::missing_field') for n in blk.term.callee_names())})
            defaults = sorted({n.split(' as ')[0].lstrip('<').split('::')[-1] for blk in b.blocks if blk.term.kind == 'call' and not blk.cleanup for n in blk.term.callee_names() if n.endswith('as std::default::Default>::default')})
            fields = [f['name'] for f in core.adt('deadpool::managed::config::PoolConfig')['variants'][0]['fields']]
            # what an omitted section is filled with: Default::default() of its type or a named constructor (`serde(default = "path")`) -
            # either way it must produce the documented default value
            dsig = {}
            for blk in b.blocks:
                t_ = blk.term
                if t_.kind == 'call' and not blk.cleanup and t_.rcallee in prog.bodies and t_.dest is not None and t_.dest.is_local() and b.locals[t_.dest.local]['ty'] in (TIMEOUTS_T, QMODE_T):
                    dsig.setdefault(b.locals[t_.dest.local]['ty'].split('::')[-1], set()).add(ret_signature(prog, t_.rcallee))
                for st_ in blk.stmts:
                    if not blk.cleanup and st_.kind == 'assign' and st_.rv.kind == 'use' and st_.rv.ops and st_.rv.ops[0].kind == 'const' and _const_signature(prog, st_.rv.ops[0].const.get('v')):
                        dsig.setdefault('QueueMode', set()).add(_const_signature(prog, st_.rv.ops[0].const.get('v')))
                    # (a private constructor is part of the visitor in the normal form)
                    if not blk.cleanup and st_.kind == 'assign' and st_.rv.kind == 'agg' and st_.rv.j.get('ak') == 'adt' and st_.rv.j.get('adt') == QMODE_T:
                        dsig.setdefault('QueueMode', set()).add(('QueueMode', st_.rv.j['variant']))
                    if not blk.cleanup and st_.kind == 'assign' and st_.rv.kind == 'agg' and st_.rv.j.get('ak') == 'adt' and st_.rv.j.get('adt') == TIMEOUTS_T:
                        dsig.setdefault('Timeouts', set()).add(('Timeouts', tuple('None' if _is_none(an, o) else '?' for o in st_.rv.ops)))
            want_sig = {'Timeouts': {('Timeouts', ('None', 'None', 'None'))}, 'QueueMode': {('QueueMode', 'Fifo')}}
            defaults = sorted(dsig)
            ctx.ob('R19.3', 'PoolConfig: only max_size is required; omitted timeouts / queue_mode take their defaults', missing == ['max_size'] and dsig == want_sig and sorted(fields) == ['max_size', 'queue_mode', 'timeouts'],
                   ctx.where(b), 'required %s, defaulted %s, fields %s' % (missing, {k: sorted(map(str, v)) for k, v in dsig.items()}, fields), construct='serde-default:PoolConfig', sites=missing + defaults)
        # the writing side of the round trip: every field is written on every path of the derived Serialize impl
        # (a `skip_serializing_if` is only harmless when it skips exactly the value the reader defaults to: Option::is_none on that field)
        for ty in ('deadpool::managed::config::PoolConfig', 'deadpool::managed::config::Timeouts'):
            sb = [b_ for p_, b_ in prog.bodies.items() if p_.endswith('Serialize for %s>::serialize' % ty)]
            flds = [f['name'] for f in core.adt(ty)['variants'][0]['fields']]
            if len(sb) != 1:
                ctx.undecide('R19.3', 'derived Serialize impl of %s not found (%d)' % (ty, len(sb))); continue
            b_ = sb[0]
            ctx.saw(b_)
            san = prog.an(b_)
            writes = {}
            for blk in b_.blocks:
                if blk.term.kind == 'call' and not blk.cleanup and any(n.endswith('SerializeStruct::serialize_field') for n in blk.term.callee_names()):
                    writes.setdefault(san.resolve_operand(blk.term.args[1]).strip('"'), []).append(blk)
            ok_exits = [bb for bb, cls, det in san.ret_assignments() if cls != 'err' and cls != 'residual']
            ends = [blk.idx for blk in b_.blocks if blk.term.kind == 'call' and not blk.cleanup and any(n.endswith('SerializeStruct::end') for n in blk.term.callee_names())]
            for f_ in flds:
                ws = writes.get(f_, [])
                okw = bool(ws) and bool(ends)
                why = 'field never written' if not ws else ''
                if okw:
                    esc = san.reach([0], ('normal',), avoid=[w.idx for w in ws])
                    if any(e in esc for e in ends):
                        # conditional: acceptable only if the governing test is Option::is_none of this very field
                        tests = [blk for blk in b_.blocks if blk.term.kind == 'switch' and blk.term.j.get('dty') == 'bool' and ws[0].idx in san.reach_after(blk.idx, ('normal',)) and any(san.dominates(blk.idx, w.idx) for w in ws)]
                        harmless = bool(tests) and all(any(s_[0] == 'call' and s_[1] == 'std::option::Option::is_none' for s_ in sources(san, blk.term.discr)) and
                                                       any(s_[0] == 'field' and s_[1] == '%s.%s' % (ty, f_) for s_ in sources(san, blk.term.discr, deep=True)) for blk in tests)
                        okw = harmless
                        why = 'the field is skipped on some path (skip_serializing_if): a value that is not the default can be lost in a round trip'
                ctx.ob('R19.3', '%s.%s is written on every path of Serialize' % (ty.split('::')[-1], f_), okw, ctx.where(b_), why if not okw else '', construct='serde-write:%s.%s' % (ty.split('::')[-1], f_))
        td = prog.bodies.get('<deadpool::managed::config::Timeouts as std::default::Default>::default')
        okt = td is not None and ret_signature(prog, td.path) == ('Timeouts', ('None', 'None', 'None'))
        ctx.ob('R19.3', 'the default Timeouts are "no timeouts"', okt, ctx.where(td) if td else '', '', construct='default:Timeouts')
        qd = prog.bodies.get('<deadpool::managed::config::QueueMode as std::default::Default>::default')
        okq = qd is not None and ret_signature(prog, qd.path) == ('QueueMode', 'Fifo')
        ctx.ob('R19.3', 'the default queue mode is Fifo', okq, ctx.where(qd) if qd else '', '', construct='default:QueueMode')
        pn = prog.body('deadpool::managed::config::PoolConfig::new')
        if pn is not None:
            pan = prog.an(pn)
            aggs = [s for blk in pn.blocks for s in blk.stmts if s.kind == 'assign' and s.rv.kind == 'agg' and s.rv.j.get('adt') == 'deadpool::managed::config::PoolConfig']
            okp = False
            if len(aggs) == 1:
                f = dict(zip(aggs[0].rv.j['fields'], aggs[0].rv.ops))
                okp = any(x[0] == 'arg' for x in sources(pan, f['max_size'])) and \
                    operand_signature(prog, pn, pan, f['timeouts']) == ('Timeouts', ('None', 'None', 'None')) and \
                    operand_signature(prog, pn, pan, f['queue_mode']) == ('QueueMode', 'Fifo')
            ctx.ob('R19.3', 'PoolConfig::new uses the same defaults', okp, ctx.where(pn), '', construct='default:PoolConfig::new')

    ctx.not_decided += ['value-level round trips through serde / the config crate (durations over the full secs/nanos range, string-typed sources): library behaviour over a value space; only the structural clause is claimed']
    ctx.assumptions += ['serde derive generates field-by-field (de)serialisation', 'redis::Client::open / ClusterClient::new validate URLs']

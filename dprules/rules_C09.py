"""C09 - retain(), take() and detach keep the books straight."""
from .mcommon import *
from .mcommon import branch_condition
from .roles import classify_write, adt_of
from .facts import strip_generics, Operand, Place
from .analysis import sources
from .engine import Undecided

TECHNIQUE = 'branch table of retain(), must-pass-through on the take path, Manager::detach call-site inventory, drop-site audit (may-init dataflow over every Drop terminator of a value containing a pooled object) on mir_built'
LEVEL_TEXT = 'static analysis of every path of retain / take / return / resize / close and of every drop site in the managed module'
EXPLANATION = ('Decided: retain() keeps an element exactly on the true branch of the predicate (index advances, nothing else) and on the '
               'false branch removes it order-preservingly, detaches it and hands it to the caller; size is reduced by the number '
               'removed under the same lock and the semaphore is untouched; Object::take passes through users-1, size-1, one '
               'conditional add_permits and one detach and returns the inner value; Manager::detach is called from exactly the '
               'expected set of functions and never on a path that also keeps the object; every drop of a value that may still '
               'contain a pooled object, in code that runs while the pool is alive, is preceded by Manager::detach on that value.')

# functions that are expected to call Manager::detach (by role)
def expected_detach_sites(r):
    return {
        r.UNREADY_DROP.name: 'object rejected by recycling / failed post_create / cancelled get',
        r.RETAIN.name: 'removed by retain',
        r.RESIZE.name: 'released by a shrink',
        r.CLOSE.name: 'released by close',
    } | {h.name: 'surplus object on return' for h in r.RETURN if h.path != r.OBJ_DROP.path} \
      | {h.name: 'taken by Object::take' for h in r.TAKE if h.path != r.OBJ_TAKE.path}


def holds_object(r):
    def pred(l):
        ty = l['ty']
        if ty.startswith('&') or ty.startswith('*') or ty.startswith('{') or l['parts'].get('closures'):
            return False
        adts = l['parts']['adts']
        if ty.startswith('impl ') or ty.startswith('dyn ') or 'dyn std::future::Future' in ty:
            return False  # opaque (possibly boxed) futures: whatever they own is audited in the body that defines them
        if 'std::sync::MutexGuard' in adts:
            return False  # a guard borrows the slots, it owns no object
        if r.UNREADY in adts or r.OBJECT in adts or r.INNER in adts or r.POOL in adts:
            return False  # these have their own Drop impl / are the pool itself
        if 'std::task::Poll' == adt_of(ty):
            return False
        if 'std::collections::vec_deque::Drain' in adts or 'std::vec::Drain' in adts:
            return True
        # a struct of this crate that mentions pooled objects only behind references (a cursor / RAII helper over
        # `&mut VecDeque<ObjectInner>`) borrows them, it owns none
        a_ = r.crate.adt(adt_of(ty) or '')
        if a_ is not None and a_.get('variants') and adt_of(ty) not in (r.OBJINNER,) and \
                all(f_['ty'].startswith('&') or not (f_['parts'].get('params') or r.OBJINNER in f_['parts'].get('adts', [])) for v_ in a_['variants'] for f_ in v_['fields']):
            return False
        return r.OBJINNER in adts or '<M as deadpool::managed::Manager>::Type' in l['parts']['params']
    return pred


def drop_site_audit(ctx, r, rule):
    """every maybe-initialised drop of a value containing a pooled object, in a non-cleanup block of a function that can
    run while the pool is alive, is preceded on every path by Manager::detach (or hands the object to the caller)"""
    prog = ctx.prog
    pred = holds_object(r)
    n = 0
    for b in managed_bodies(prog):
        if b.path in (r.OBJ_TAKE.path,):
            pass
        an = prog.an(b)
        dets = manager_calls(b, MANAGER_DETACH)
        for blk in b.blocks:
            if blk.cleanup:
                continue
            t = blk.term
            site = None
            if t.kind == 'drop' and t.place.is_local() and pred(b.locals[t.place.local]):
                l = t.place.local
                st = an.state_at_term(blk.idx)
                if st is None or not ((st[1] >> l) & 1):
                    continue
                site = ('drop', l)
            elif t.kind == 'drop' and not t.place.is_local():
                # drop-and-replace of a field (`slots.vec = vec`)
                lf = t.place.last_field()
                parts = t.j.get('parts', {})
                if r.OBJINNER in parts.get('adts', []) and lf and lf[0] == r.SLOTS:
                    site = ('replace', lf[1])
            elif t.kind == 'call' and t.callee_names() & {'std::mem::drop'} and t.args and t.args[0].kind == 'move' \
                    and pred(b.locals[t.args[0].place.local]):
                site = ('mem::drop', t.args[0].place.local)
            elif t.kind == 'call' and any(n_.split('::')[-1] in ('clear', 'truncate') and ('VecDeque' in n_ or 'Vec' in n_) for n_ in t.callee_names()) \
                    and t.args and receiver_is_field(an, t.args[0], r.SLOTS, r.QUEUE):
                site = ('clear', r.QUEUE)
            if site is None:
                continue
            n += 1
            w = ctx.where(b, t.line)
            # exclusions with reasons ---------------------------------------------------
            if b.path == r.OBJ_DROP.path:
                # Object::drop with a dead Weak: the pool no longer exists
                up = [x for x in b.blocks if x.term.kind == 'switch' and x.term.j.get('adt') == 'std::option::Option'
                      and any(s[0] == 'call' and 'Weak' in s[1] and s[1].endswith('upgrade') for s in sources(an, Operand({'c': x.term.j['on']})))]
                on_none = any(blk.idx in an.reach([dict(x.term.switch_arms()).get('None')], ('normal',), avoid=[dict(x.term.switch_arms()).get('Some')]) for x in up)
                ctx.ob(rule, 'object dropped without detach only when the pool is gone', on_none, w,
                       'Object::drop drops the inner value on a path where the pool may be alive' if not on_none else 'Weak::upgrade returned None',
                       construct='drop-dead-pool', sites=[w])
                continue
            if site[0] == 'replace':
                # old deque replaced after `drain(..)` consumed all of it
                drains = [x.idx for x, m in queue_calls(r, b, an) if m == 'drain']
                # `new.append(&mut slots.vec)` moves every element out as well (the queue is the *argument* there)
                drains += [x.idx for x in b.blocks if x.term.kind == 'call' and not x.cleanup and len(x.term.args) == 2 and
                           any(n_.startswith('std::collections::VecDeque::') and n_.endswith('::append') for n_ in x.term.callee_names()) and receiver_is_field(an, x.term.args[1], r.SLOTS, r.QUEUE)]
                ok = any(an.dominates(d, blk.idx) for d in drains)
                ctx.ob(rule, 'queue storage replaced only after it was drained', ok, w,
                       'the idle queue is overwritten while it may still hold objects' if not ok else '', construct='queue-replace:' + b.name)
                continue
            l = site[1] if isinstance(site[1], int) else None
            if l is not None and 'Drain' in b.locals[l]['ty']:
                # a Drain iterator dropped after the loop consumed it (its None arm): holds nothing
                nxt = [x for x in b.blocks if x.term.kind == 'call' and any('Drain' in n_ and n_.endswith('::next') for n_ in x.term.callee_names())]
                ok = bool(nxt) and all(an.dominates(x.idx, blk.idx) for x in nxt)
                ctx.ob(rule, 'drain iterator dropped only after exhaustion', ok, w, '', construct='drain-drop:' + b.name)
                continue
            # the value was handed to detach before being dropped
            ok = False
            for d in dets:
                linked = l is None or any(_mentions_local(an, a, l) for a in d.term.args)
                if not linked:
                    continue
                if an.dominates(d.idx, blk.idx):
                    ok = True
                else:
                    # every path from the definition(s) of l to the drop passes the detach
                    defs = [x[1] for x in an.defs(l)] if l is not None else [0]
                    esc = set()
                    for df in defs:
                        esc |= an.reach_after(df, ('normal',), avoid=[d.idx])
                    st_ok = blk.idx not in esc
                    # ... unless the value is provably moved out on the other paths (state says maybe-init only via detach path)
                    if st_ok:
                        ok = True
            ctx.ob(rule, 'pooled object detached before it is dropped', ok, w,
                   '%s of `%s` (%s) in %s is not preceded by Manager::detach on that value' % (
                       site[0], an.resolve_local(l) if l is not None else site[1], b.locals[l]['ty'] if l is not None else '', b.name) if not ok else '',
                   construct='drop-without-detach:' + b.name, sites=[w])
    ctx.count('drop_sites_audited', n)
    ctx.floor(rule, 'drop sites of pooled objects audited', n, 4)


def _mentions_local(an, op, l, depth=0):
    if op.kind == 'const' or depth > 8:
        return False
    if op.place.local == l:
        return True
    d = an.single_def(op.place.local)
    if d and d[0] == 'stmt':
        rv = d[3].rv
        if rv.place is not None:
            if rv.place.local == l:
                return True
            return _mentions_local(an, Operand({'c': {'l': rv.place.local, 'pr': [], 'own': []}}), l, depth + 1)
        for o in rv.ops:
            if _mentions_local(an, o, l, depth + 1):
                return True
    return False


def run(ctx):
    r = roles(ctx)
    prog = ctx.prog

    # ---- R09.1 retain branch table ---------------------------------------------
    b = r.RETAIN
    ctx.saw(b)
    an = prog.an(b)
    preds = [blk for blk in b.blocks if is_dyn_call(blk.term) and not blk.cleanup]
    # the predicate must be judged exactly once per idle object: one call site, inside the per-element loop, and the
    # predicate is not handed to any other code (e.g. a pre-scan with Iterator::all re-invokes a stateful FnMut)
    region = [prog.bodies[p_] for p_ in prog.region([b.path]) if p_ != b.path and p_.startswith(b.path)]
    extra = [(rb.name, blk.term.line) for rb in region for blk in rb.blocks if is_dyn_call(blk.term) and not blk.cleanup]
    escapes = []
    for blk in b.blocks:
        t_ = blk.term
        if t_.kind == 'call' and not blk.cleanup and not is_dyn_call(t_):
            for a in t_.args:
                if a.kind != 'const' and any(s[0] == 'arg' and s[1] == 'predicate' for s in sources(an, a)) and not any(n_ == 'std::mem::drop' for n_ in t_.callee_names()):
                    escapes.append((sorted(t_.callee_names())[0], t_.line))
    ctx.ob('R09.1', 'the predicate is invoked at exactly one site, once per idle object', len(preds) == 1 and not extra and not escapes, ctx.where(b),
           'predicate call sites in retain: %d, in its closures: %s, passed on to: %s' % (len(preds), extra, escapes), construct='retain:predicate-sites')
    # every call of retain() looks at the idle queue: no way to the return that bypasses the walk, except behind a test (under
    # the lock) that the queue is empty.  `status().available == 0` is not that test: gets in flight make it 0 with idle objects
    qc0 = queue_calls(r, b, an)
    loop_q = [x.idx for x, m in qc0 if in_cycle(an, x.idx) and not x.cleanup]
    empt = [x for x, m in qc0 if m in ('is_empty', 'len') and not in_cycle(an, x.idx) and not x.cleanup]
    if loop_q:
        esc = an.reach([0], ('normal',), avoid=loop_q + [x.idx for x in empt])
        rets = an.exits()['return']
        bypass = [e for e in rets if e in esc]
        ctx.ob('R09.1', 'retain() never returns without having looked at the idle queue', not bypass, ctx.where(b),
               'a path from the entry to the return passes neither the walk nor an emptiness test of the queue: idle objects are not offered to the predicate' if bypass else '',
               construct='retain:bypass')
        for e_ in empt:
            # behind the emptiness test: the non-empty side must go through the walk
            sw_ = [x for x in b.blocks if x.term.kind == 'switch' and x.term.j.get('dty') == 'bool' and x.term.discr.kind != 'const' and any(s_[0] == 'call' and s_[2] == e_.idx for s_ in sources(an, x.term.discr))]
            for x in sw_:
                c_ = branch_condition(an, x, 'true')
                arms_ = dict(x.term.switch_arms())
                m_ = [m for y, m in qc0 if y.idx == e_.idx][0]
                nonempty = None
                if m_ == 'is_empty':
                    neg_ = False
                    d_ = an.single_def(x.term.discr.place.local) if not x.term.discr.place.proj else None
                    if d_ and d_[0] == 'stmt' and d_[3].rv.kind == 'un' and d_[3].rv.binop == 'Not':
                        neg_ = True
                    nonempty = arms_['true' if neg_ else 'false']
                if nonempty is not None:
                    esc2 = an.reach([nonempty], ('normal',), avoid=loop_q)
                    ctx.ob('R09.1', 'a non-empty idle queue is always walked', not any(e in esc2 for e in rets), ctx.where(b, x.term.line), '', construct='retain:bypass-nonempty')
    if len(preds) != 1:
        pass
    else:
        pc = preds[0]
        sw = b.blocks[pc.term.target]
        # the bool result is switched on directly or after moves
        sws = [x for x in b.blocks if x.term.kind == 'switch' and x.term.j.get('dty') == 'bool'
               and any(s[0] == 'call' and s[2] == pc.idx for s in sources(an, x.term.discr))]
        if len(sws) != 1:
            ctx.undecide('R09.1', 'retain: cannot find the test of the predicate result')
        else:
            sw = sws[0]
            arms = dict(sw.term.switch_arms())
            neg = False
            c = None
            # account for `if !predicate(..)`
            o = sw.term.discr
            d = an.single_def(o.place.local)
            if d and d[0] == 'stmt' and d[3].rv.kind == 'un' and d[3].rv.binop == 'Not':
                neg = True
            keep_arm = arms['false' if neg else 'true']; drop_arm = arms['true' if neg else 'false']
            qc = queue_calls(r, b, an)
            removes = [x for x, m in qc if m in ('remove', 'swap_remove_back', 'swap_remove_front', 'pop_front', 'pop_back', 'drain', 'retain', 'retain_mut', 'truncate', 'clear')]
            dets = manager_calls(b, MANAGER_DETACH)
            keep_reach = an.reach([keep_arm], ('normal',), avoid=[sw.idx])
            drop_reach = an.reach([drop_arm], ('normal',), avoid=[sw.idx])
            # blocks exclusive to one arm (before the arms join again)
            keep_only = keep_reach - drop_reach
            drop_only = drop_reach - keep_reach
            # another algorithm altogether: every element is taken out before it is judged and the kept ones are put back.
            # Whether that preserves order and count is a loop argument this rule does not attempt - no verdict, no alarm
            pre = [x for x in removes if an.dominates(x.idx, sw.idx) and in_cycle(an, x.idx)]
            if pre:
                ctx.undecide('R09.1', 'retain takes every element out (line %s) and re-inserts the kept ones: the order / count argument of such a walk is not attempted' % pre[0].term.line)
                removes = None
        if len(preds) == 1 and len(sws) == 1 and removes is not None:
            bad_keep = [x for x in removes if x.idx in keep_only] + [x for x in dets if x.idx in keep_only]
            ctx.ob('R09.1', 'predicate true: element kept (no remove / detach on that branch)', not bad_keep, ctx.where(b, sw.term.line),
                   'the kept branch removes or detaches an object' if bad_keep else '', construct='retain:true-branch')
            rm = [x for x in removes if x.idx in drop_only]
            dt = [x for x in dets if x.idx in drop_only]
            ok = len(rm) == 1 and len(dt) == 1 and 'VecDeque' in ''.join(rm[0].term.callee_names()) and \
                [m for x, m in qc if x.idx == rm[0].idx][0] == 'remove'
            later_dets = [x for x in dets if x.idx not in drop_only and x.idx not in keep_only and in_cycle(an, x.idx) and not an.dominates(x.idx, sw.idx)]
            if not ok and len(rm) == 1 and not dt and later_dets:
                # collect first, detach afterwards (`for obj in &mut rejected { detach(obj) }`): that every collected object reaches
                # the second loop is an argument about the contents of a vector - not attempted, no alarm
                ctx.undecide('R09.1', 'retain collects the rejected objects and detaches them in a second loop (line %s): not followed' % later_dets[0].term.line)
                ok = None
            if ok is not None:
                ctx.ob('R09.1', 'predicate false: element removed (order preserving) and detached once', ok, ctx.where(b, sw.term.line),
                       'false branch: removes=%s detaches=%d' % ([m for x, m in qc if x in rm], len(dt)), construct='retain:false-branch',
                       sites=[ctx.where(b, x.term.line) for x in rm + dt])
            if ok:
                # the removed element (same index as the one tested) goes to detach and then to the caller's vector
                idx_t = an.resolve_operand(rm[0].term.args[1])
                tested = [x for x in b.blocks if x.term.kind == 'call' and any('IndexMut' in n_ or 'Index' in n_ or n_.endswith('::get_mut') or n_.endswith('::get') for n_ in x.term.callee_names())
                          and x.term.args and receiver_is_field(an, x.term.args[0], r.SLOTS, r.QUEUE)]
                idx_p = an.resolve_operand(tested[0].term.args[1]) if tested else None
                ctx.ob('R09.1', 'removed element is the one the predicate saw', idx_t == idx_p, ctx.where(b, rm[0].term.line),
                       'predicate saw index `%s`, removed index `%s`' % (idx_p, idx_t), construct='retain:index')
                pushes = [x for x in b.blocks if x.idx in drop_only and x.term.kind == 'call' and any(n_.startswith('std::vec::Vec::') and n_.endswith('::push') for n_ in x.term.callee_names())]
                okp = len(pushes) == 1 and any(s[0] == 'call' and s[2] == rm[0].idx for s in sources(an, pushes[0].term.args[1]))
                ctx.ob('R09.1', 'removed object handed to the caller', okp, ctx.where(b, rm[0].term.line), '', construct='retain:removed-vec')
                okd = any(s[0] == 'call' and s[2] == rm[0].idx for s in sources(an, dt[0].term.args[1]))
                ctx.ob('R09.1', 'detach receives the removed object', okd, ctx.where(b, dt[0].term.line), '', construct='retain:detach-arg')
                # index advances exactly on the kept branch
                idx_local = rm[0].term.args[1].place.local if rm[0].term.args[1].kind != 'const' else None
                src_idx = [s for s in an.defs(idx_local)] if idx_local is not None else []
            # size -= removed.len() under the same guard, after the loop
            decs = [(bb, s) for bb, i, s in r.field_writes(b, r.SLOTS, r.SIZE)]
            okz = len(decs) == 1 and classify_write(an, decs[0][1])[0] == '-=' and 'len' in classify_write(an, decs[0][1])[1]
            if not okz and len(decs) == 1 and classify_write(an, decs[0][1]) == ('-=', '1_usize') and decs[0][0] in drop_only:
                okz = True          # one `size -= 1` per removed object, on the branch that removes it
            ctx.ob('R09.1', 'size reduced by the number of removed objects', okz, ctx.where(b, decs[0][1].line) if decs else ctx.where(b),
                   'size writes: %s' % [classify_write(an, s) for _, s in decs], construct='retain:size')
            if okz:
                g1 = guard_root(an, decs[0][1].place)
                g2 = guard_root(an, Place({'l': rm[0].term.args[0].place.local, 'pr': [], 'own': []})) if ok else g1
                ctx.ob('R09.1', 'size updated under the same lock acquisition as the removal', g1 is not None and g1 == g2, ctx.where(b, decs[0][1].line), '',
                       construct='retain:same-lock')
            # result
            aggs = [s for blk in b.blocks for s in blk.stmts if s.kind == 'assign' and s.rv.kind == 'agg' and s.rv.j.get('adt') == 'deadpool::managed::RetainResult']
            if len(aggs) == 1:
                f = dict(zip(aggs[0].rv.j['fields'], aggs[0].rv.ops))
                ret_src = an.resolve_operand(f['retained'])
                # `retained` must be the final loop index (number of kept elements) and `removed` the vector pushed to
                loop_idx = an.resolve_operand(tested[0].term.args[1]) if ok and tested else None
                okret = ret_src == loop_idx
                if not okret:
                    # .. or the length of the idle queue read after the walk (what is left in it is what was kept)
                    lens = [x for x in b.blocks if x.term.kind == 'call' and not x.cleanup and any(n_.endswith('VecDeque::len') or n_.endswith('VecDeque::<T, A>::len') for n_ in x.term.callee_names())
                            and x.term.args and receiver_is_field(an, x.term.args[0], r.SLOTS, r.QUEUE) and not in_cycle(an, x.idx)
                            and any(s_[0] == 'call' and s_[2] == x.idx for s_ in sources(an, f['retained']))]
                    okret = len(lens) == 1 and all(lens[0].idx in an.reach_after(x.idx, ('normal',)) for x in removes) and \
                        not any(x.idx in an.reach_after(lens[0].idx, ('normal',)) for x in removes)
                ctx.ob('R09.1', 'retained count is the number of kept elements', okret, ctx.where(b, aggs[0].line),
                       'retained: %s' % ret_src, construct='retain:retained')
            sem = [x for x in b.blocks if r.is_sem_call(b, x.term)]
            ctx.ob('R09.1', 'retain does not touch the semaphore (capacity unchanged)', not sem, ctx.where(b), '', construct='retain:semaphore')

    # whatever the walk looks like: `retained` counts idle objects that were kept - the `size` counter also counts the objects
    # that are checked out or being recycled, so a count read from it is wrong as soon as one object is in use
    for s_ in [s for blk in b.blocks for s in blk.stmts if s.kind == 'assign' and s.rv.kind == 'agg' and s.rv.j.get('adt') == 'deadpool::managed::RetainResult']:
        f_ = dict(zip(s_.rv.j['fields'], s_.rv.ops))
        if 'retained' in f_:
            from_size = ('field', '%s.%s' % (r.SLOTS, r.SIZE)) in sources(an, f_['retained'], deep=True)
            ctx.ob('R09.1', 'retained count is not read from the size counter', not from_size, ctx.where(b, s_.line),
                   'RetainResult.retained derives from slots.size, which includes the objects that are checked out' if from_size else '', construct='retain:retained-from-size')

    # ---- R09.2 Object::take -------------------------------------------------------
    tk = r.OBJ_TAKE
    ctx.saw(tk)
    tan = prog.an(tk)
    hs = [h for h in r.TAKE if h.path != tk.path]
    for h in hs:
        ctx.saw(h)
        han = prog.an(h)
        rets = han.exits()['return']
        subs = [x.idx for x in h.blocks if x.term.kind == 'call' and any(n_.endswith('::fetch_sub') for n_ in x.term.callee_names())
                and ('field', '%s.%s' % (r.INNER, r.USERS)) in sources(han, x.term.args[0])]
        decs = [bb for bb, i, s in r.field_writes(h, r.SLOTS, r.SIZE) if classify_write(han, s) == ('-=', '1_usize')]
        dets = [x.idx for x in manager_calls(h, MANAGER_DETACH)]
        for what, bbs in (('users -= 1', subs), ('size -= 1', decs), ('Manager::detach', dets)):
            esc = han.reach([0], ('normal',), avoid=bbs)
            twice = [x for x in bbs for y in bbs if (x != y and y in han.reach_after(x, ('normal',))) or in_cycle(han, x)]
            ok = len(bbs) >= 1 and not any(e in esc for e in rets) and not twice
            ctx.ob('R09.2', 'take: %s exactly once on every path' % what, ok, ctx.where(h), '%d site(s)' % len(bbs), construct='take:' + what)
    from .rules_C07 import surplus_guard
    surplus_guard(ctx, r, 'R09.2', hs)
    # take returns the inner value it detached
    rets = [s for blk in tk.blocks for s in blk.stmts if s.kind == 'assign' and s.place.local == 0 and s.place.is_local()]
    src = set()
    for s in rets:
        src |= sources(tan, s.rv.ops[0]) if s.rv.ops else set()
    ok = ('field', r.OBJECT + '.inner') in src and ('field', r.OBJINNER + '.obj') in src
    ctx.ob('R09.2', 'take returns the inner value of the object', ok, ctx.where(tk), 'origins %s' % sorted(x for x in src if x[0] == 'field'), construct='take:return-value')

    # ---- R09.3 detach call-site inventory -------------------------------------------
    exp = expected_detach_sites(r)
    found = {}
    for bd in managed_bodies(prog):
        for blk in manager_calls(bd, MANAGER_DETACH):
            if blk.cleanup:
                continue
            found.setdefault(bd.name, []).append(blk)
    for name, blks in sorted(found.items()):
        ok = name in exp
        ctx.ob('R09.3', 'Manager::detach only where the pool lets go of an object', ok, ctx.where(prog.bodies[blks[0] and [p for p in prog.bodies if strip_generics(p) == name][0]], blks[0].term.line),
               '%s calls Manager::detach' % name if not ok else exp[name], construct='detach-site:' + name,
               sites=[str(x.term.line) for x in blks])
        ctx.ob('R09.3', 'one detach site per releasing function', len(blks) == 1, '', '%s: %d sites' % (name, len(blks)), construct='detach-count:' + name)
    for name, why in sorted(exp.items()):
        ctx.ob('R09.3', 'every releasing function detaches', name in found, name, 'no Manager::detach in %s (%s)' % (name, why) if name not in found else '',
               construct='detach-missing:' + name)
    # detach never on a path that also keeps the object
    for bd in managed_bodies(prog):
        dan = prog.an(bd)
        dets = [x.idx for x in manager_calls(bd, MANAGER_DETACH)]
        pushes = [x.idx for x, m in queue_calls(r, bd, dan) if m.startswith('push')]
        for d in dets:
            for p in pushes:
                # the same object: the value pushed is the one handed to detach (in a loop another element may be pushed on a
                # later round - the definition of the local in between makes it another object)
                pa = bd.blocks[p].term.args[1] if len(bd.blocks[p].term.args) > 1 else None
                lp = pa.place.local if pa is not None and pa.kind != 'const' else None
                same = lp is None or any(_mentions_local(dan, a, lp) for a in bd.blocks[d].term.args)
                redef = [x[1] for x in dan.defs(lp)] if lp is not None else []
                both = same and (p in dan.reach_after(d, ('normal',), avoid=redef) or d in dan.reach_after(p, ('normal',), avoid=redef))
                ctx.ob('R09.3', 'no path both detaches and keeps an object', not both, ctx.where(bd, bd.blocks[d].term.line), '', construct='detach-and-keep:' + bd.name)

    # ---- R09.4 drop-site audit ---------------------------------------------------------
    drop_site_audit(ctx, r, 'R09.4')

    # ---- R09.5 the postgres registry relies on detach --------------------------------------
    pg = prog.bodies.get('<deadpool_postgres::Manager as deadpool::managed::Manager>::detach')
    if pg is None:
        ctx.undecide('R09.5', 'deadpool-postgres Manager::detach not extracted')
    else:
        ctx.saw(pg)
        # (normal form: the registry's private detach helper is part of this body) the registry is filtered here
        pan_ = prog.an(pg)
        fw = [blk for blk in pg.blocks if blk.term.kind == 'call' and not blk.cleanup and blk.term.args and any(n.startswith('std::vec::Vec::') and n.endswith('::retain') for n in blk.term.callee_names()) and
              any(s_[0] == 'field' and s_[1].startswith('deadpool_postgres::StatementCaches.') for s_ in sources(pan_, blk.term.args[0], deep=True))]
        ctx.ob('R09.5', 'postgres Manager::detach forwards to the statement cache registry', len(fw) == 1, ctx.where(pg), '', construct='pg-detach-forward')

    # ---- R09.9 take / retain / the Drop paths keep all three books (effect ledger) ------------------------------
    from .ledger_rules import ledger_obligations
    ledger_obligations(ctx, r, 'R09.9', (0, 1, 2), only={r.OBJ_TAKE.path, r.OBJ_DROP.path, r.RETAIN.path, r.UNREADY_DROP.path})

    ctx.not_decided += ['nothing material beyond the trusted VecDeque / Vec semantics; a panicking retain predicate poisons the pool (documented, INFO under C02)']
    ctx.assumptions += ['VecDeque::remove(i) removes exactly the element at i', 'checked-out objects are not reachable from the idle queue (ownership)']

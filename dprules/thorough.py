"""Thorough tier: fresh extraction, feature matrix, compile_fail witnesses, mutant self-test."""
import json, os, subprocess, sys, time
from . import extract, facts, analysis, engine, witness

VERIF = os.path.dirname(os.path.dirname(os.path.abspath(__file__)))

CORE_PROPS = {'C01', 'C02', 'C03', 'C04', 'C05', 'C06', 'C07', 'C08', 'C09', 'C10', 'C11', 'C12', 'C13'}
MATRIX = {
    # property -> extra feature configurations to re-run the rules on
    **{p: ['core_min', 'core_rt', 'core_serde'] for p in CORE_PROPS},
    'C14': ['sync_tracing', 'backends_default'], 'C15': ['backends_default'], 'C16': ['backends_default'], 'C17': ['backends_default'],
    'C18': ['backends_default'], 'C19': ['backends_default'],
}


def feature_matrix(ctx, mod):
    done = []
    for cfg in MATRIX.get(ctx.prop, []):
        try:
            d, info, crates_ = extract.facts_for(cfg, fresh=False, log=lambda m: print(m, file=sys.stderr), loader=facts.load_dir)
        except extract.ExtractError as e:
            ctx.note('feature config %s could not be extracted: %s' % (cfg, str(e).splitlines()[0]))
            continue
        prog = analysis.Prog(crates_)
        if os.environ.get('DP_NO_NORMALISE') != '1':
            from . import inline
            inline.normalise(prog, inline.DEADPOOL_CRATES, inline.default_keep(prog))
        sub = engine.Ctx(ctx.prop, ctx.tier, prog, info)
        # role caches are per Prog
        try:
            mod.run(sub)
        except engine.Undecided as e:
            sub.undecide('binding', str(e))
        except Exception as e:  # a crate missing from this configuration
            ctx.note('feature config %s: rules not applicable (%s: %s)' % (cfg, type(e).__name__, str(e)[:120]))
            continue
        n_ok = sum(1 for o in sub.obs if o['ok'])
        for o in sub.obs:
            if not o['ok']:
                o2 = dict(o)
                o2['instance'] = '[%s] %s' % (cfg, o['instance'])
                ctx.obs.append(o2)
        ctx.counters['matrix:%s:obligations' % cfg] = len(sub.obs)
        ctx.counters['matrix:%s:discharged' % cfg] = n_ok
        if sub.undecided:
            ctx.note('feature config %s: %d rule(s) not decidable there (crate or feature absent): %s' % (cfg, len(sub.undecided), '; '.join(u[0] for u in sub.undecided)[:200]))
        done.append(cfg)
    ctx.info.setdefault('extra', {})['feature_matrix'] = done


def witnesses(ctx):
    mine = [w for w, p in witness.WITNESS_OF.items() if p == ctx.prop]
    if not mine:
        return
    res, out, rc = witness.run_witnesses()
    if not res:
        ctx.undecide('W', 'witness crate did not run: ' + out[-300:].replace('\n', ' '))
        return
    for w in mine:
        tests = res.get(w, [])
        if not tests:
            ctx.undecide('W', 'witness %s produced no doc-test result' % w)
            continue
        twins = [t for t in tests if '(twin)' in t[0]]
        fails = [t for t in tests if '(compile_fail)' in t[0]]
        if not twins or not all(ok for _, ok in twins):
            ctx.undecide('W', 'compiling twin of %s does not compile: the witness proves nothing' % w)
            continue
        for name, ok in fails:
            ctx.ob('W', 'witness %s: the violating program does not type-check' % w, ok, 'witness/src/lib.rs', 'the program compiles (or fails with another error code)' if not ok else '',
                   construct='witness:' + name.split(' line')[0], sites=[name])
    ctx.counters['witness_doctests'] = sum(len(v) for v in res.values())


def mutant_selftest(ctx, jobs=6):
    """apply the catalogue mutants of this property to scratch copies and count how many the check reports (evidence only)"""
    sys.path.insert(0, os.path.join(VERIF, 'selftest'))
    try:
        import mutants as M
    except Exception as e:
        ctx.note('mutant catalogue not loadable: %s' % e)
        return
    ids = [m['id'] for m in M.MUTANTS if ctx.prop in m['props']]
    if not ids:
        return
    r = subprocess.run([sys.executable, os.path.join(VERIF, 'selftest', 'run_mutants.py'), '--jobs', str(jobs), '--only', ','.join(ids), '--props', ctx.prop,
                        '--result', '/tmp/dp_selftest_%s.json' % ctx.prop], capture_output=True, text=True)
    summ = [l for l in r.stdout.splitlines() if l.startswith('summary:')]
    ctx.info.setdefault('extra', {})['mutant_selftest'] = summ[0] if summ else 'no summary'
    missed = [l.split()[1] for l in r.stdout.splitlines() if l.startswith('MISSED')]
    ctx.info['extra']['mutants_missed'] = missed
    ctx.counters['mutants_run'] = len(ids)


def _apply_and_check(prop, patches, jobs=None):
    """apply each patch to its own scratch copy of the analysed tree (under /tmp, removed afterwards) and run this property's
    quick check on it, `jobs` at a time with one extraction cache per worker: {id: return code | 'patch-failed'}"""
    import shutil, tempfile, queue
    from concurrent.futures import ThreadPoolExecutor
    jobs = jobs or int(os.environ.get('DP_JOBS', '6'))
    base = tempfile.mkdtemp(prefix='dpself_', dir='/tmp')
    res = {}
    try:
        q = queue.Queue()
        src = os.path.join(extract.CACHE, 'target')
        for k in range(max(1, min(jobs, len(patches)))):
            c = os.path.join(base, 'cache%d' % k)
            os.makedirs(c)
            if os.path.isdir(src):
                subprocess.run(['cp', '-a', src, os.path.join(c, 'target')], check=False)
            q.put(c)
        def one(item):
            pid, patch = item
            cache = q.get()
            work = os.path.join(base, 'w_' + pid)
            try:
                subprocess.run(['rsync', '-a', '--exclude', '/target', '--exclude', '.git', extract.REPO + '/', work + '/'], check=True)
                r = subprocess.run(['patch', '-p1', '-s', '-i', patch], cwd=work, capture_output=True, text=True)
                if r.returncode != 0:
                    return pid, 'patch-failed'
                env = dict(os.environ, DP_REPO=work, DP_CACHE=cache)
                c = subprocess.run([os.path.join(VERIF, 'check'), prop, '--tier', 'quick', '--no-evidence'], env=env, capture_output=True, text=True)
                return pid, c.returncode
            finally:
                shutil.rmtree(work, ignore_errors=True)
                q.put(cache)
        with ThreadPoolExecutor(max_workers=max(1, min(jobs, len(patches)))) as ex:
            for pid, rc in ex.map(one, patches):
                res[pid] = rc
    finally:
        shutil.rmtree(base, ignore_errors=True)
    return res


def seeded_selftest(ctx):
    """apply the independently written breaking changes kept for this property (seeded/<id>/patch.diff) to scratch copies
    under /tmp and record whether this property's check reports them (evidence only)"""
    import glob
    seeds = sorted(glob.glob(os.path.join(VERIF, 'seeded', ctx.prop + '-*')))
    seeds = [(os.path.basename(s), os.path.join(s, 'patch.diff')) for s in seeds if os.path.exists(os.path.join(s, 'patch.diff'))]
    if not seeds:
        return
    res = _apply_and_check(ctx.prop, seeds)
    detected = sorted(k for k, v in res.items() if v == 1)
    missed = sorted(k for k, v in res.items() if v not in (1, 'patch-failed'))
    skipped = sorted(k for k, v in res.items() if v == 'patch-failed')
    ctx.info.setdefault('extra', {})['seeded_selftest'] = {'detected': detected, 'missed': missed, 'patch_no_longer_applies': skipped}
    ctx.counters['seeds_run'] = len(detected) + len(missed)


def refactor_selftest(ctx):
    """apply the independently written behaviour-preserving changes (selftest/refactors/<id>/patch.diff) to scratch
    copies under /tmp and record whether this property's check stays quiet on them (evidence only)"""
    import glob
    refs = sorted(x for x in glob.glob(os.path.join(VERIF, 'selftest', 'refactors', '*')) if os.path.exists(os.path.join(x, 'patch.diff')))
    if not refs:
        return
    res = _apply_and_check(ctx.prop, [(os.path.basename(s), os.path.join(s, 'patch.diff')) for s in refs])
    quiet = sorted(k for k, v in res.items() if v == 0)
    undecided = sorted(k for k, v in res.items() if v == 2)
    loud = sorted(k for k, v in res.items() if v not in (0, 2, 'patch-failed'))
    skipped = sorted(k for k, v in res.items() if v == 'patch-failed')
    ctx.info.setdefault('extra', {})['refactor_selftest'] = {'quiet': len(quiet), 'undecided': undecided, 'not_quiet': loud, 'patch_no_longer_applies': skipped}
    ctx.counters['refactorings_run'] = len(quiet) + len(loud) + len(undecided)


def run(ctx, mod):
    feature_matrix(ctx, mod)
    witnesses(ctx)
    if os.environ.get('DP_SKIP_SELFTEST') != '1':
        mutant_selftest(ctx)
        seeded_selftest(ctx)
        refactor_selftest(ctx)

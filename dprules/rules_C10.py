"""C10 - timeouts, non-blocking mode and missing runtimes behave as documented."""
import re
from .mcommon import *
from .ucommon import uroles
from .roles import adt_of
from .facts import strip_generics, Operand, Place
from .analysis import result_matches, sources, sources_across
from .engine import Undecided

TECHNIQUE = 'decision tables by abstract evaluation of the tests on (wait timeout, runtime, duration) with constrained CFG exploration per row (dprules/abseval.py), def-use origin of the arguments at the apply_timeout call sites, struct-field coverage of the build() test, error-discipline rule on every apply_timeout result'
LEVEL_TEXT = 'static analysis of every path of apply_timeout, the getter entry, PoolBuilder::build, unmanaged timeout_get and Runtime::timeout'
EXPLANATION = ('Decided: non-blocking mode is exactly wait == Some(d) with d.as_nanos() == 0 and reaches the loop without a suspension point; '
               'apply_timeout is the three-row table (_, None) -> await the future, (Some, Some) -> Runtime::timeout mapping None to '
               'Timeout(<type passed>), (None, Some) -> NoRuntimeSpecified without polling the future; the three call sites pass (Wait, '
               'timeouts.wait), (Create, timeouts.create), (Recycle, timeouts.recycle) of the per-call timeouts and the pool runtime; every '
               'apply_timeout result is propagated or matched with an arm that returns NoRuntimeSpecified; build() tests all fields of Timeouts '
               'together with runtime.is_none(); unmanaged timeout_get is the four-row table with the zero test before the runtime test; the '
               'Tokio1 arm of Runtime::timeout calls tokio::time::timeout and maps Elapsed to None.')

TIMEOUTS = 'deadpool::managed::config::Timeouts'
TT = 'deadpool::managed::errors::TimeoutType'
POOLERR = 'deadpool::managed::errors::PoolError'


def explore(an, decide):
    """blocks reachable from entry along normal edges when `decide(blk)` restricts the successors of switch blocks
    (decide returns a list of allowed target blocks or None for 'all')"""
    seen = {0}
    work = [0]
    while work:
        x = work.pop()
        blk = an.b.blocks[x]
        allowed = None
        if blk.term.kind == 'switch':
            allowed = decide(blk)
        for t in an.succs(x, ('normal',)):
            if allowed is not None and t not in allowed:
                continue
            if t not in seen:
                seen.add(t); work.append(t)
    return seen


def tuple_switch_decider(an, tuple_local, assignment, zero_test=None, zero_value=None):
    """assignment: {field index str: 'Some'|'None'}; zero_test: predicate(blk) identifying the `as_nanos() == 0` switch"""
    def decide(blk):
        t = blk.term
        on = t.j.get('on')
        if on and on['l'] == tuple_local and len(on['pr']) == 1 and on['pr'][0][1:] in assignment and t.j.get('adt') == 'std::option::Option':
            want = assignment[on['pr'][0][1:]]
            return [tgt for lab, tgt in t.switch_arms() if lab == want]
        if zero_test is not None and zero_value is not None and zero_test(blk):
            return [tgt for lab, tgt in t.switch_arms() if lab == ('true' if zero_value else 'false')]
        return None
    return decide


def origin_decider(an, role_of, assignment, zero_test=None, zero_value=None):
    """restrict the arms of every switch on an Option whose value originates (field-sensitively: through a tuple built for
    a `match (a, b)`, through moves) from a value with a role: role_of(set of origins) -> role name or None;
    assignment: {role: 'Some' | 'None'}.  Works for `match (a, b) {..}`, nested matches and let-else chains alike."""
    cache = {}
    def decide(blk):
        t = blk.term
        on = t.j.get('on')
        if on and t.j.get('adt') == 'std::option::Option':
            if blk.idx not in cache:
                cache[blk.idx] = role_of(sources(an, Operand({'c': on})))
            role = cache[blk.idx]
            if role in assignment:
                return [tgt for lab, tgt in t.switch_arms() if lab == assignment[role]]
        if zero_test is not None and zero_value is not None and zero_test(blk):
            return [tgt for lab, tgt in t.switch_arms() if lab == ('true' if zero_value else 'false')]
        return None
    return decide


def is_zero_test(an, blk):
    t = blk.term
    if t.kind != 'switch' or t.j.get('dty') != 'bool':
        return False
    return zero_duration_test(sources(an, t.discr))


ZERO_CALLS = {'std::time::Duration::as_nanos', 'std::time::Duration::is_zero'}


def zero_duration_test(src):
    """does this set of origins describe `d.as_nanos() == 0` or its std synonym `d.is_zero()`?"""
    calls = {s[1] for s in src if s[0] == 'call'}
    if calls == {'std::time::Duration::is_zero'}:
        return not any(s[0] == 'bin' for s in src)
    return calls == {'std::time::Duration::as_nanos'} and {s[1] for s in src if s[0] == 'bin'} == {'Eq'} and any(s[0] == 'const' and s[1] == '0_u128' for s in src)


def events_in(an, blocks, body, wrapper=None):
    ev = set()
    for x in blocks:
        blk = body.blocks[x]
        if blk.cleanup:
            continue
        t = blk.term
        if t.kind == 'yield':
            ev.add('yield')
        if t.kind == 'call':
            if wrapper is not None and t.rcallee and strip_generics(t.rcallee) == wrapper:
                ev.add('apply_timeout')
            for n in t.callee_names():
                if n == 'deadpool_runtime::Runtime::timeout':
                    ev.add('Runtime::timeout')
                if n == 'tokio::sync::Semaphore::acquire':
                    ev.add('acquire')
                if n == 'tokio::sync::Semaphore::try_acquire':
                    ev.add('try_acquire')
                if n.endswith('IntoFuture::into_future'):
                    src = sources(an, t.args[0])
                    futs = body.upvars_where(lambda ty: ty.startswith('impl ') or (ty.isidentifier() and len(ty) <= 3))
                    if any(s[0] == 'upvar' and s[1].split('.')[0] in futs for s in src):
                        ev.add('await-future')
        for s in blk.stmts:
            if s.kind == 'assign' and s.rv.kind == 'agg' and s.rv.j.get('ak') == 'adt' and s.rv.j['adt'].endswith('PoolError'):
                ev.add('err:' + s.rv.j['variant'])
    return ev


def build_runtime_check(ctx, r, rule):
    """PoolBuilder::build() refuses any configured timeout when there is no runtime (C10; C18's last clause relies on it)"""
    prog = ctx.prog
    # ---- R10.5 build() ----------------------------------------------------------------------------------------------------
    bd = prog.body('deadpool::managed::builder::PoolBuilder::build')
    if bd is None:
        ctx.undecide(rule, 'PoolBuilder::build not found')
    else:
        ctx.saw(bd)
        ban = prog.an(bd)
        tfields = [f['name'] for f in r.crate.adt(TIMEOUTS)['variants'][0]['fields']]
        # decision table by abstract evaluation: one row per timeout field set alone, with and without a runtime, plus the
        # row without any timeout.  Falls back to the idiom-based reading below when a test is not understood.
        from .abseval import Eval
        def run_row(setf, rt):
            def leaf(op, origins):
                fl = {o[1] for o in origins if o[0] == 'field'}
                tf = {x.split('.')[-1] for x in fl if x.startswith(TIMEOUTS + '.')}
                if len(tf) == 1 and not any(x.endswith('.runtime') for x in fl):
                    return ('Some', 'nonzero') if list(tf)[0] == setf else 'None'
                if any(x.endswith('PoolBuilder.runtime') or x.endswith('.runtime') for x in fl) and not tf:
                    return ('Some', None) if rt else 'None'
                return None
            def depends(origins):
                return any(o[0] == 'field' and (o[1].startswith(TIMEOUTS + '.') or o[1].endswith('.runtime')) for o in origins)
            ev = Eval(ban, leaf, depends)
            blocks = ev.explore()
            got = set()
            for x in blocks:
                for st in bd.blocks[x].stmts:
                    if st.kind == 'assign' and st.rv.kind == 'agg' and st.rv.j.get('ak') == 'adt':
                        if st.rv.j.get('adt', '').endswith('BuildError'):
                            got.add('err:' + st.rv.j['variant'])
                        if st.rv.j.get('adt') == 'std::result::Result' and st.place.is_local() and st.place.local == 0:
                            got.add(st.rv.j['variant'])
            return got, ev.unknown
        table = {}
        unknown = False
        for f in tfields + [None]:
            for rt in (False, True):
                got, unk = run_row(f, rt)
                table[(f, rt)] = got
                unknown = unknown or bool(unk)
        if not unknown:
            for f in tfields:
                okf = 'err:NoRuntimeSpecified' in table[(f, False)] and 'Ok' not in table[(f, False)]
                ctx.ob(rule, 'build() rejects timeouts.%s without a runtime' % f, okf, ctx.where(bd), 'with only %s set and no runtime build() reaches %s' % (f, sorted(table[(f, False)])),
                       construct='build:timeout-field:' + f)
            okr = all('Ok' in table[(f, True)] and not any(e.startswith('err:') for e in table[(f, True)]) for f in tfields + [None]) and \
                'Ok' in table[(None, False)] and not any(e.startswith('err:') for e in table[(None, False)])
            ctx.ob(rule, 'the rejection is conditional on runtime.is_none()', okr, ctx.where(bd),
                   'rows %s' % {('%s,%s' % (k[0], 'runtime' if k[1] else 'no runtime')): sorted(v) for k, v in table.items()} if not okr else '', construct='build:runtime-test')
            made = [s.rv.j['variant'] for blk in bd.blocks for s in blk.stmts if s.kind == 'assign' and s.rv.kind == 'agg' and s.rv.j.get('adt', '').endswith('BuildError')]
            ctx.ob(rule, 'the error is BuildError::NoRuntimeSpecified', made == ['NoRuntimeSpecified'], ctx.where(bd), str(made), construct='build:error')
            return
        errs = [bb for bb, cls, det in ban.ret_assignments() if cls == 'err']
        tested = {}
        rt_test = None
        for blk in bd.blocks:
            t = blk.term
            if t.kind == 'switch' and t.j.get('dty') == 'bool':
                src = sources(ban, t.discr)
                call = {s[1] for s in src if s[0] == 'call'}
                flds = {s[1] for s in src if s[0] == 'field'}
                # `[wait, create, recycle].iter().any(Option::is_some)`: the same disjunction written with an iterator
                dsrc = sources(ban, t.discr, deep=True)
                if any(s[0] == 'call' and s[1].endswith('::any') and 'Iterator' in s[1] for s in dsrc) and not any(s[0] == 'call' and s[1].split('::')[-1] in ('all', 'filter', 'skip', 'take', 'step_by', 'rev') for s in dsrc) \
                        and any(s[0] == 'const' and strip_generics(str(s[1])) == 'std::option::Option::is_some' for s in dsrc):
                    call = call | {'std::option::Option::is_some'}
                    flds = flds | {s[1] for s in dsrc if s[0] == 'field'}
                # the predicate call is terminal for the origin analysis: look at what it was applied to
                for s in list(src):
                    if s[0] == 'call' and s[1] in ('std::option::Option::is_some', 'std::option::Option::is_none'):
                        for s2 in sources(ban, bd.blocks[s[2]].term.args[0]):
                            if s2[0] == 'field':
                                flds.add(s2[1])
                arms = dict(t.switch_arms())
                for f in tfields:
                    if '%s.%s' % (TIMEOUTS, f) in flds and 'std::option::Option::is_some' in call:
                        tested[f] = any(e in ban.reach([arms['true']], ('normal',)) for e in errs)
                if any(x.endswith('.runtime') for x in flds) and 'std::option::Option::is_none' in call:
                    rt_test = any(e in ban.reach([arms['true']], ('normal',), avoid=[arms['false']]) for e in errs) and \
                        not any(e in ban.reach([arms['false']], ('normal',), avoid=[arms['true']]) for e in errs)
        for f in tfields:
            ctx.ob(rule, 'build() rejects timeouts.%s without a runtime' % f, tested.get(f) is True, ctx.where(bd), 'field not part of the test' if f not in tested else '',
                   construct='build:timeout-field:' + f)
        ctx.ob(rule, 'the rejection is conditional on runtime.is_none()', rt_test is True, ctx.where(bd), '', construct='build:runtime-test')
        made = [s.rv.j['variant'] for blk in bd.blocks for s in blk.stmts if s.kind == 'assign' and s.rv.kind == 'agg' and s.rv.j.get('adt', '').endswith('BuildError')]
        ctx.ob(rule, 'the error is BuildError::NoRuntimeSpecified', made == ['NoRuntimeSpecified'], ctx.where(bd), str(made), construct='build:error')



def unmanaged_timeout_table(ctx, RULE):
    """decision table of the unmanaged timeout_get / get (shared by C10 and C12: a zero timeout must not reach the timer)"""
    prog = ctx.prog
    # ---- R10.7 unmanaged timeout_get -----------------------------------------------------------------------------------------
    u = uroles(ctx)
    # the decision may sit in an async helper of timeout_get: the coroutine (timeout_get itself or one it awaits) that
    # matches on (the per-call timeout, the configured runtime); the timeout is the captured Option<Duration>, whatever its name
    cands = [u.TIMEOUT_GET] + [prog.bodies[blk.term.rcallee] for blk in u.TIMEOUT_GET.blocks if blk.term.kind == 'call' and not blk.cleanup and blk.term.rcallee in prog.bodies and
                               prog.bodies[blk.term.rcallee].is_coroutine and blk.term.rcallee.startswith('deadpool::unmanaged')]
    tg = u.TIMEOUT_GET; u_role = None
    def make_role(cand):
        tnames = cand.upvars_of_type('std::option::Option<std::time::Duration>')
        def role(src):
            if any(x[0] == 'upvar' and x[1].split('.')[0] in tnames for x in src) and not any(x[0] == 'field' and x[1].endswith('PoolConfig.runtime') for x in src):
                return 'timeout'
            if any(x[0] == 'field' and x[1].endswith('PoolConfig.runtime') for x in src) and not any(x[0] == 'upvar' and x[1].split('.')[0] in tnames for x in src):
                return 'runtime'
            return None
        return role
    for cand in cands:
        can_ = prog.an(cand)
        role = make_role(cand)
        seen_roles = {role(sources(can_, Operand({'c': blk.term.j['on']}))) for blk in cand.blocks
                      if blk.term.kind == 'switch' and blk.term.j.get('adt') == 'std::option::Option' and 'on' in blk.term.j}
        if {'timeout', 'runtime'} <= seen_roles:
            tg, u_role = cand, role
    tan = prog.an(tg)
    ctx.saw(tg)
    if u_role is None:
        ctx.undecide(RULE, 'unmanaged timeout_get: the decisions on (timeout, runtime) were not found')
    else:
        zt = lambda blk: is_zero_test(tan, blk)
        nz = len([1 for blk in tg.blocks if zt(blk)])
        ctx.ob(RULE, 'unmanaged timeout_get has one zero-duration test', nz == 1, ctx.where(tg), '%d tests' % nz, construct='u-timeout:zero-test')
        rows = {
            ('None', 'None', None): ({'acquire', 'yield'}, {'Runtime::timeout', 'try_acquire', 'err:NoRuntimeSpecified'}),
            ('None', 'Some', None): ({'acquire', 'yield'}, {'Runtime::timeout', 'try_acquire', 'err:NoRuntimeSpecified'}),
            ('Some', 'None', True): ({'try_acquire'}, {'yield', 'Runtime::timeout', 'err:NoRuntimeSpecified', 'acquire'}),
            ('Some', 'Some', True): ({'try_acquire'}, {'yield', 'Runtime::timeout', 'err:NoRuntimeSpecified', 'acquire'}),
            ('Some', 'Some', False): ({'Runtime::timeout', 'acquire', 'err:Timeout'}, {'try_acquire', 'err:NoRuntimeSpecified'}),
            ('Some', 'None', False): ({'err:NoRuntimeSpecified'}, {'try_acquire', 'acquire', 'Runtime::timeout', 'yield'}),
        }
        # only the part of the body up to the pop matters: cut at the queue pop
        pops = [x.idx for x, m in u.queue_calls(tg) if m == 'pop']
        for (tv, rv_, zero), (must, mustnot) in rows.items():
            dec = origin_decider(tan, u_role, {'timeout': tv, 'runtime': rv_}, zt, zero)
            def dec2(blk, dec=dec):
                return dec(blk)
            blocks = explore(tan, dec2)
            # drop everything after the pop
            after = set()
            for p_ in pops:
                after |= tan.reach_after(p_, ('normal',))
            got = events_in(tan, blocks - after, tg)
            ok = must <= got and not (mustnot & got)
            ctx.ob(RULE, 'unmanaged timeout_get row (timeout %s, runtime %s, zero %s)' % (tv, rv_, zero), ok, ctx.where(tg),
                   'events %s; required %s; forbidden %s' % (sorted(got), sorted(must), sorted(mustnot)), construct='u-timeout:row:%s:%s:%s' % (tv, rv_, zero), sites=sorted(got))
        for blk in tg.blocks:
            if blk.term.kind == 'call' and 'deadpool_runtime::Runtime::timeout' in blk.term.callee_names() and not blk.cleanup:
                s1 = sources(tan, blk.term.args[1])
                ctx.ob(RULE, 'Runtime::timeout gets the per-call timeout', any(x[0] == 'upvar' and x[1].split('.')[0] in tg.upvars_of_type('std::option::Option<std::time::Duration>') for x in s1), ctx.where(tg, blk.term.line), '', construct='u-timeout:duration')

    # unmanaged get() waits under the configured timeout
    ug = [b_ for b_ in prog.bodies.values() if b_.is_coroutine and b_.name == 'deadpool::unmanaged::Pool::get::{closure#0}']
    if len(ug) != 1:
        ctx.undecide(RULE, 'unmanaged Pool::get coroutine not found')
    else:
        gb = ug[0]; gan = prog.an(gb)
        ctx.saw(gb)
        ctor = u.TIMEOUT_GET.j.get('parent')
        calls = [blk for blk in gb.blocks if blk.term.kind == 'call' and not blk.cleanup and blk.term.rcallee == ctor]
        okg = False; det = '%d calls of timeout_get' % len(calls)
        if len(calls) == 1:
            src = sources(gan, calls[0].term.args[1], deep=True)
            okg = any(x[0] == 'field' and x[1] == 'deadpool::unmanaged::config::PoolConfig.timeout' for x in src) and not any(x[0] == 'agg' and x[1].startswith('std::option::Option') for x in src) \
                and not any(x[0] == 'const' and not str(x[1]).startswith('fn') for x in src)
            det = 'argument from %s' % sorted({str(x[1]) for x in src if x[0] in ('field', 'agg', 'const')})
        ctx.ob(RULE, 'unmanaged get() waits under the configured timeout', okg, ctx.where(gb), det, construct='u-get:configured-timeout')



def run(ctx):
    r = roles(ctx)
    prog = ctx.prog
    root = r.TIMEOUT_GET
    top = root
    ctx.saw(root)
    # the permit may be acquired in an async helper of the getter: the body with the try_acquire is where the mode is decided
    holders = [prog.bodies[p] for p in r.GETTER if prog.bodies[p].is_coroutine and any(r.is_sem_call(prog.bodies[p], blk.term, 'try_acquire') and not blk.cleanup for blk in prog.bodies[p].blocks)]
    if len(holders) == 1 and holders[0].path != top.path:
        root = holders[0]
        ctx.saw(root)
        tan = prog.an(top)
        polls = [blk for blk in top.blocks if blk.term.kind == 'call' and not blk.cleanup and blk.term.rcallee == root.path]
        pops_top = [blk.idx for blk, m in queue_calls(r, top, tan) if m.startswith('pop')]
        okh = len(polls) == 1
        stray = []
        if okh:
            pre = tan.reach([0], ('normal',), avoid=pops_top)
            loop = tan.reach_after(polls[0].idx, ('normal',), avoid=pops_top)
            for x in pre:
                if top.blocks[x].term.kind == 'yield' and not (polls[0].idx in tan.reach_after(x, ('normal',), avoid=pops_top) and x in loop and polls[0].idx in (tan.doms(('normal',)).get(x) or ())):
                    stray.append(top.blocks[x].term.line)
        ctx.ob('R10.1', 'the getter only awaits its permit helper before it reaches the idle queue', okh and not stray, ctx.where(top, polls[0].term.line if polls else None),
               'suspension points that do not belong to the await of %s: %s' % (root.name, stray), construct='nonblocking:helper-await')
    an = prog.an(root)

    # ---- R10.1 non-blocking mode: decision table of the getter over `timeouts.wait` (dprules/abseval.py) ---------------
    tacq = [blk for blk in root.blocks if r.is_sem_call(root, blk.term, 'try_acquire') and not blk.cleanup]
    ats = [blk for blk in root.blocks if blk.term.kind == 'call' and not blk.cleanup and blk.term.rcallee and strip_generics(blk.term.rcallee) == r.TIMEOUT_WRAPPER_FN]
    if len(tacq) != 1 or not ats:
        ctx.undecide('R10.1', 'getter: try_acquire sites %d, apply_timeout sites %d' % (len(tacq), len(ats)))
    else:
        from .abseval import Eval
        pops = [blk.idx for blk, m in queue_calls(r, root, an) if m.startswith('pop')]
        after = set()
        for p_ in pops:
            after |= an.reach_after(p_, ('normal',))
        wait_f = TIMEOUTS + '.wait'
        def is_wait(origins):
            return any(o[0] == 'field' and o[1] == wait_f for o in origins) and not any(o[0] == 'field' and o[1].startswith(TIMEOUTS + '.') and o[1] != wait_f for o in origins)
        COARSE = ('as_millis', 'as_micros', 'as_secs', 'subsec_nanos', 'subsec_micros', 'subsec_millis', 'as_secs_f32', 'as_secs_f64')
        rows = {
            'None': ('None', None, ({'apply_timeout'}, {'err:Timeout'}), 'without a wait timeout the get waits for a permit (it may try first, it never gives up)'),
            'Some(zero)': ('Some', 'zero', ({'try_acquire'}, {'yield', 'apply_timeout', 'acquire'}), 'a zero wait timeout is the non-blocking attempt: no suspension point, no timer, before the idle queue'),
            'Some(non-zero)': ('Some', 'nonzero', ({'apply_timeout'}, {'try_acquire', 'err:Timeout'}), 'a non-zero wait timeout waits under apply_timeout (which is what reports a missing runtime)'),
        }
        for rname, (var, pay, (must, mustnot), what) in rows.items():
            def leaf(op, origins, var=var, pay=pay):
                if not is_wait(origins):
                    return None
                if any(x.startswith('@Some') for x in op.place.proj) if op.kind != 'const' else False:
                    return pay
                # the Duration inside (a `Some(d)` binding) or the Option itself - told by the operand's type
                ty = root.locals[op.place.local]['ty'] if not op.place.proj else None
                if ty is not None and 'Duration' in ty and 'Option' not in ty:
                    return pay
                return 'None' if var == 'None' else ('Some', pay)
            ev = Eval(an, leaf)
            blocks = ev.explore()
            got = events_in(an, blocks - after, root, wrapper=r.TIMEOUT_WRAPPER_FN)
            ok = must <= got and not (mustnot & got)
            if not ok and ev.unknown:
                # a test on the wait timeout that the evaluator cannot decide: a coarser unit than nanoseconds is a finding
                # (sub-unit timeouts would count as zero), anything else is not understood
                coarse = []
                for x in ev.unknown:
                    ds = sources(an, root.blocks[x].term.discr, deep=True) if root.blocks[x].term.discr.kind != 'const' else set()
                    coarse += [o[1] for o in ds if o[0] == 'call' and o[1].startswith('std::time::Duration::') and o[1].split('::')[-1] in COARSE]
                if not coarse:
                    ctx.undecide('R10.1', 'getter row wait=%s: a test on the wait timeout at line(s) %s is not understood' % (rname, [root.blocks[x].term.line for x in ev.unknown]))
                    continue
                ctx.ob('R10.1', 'non-blocking = wait is Some(d) and d is zero to the nanosecond', False, ctx.where(root, root.blocks[ev.unknown[0]].term.line),
                       'the zero test uses %s: every timeout below that unit counts as zero and becomes a non-blocking attempt' % sorted(set(coarse)), construct='nonblocking:test', sites=sorted(set(coarse)))
                continue
            ctx.ob('R10.1', 'getter row wait=%s: %s' % (rname, what), ok, ctx.where(root, tacq[0].term.line),
                   'events before the idle queue %s; required %s; forbidden %s' % (sorted(got), sorted(must), sorted(mustnot)), construct='getter:row:' + rname, sites=sorted(got))

    # ---- R10.2 apply_timeout decision table --------------------------------------------------------------
    at = r.TIMEOUT_WRAPPER
    if at is None:
        raise Undecided('apply_timeout body not found')
    ctx.saw(at)
    aan = prog.an(at)
    # which captured variable is which is told by its type, not by its name
    rt_names = at.upvars_where(lambda ty: ty.startswith('std::option::Option<') and ty.endswith('Runtime>'))
    du_names = at.upvars_of_type('std::option::Option<std::time::Duration>')
    fu_names = at.upvars_where(lambda ty: ty.startswith('impl '))
    tt_names = at.upvars_where(lambda ty: ty.endswith('::TimeoutType'))
    def at_role(src):
        ups = {x[1].split('.')[0] for x in src if x[0] == 'upvar'}
        if ups and ups <= rt_names:
            return 'runtime'
        if ups and ups <= du_names:
            return 'duration'
        return None
    n_dec = len([blk for blk in at.blocks if blk.term.kind == 'switch' and blk.term.j.get('adt') == 'std::option::Option' and 'on' in blk.term.j and
                 at_role(sources(aan, Operand({'c': blk.term.j['on']}))) is not None])
    if len(rt_names) != 1 or len(du_names) != 1 or n_dec < 2:
        ctx.undecide('R10.2', 'apply_timeout: the decisions on (runtime, duration) were not found (runtime %s, duration %s, switches on them %d)' % (sorted(rt_names), sorted(du_names), n_dec))
    else:
        table = {}
        row_blocks = {}
        for rt in ('None', 'Some'):
            for du in ('None', 'Some'):
                blocks = explore(aan, origin_decider(aan, at_role, {'runtime': rt, 'duration': du}))
                row_blocks[(rt, du)] = blocks
                table[(rt, du)] = events_in(aan, blocks, at)
        exp = {
            ('None', 'None'): ({'await-future'}, {'Runtime::timeout', 'err:NoRuntimeSpecified', 'err:Timeout'}),
            ('Some', 'None'): ({'await-future'}, {'Runtime::timeout', 'err:NoRuntimeSpecified', 'err:Timeout'}),
            ('Some', 'Some'): ({'Runtime::timeout', 'err:Timeout'}, {'err:NoRuntimeSpecified'}),
            ('None', 'Some'): ({'err:NoRuntimeSpecified'}, {'await-future', 'Runtime::timeout', 'yield', 'err:Timeout'}),
        }
        for key, (must, mustnot) in exp.items():
            got = table[key]
            ok = must <= got and not (mustnot & got)
            ctx.ob('R10.2', 'apply_timeout row (runtime %s, duration %s)' % key, ok, ctx.where(at), 'events %s; required %s; forbidden %s' % (sorted(got), sorted(must), sorted(mustnot)),
                   construct='apply_timeout:row:%s:%s' % key, sites=sorted(got))
        # the awaited future's own error is passed on (`map_err(Into::into)`), never discarded: a closed pool must surface as
        # Closed, a failing create as Backend, not as a timeout
        oks = [(blk.term.line, sorted(blk.term.callee_names())[0]) for blk in at.blocks if blk.term.kind == 'call' and not blk.cleanup and
               (blk.term.callee_names() & {'std::result::Result::ok', 'std::result::Result::unwrap_or', 'std::result::Result::unwrap_or_default', 'std::result::Result::unwrap_or_else'}
                or any(a.kind == 'const' and a.const.get('fn') and strip_generics(a.const['fn']) in ('std::result::Result::ok',) for a in blk.term.args))]
        # a conversion site: `map_err(Into::into)` on the awaited result, or `Err(e) => Err(e.into())` spelled out
        intos = [blk for blk in at.blocks if blk.term.kind == 'call' and not blk.cleanup and 'std::result::Result::map_err' in blk.term.callee_names() and
                 any(a.kind == 'const' and a.const.get('fn') and strip_generics(a.const['fn']).endswith('Into::into') for a in blk.term.args)]
        for blk in at.blocks:
            t = blk.term
            if t.kind == 'call' and not blk.cleanup and any(strip_generics(n).endswith('Into>::into') or strip_generics(n).endswith('Into::into') or re.search(r'Into<.*>>::into$', n) for n in t.callee_names()) and t.dest is not None and t.dest.is_local():
                feeds_err = any(st.kind == 'assign' and st.rv.kind == 'agg' and st.rv.j.get('adt') == 'std::result::Result' and st.rv.j.get('variant') == 'Err' and
                                any(o.kind != 'const' and not o.place.proj and o.place.local == t.dest.local for o in st.rv.ops) for b2 in at.blocks for st in b2.stmts)
                if feeds_err:
                    intos.append(blk)
        missing = [k for k in (('None', 'None'), ('Some', 'None'), ('Some', 'Some')) if not any(x.idx in row_blocks[k] for x in intos)]
        ctx.ob('R10.2', 'the error of the awaited future is propagated, not swallowed by the timeout wrapper', not oks and not missing, ctx.where(at),
               'error-discarding calls %s; rows that await the future without converting its error: %s' % (oks, missing), construct='apply_timeout:inner-error')
        # Timeout carries the timeout_type argument
        tts = [aan.resolve_operand(s.rv.ops[0]) for blk in at.blocks for s in blk.stmts if s.kind == 'assign' and s.rv.kind == 'agg' and s.rv.j.get('adt') == POOLERR and s.rv.j['variant'] == 'Timeout']
        ctx.ob('R10.2', 'Timeout carries the type passed by the caller', len(tts) == 1 and tts[0] in tt_names, ctx.where(at), str(tts), construct='apply_timeout:timeout-type')
        # Runtime::timeout receives the duration and the future
        for blk in at.blocks:
            if blk.term.kind == 'call' and 'deadpool_runtime::Runtime::timeout' in blk.term.callee_names() and not blk.cleanup:
                s1 = sources(aan, blk.term.args[1]); s2 = sources(aan, blk.term.args[2])
                ok = any(x[0] == 'upvar' and x[1].split('.')[0] in du_names for x in s1) and any(x[0] == 'upvar' and x[1].split('.')[0] in fu_names for x in s2)
                ctx.ob('R10.2', 'Runtime::timeout gets the given duration and future', ok, ctx.where(at, blk.term.line), '', construct='apply_timeout:timeout-args')

    # ---- R10.3 call sites ---------------------------------------------------------------------------------------
    want = {'Wait': ('wait', 'tokio::sync::Semaphore::acquire'), 'Create': ('create', MANAGER_CREATE), 'Recycle': ('recycle', MANAGER_RECYCLE)}
    seen_tt = {}
    for p in r.GETTER:
        b = prog.bodies[p]
        ban = prog.an(b)
        for blk in b.blocks:
            if blk.term.kind == 'call' and not blk.cleanup and blk.term.rcallee and strip_generics(blk.term.rcallee) == r.TIMEOUT_WRAPPER_FN:
                srcs = [sources(ban, x) for x in blk.term.args]
                tt = sorted(s[1].split('::')[-1] for s in srcs[1] if s[0] == 'agg' and s[1].startswith(TT))
                dur = sorted(s[1] for s in srcs[2] if s[0] in ('field', 'upvar'))
                rt = sorted(s[1] for s in srcs[0] if s[0] in ('field', 'upvar'))
                wrapped = sorted(s[1] for s in srcs[3] if s[0] in ('call', 'closure'))
                key = tt[0] if len(tt) == 1 else str(tt)
                seen_tt[key] = seen_tt.get(key, 0) + 1
                if key in want:
                    fld, inner_call = want[key]
                    # the duration: field `fld` of the per-call &Timeouts of this get() - followed through async helpers' parameters
                    dsrc = sources_across(prog, b, blk.term.args[2], deep=True)
                    root_tm = r.TIMEOUT_GET.upvars_where(lambda ty: ty.startswith('&') and ty.endswith('config::Timeouts'))
                    okd = any(x[0] == 'field' and x[1] == '%s.%s' % (TIMEOUTS, fld) for x in dsrc) and \
                        any(x[0] == 'upvar' and x[2] == r.TIMEOUT_GET.path and x[1].split('.')[0] in root_tm for x in dsrc) and \
                        not any(x[0] == 'field' and x[1].endswith('PoolConfig.timeouts') for x in dsrc)
                    dur = sorted({str(x[1]) for x in dsrc if x[0] in ('field', 'upvar')})
                    okr = any(x == '%s.%s' % (r.INNER, r.RUNTIME_FIELD) for x in rt)
                    if key == 'Wait':
                        cl = [c for c in wrapped if c in prog.bodies]
                        okw = any(calls_named(prog.bodies[c], [inner_call]) for c in cl)
                    else:
                        okw = inner_call in wrapped
                    ctx.ob('R10.3', 'TimeoutType::%s is paired with the per-call timeouts.%s, the pool runtime and %s' % (key, fld, inner_call.split('::')[-1]), okd and okr and okw,
                           ctx.where(b, blk.term.line), 'duration from %s, runtime from %s, wraps %s' % (dur, rt, wrapped), construct='apply_timeout-site:' + key, sites=dur + rt)
                else:
                    ctx.ob('R10.3', 'apply_timeout is called with a TimeoutType constant', False, ctx.where(b, blk.term.line), str(tt), construct='apply_timeout-site:unknown')
    # the helpers of the getter receive the per-call timeouts of this very call (not the pool-level ones)
    tref = lambda ty: ty.lstrip('&').replace("'_ ", '').strip() == TIMEOUTS or ty.endswith('config::Timeouts') and ty.startswith('&')
    own_names = top.upvars_where(lambda ty: ty.startswith('&') and ty.endswith('config::Timeouts'))
    tana = prog.an(top)
    n_hand = 0
    for blk in top.blocks:
        cb_ = prog.bodies.get(blk.term.rcallee) if blk.term.kind == 'call' and not blk.cleanup and blk.term.rcallee else None
        if cb_ is None or not cb_.path.startswith('deadpool::managed'):
            continue
        for i_, a_ in enumerate(blk.term.args):
            if i_ + 1 < len(cb_.locals) and i_ < cb_.arg_count and cb_.locals[i_ + 1]['ty'].startswith('&') and cb_.locals[i_ + 1]['ty'].endswith('config::Timeouts'):
                n_hand += 1
                src = sources(tana, a_, deep=True)
                okh = any(x[0] == 'upvar' and x[1].split('.')[0] in own_names for x in src) and not any(x[0] == 'field' and x[1].endswith('PoolConfig.timeouts') for x in src)
                ctx.ob('R10.3', '%s receives the per-call timeouts of this call' % cb_.name.split('::')[-1], okh, ctx.where(top, blk.term.line),
                       'argument from %s' % sorted({str(x[1]) for x in src if x[0] in ('upvar', 'field')}), construct='per-call-timeouts:' + cb_.name.split('::')[-1])
    ctx.count('helpers_taking_timeouts', n_hand)     # 0 when the helpers take the single durations (then the pairing rule above follows them)
    direct_timer = any(blk.term.kind == 'call' and not blk.cleanup and 'deadpool_runtime::Runtime::timeout' in blk.term.callee_names() for blk in top.blocks)
    if seen_tt == {'Create': 1, 'Recycle': 1} and direct_timer:
        # the slot wait is written out in the getter (its own `runtime.timeout(wait, acquire())`) instead of going through the
        # wrapper: the wait row of the table is then not the wrapper's - not followed (R10.1 says the same), no alarm
        ctx.undecide('R10.3', 'the slot wait sets its timer in the getter itself, not through the timeout wrapper: the Wait row is not decided')
    else:
        ctx.ob('R10.3', 'exactly one apply_timeout site per timeout kind', seen_tt == {'Wait': 1, 'Create': 1, 'Recycle': 1}, '', str(seen_tt), construct='apply_timeout-sites')

    # ---- R10.6 error discipline ------------------------------------------------------------------------------------
    COLLAPSE = {'std::result::Result::is_err', 'std::result::Result::is_ok', 'std::result::Result::ok', 'std::result::Result::err', 'std::result::Result::unwrap_or',
                'std::result::Result::unwrap_or_default', 'std::result::Result::unwrap_or_else', 'std::mem::drop', 'std::result::Result::unwrap', 'std::result::Result::expect'}
    atp = at.path
    # async helpers that hand the wrapper's result on unchanged carry it: their callers are held to the same rule
    carriers = {atp}
    grew = True
    while grew:
        grew = False
        for p in r.GETTER:
            b = prog.bodies[p]
            if p in carriers or not b.is_coroutine:
                continue
            ban = prog.an(b)
            for blk in b.blocks:
                if blk.term.kind == 'call' and not blk.cleanup and blk.term.rcallee in carriers:
                    rets = [s for x in b.blocks if not x.cleanup for s in x.stmts if s.kind == 'assign' and s.place.local == 0 and not s.place.proj]
                    if rets and all(s.rv.kind == 'use' and any(y[0] == 'call' and y[2] == blk.idx for y in sources(ban, s.rv.ops[0])) for s in rets):
                        carriers.add(p); grew = True
    for p in r.GETTER:
        b = prog.bodies[p]
        ban = prog.an(b)
        polls = [blk for blk in b.blocks if blk.term.kind == 'call' and not blk.cleanup and blk.term.rcallee in carriers]
        for pl in polls:
            if p in carriers:
                continue
            role = 'recycler' if manager_calls(b, MANAGER_RECYCLE) else ('creator' if manager_calls(b, MANAGER_CREATE) else 'getter')
            consumers = []
            for blk in b.blocks:
                if blk.cleanup:
                    continue
                t = blk.term
                if t.kind == 'call' and t.args and blk.idx != pl.idx:
                    if any(s[0] == 'call' and s[2] == pl.idx for s in sources(ban, t.args[0])):
                        nm = sorted(t.callee_names())
                        consumers.append((blk, nm))
            propagated = any(any(n_.endswith('Try::branch') for n_ in nm) for blk, nm in consumers)
            collapsed = [(blk, nm) for blk, nm in consumers if set(nm) & COLLAPSE]
            matched = False
            for blk in b.blocks:
                t = blk.term
                if t.kind == 'switch' and t.j.get('adt') == POOLERR and 'on' in t.j:
                    if any(s[0] == 'call' and s[2] == pl.idx for s in sources(ban, Operand({'c': t.j['on']}))):
                        arms = dict(t.switch_arms())
                        if 'NoRuntimeSpecified' in arms:
                            reach = ban.reach([arms['NoRuntimeSpecified']], ('normal',), avoid=[x for l2, x in arms.items() if l2 != 'NoRuntimeSpecified'])
                            for bb2, cls, det in ban.ret_assignments():
                                if bb2 in reach and cls == 'err':
                                    st = [s for s in b.blocks[bb2].stmts if s.kind == 'assign' and s.place.local == 0]
                                    if st and 'NoRuntimeSpecified' in ban.resolve_operand(st[-1].rv.ops[0]):
                                        matched = True
            ok = (propagated or matched) and not collapsed
            ctx.ob('R10.6', 'NoRuntimeSpecified from apply_timeout reaches the caller', ok, ctx.where(b, pl.term.line),
                   'the result of apply_timeout is collapsed by %s: a per-call timeout without runtime silently rejects objects instead of reporting NoRuntimeSpecified' % [n_ for _, nm in collapsed for n_ in nm]
                   if not ok else ('propagated with ?' if propagated else 'matched'), construct='apply_timeout-result-collapsed:' + role, sites=[ctx.where(b, pl.term.line)])

    # ---- R10.9 a recycle timeout (or any recycle failure other than the usage error) counts as a rejected object ----------
    recs = [prog.bodies[p_] for p_ in r.GETTER if manager_calls(prog.bodies[p_], MANAGER_RECYCLE)]
    for rec in recs:
        ran = prog.an(rec)
        made = sorted({s.rv.j['variant'] for blk in rec.blocks if not blk.cleanup for s in blk.stmts if s.kind == 'assign' and s.rv.kind == 'agg' and s.rv.j.get('adt') == POOLERR})
        resid = [bb for bb, cls, det in ran.ret_assignments() if cls == 'residual']
        ctx.ob('R10.9', 'the recycler returns no error except NoRuntimeSpecified (a recycle timeout rejects the object and get() moves on)', set(made) <= {'NoRuntimeSpecified'} and not resid,
               ctx.where(rec), 'recycler constructs %s, `?` propagations %d' % (made, len(resid)), construct='recycler-error-surface', sites=made)

    build_runtime_check(ctx, r, 'R10.5')
    # ---- R10.10 configuration plumbing: the pool-level timeouts are the ones that were set ---------------------------------
    builder_plumbing(ctx, 'R10.10', ['timeouts', 'wait_timeout', 'create_timeout', 'recycle_timeout', 'config', 'runtime'])
    pool_level_timeouts(ctx, r, 'R10.10')

    unmanaged_timeout_table(ctx, 'R10.7')

    # ---- R10.8 deadpool-runtime ----------------------------------------------------------------------------------------------
    rt = prog.body('deadpool_runtime::Runtime::timeout::{closure#0}')
    rtc = prog.crates.get('deadpool_runtime')
    if rtc is not None and 'tokio_1' not in rtc.features:
        ctx.undecide('R10.8', 'deadpool-runtime was compiled without the tokio_1 feature in this configuration (no Tokio1 arm to analyse)')
    elif rt is None:
        ctx.undecide('R10.8', 'deadpool_runtime::Runtime::timeout not extracted')
    else:
        ctx.saw(rt)
        ran = prog.an(rt)
        sw = [blk for blk in rt.blocks if blk.term.kind == 'switch' and blk.term.j.get('adt') == 'deadpool_runtime::Runtime']
        calls = [blk for blk in rt.blocks if blk.term.kind == 'call' and not blk.cleanup and 'tokio::time::timeout' in blk.term.callee_names()]
        ok = len(calls) == 1
        if ok:
            c = calls[0]
            s0 = sources(ran, c.term.args[0]); s1 = sources(ran, c.term.args[1])
            ok = any(x[0] == 'upvar' and x[1].split('.')[0] in rt.upvars_of_type('std::time::Duration') for x in s0) and \
                any(x[0] == 'upvar' and x[1].split('.')[0] in rt.upvars_where(lambda ty: ty.isidentifier() or ty.startswith('impl ')) for x in s1)
        ctx.ob('R10.8', 'Tokio1: Runtime::timeout calls tokio::time::timeout(duration, future)', ok, ctx.where(rt), '', construct='runtime:tokio-timeout')
        oks = [blk for blk in rt.blocks if blk.term.kind == 'call' and not blk.cleanup and 'std::result::Result::ok' in blk.term.callee_names()]
        ok8 = len(oks) == 1 and bool(calls) and ran.dominates(calls[0].idx, oks[0].idx) if oks else False
        if not oks:
            # the same mapping written as a match: Ok(v) => Some(v), Err(_) => None
            for sw_, okr, err in result_matches(ran, lambda n: n == 'tokio::time::timeout'):
                def made(region):
                    return sorted(s.rv.j['variant'] for x in region for s in rt.blocks[x].stmts if s.kind == 'assign' and s.rv.kind == 'agg' and s.rv.j.get('adt') == 'std::option::Option')
                some_from_ok = any(s.kind == 'assign' and s.rv.kind == 'agg' and s.rv.j.get('adt') == 'std::option::Option' and s.rv.j['variant'] == 'Some' and
                                   any(y[0] == 'call' and y[1] == 'tokio::time::timeout' for y in sources(ran, s.rv.ops[0], deep=True)) for x in okr for s in rt.blocks[x].stmts)
                ok8 = made(okr) == ['Some'] and made(err) == ['None'] and some_from_ok and bool(calls) and ran.dominates(calls[0].idx, sw_.idx)
        ctx.ob('R10.8', 'Elapsed maps to None, completion to Some (Result::ok)', ok8, ctx.where(rt), '', construct='runtime:elapsed-none')

    ctx.not_decided += ['every ordering of "deadline passes" against "slot freed / create finishes / recycle finishes" on a virtual clock: that is the behaviour of tokio::time::timeout and the tokio semaphore',
                        'the async-std arm of deadpool-runtime (does not build on the analysis toolchain)']
    ctx.assumptions += ['tokio::time::timeout semantics', 'Duration::as_nanos() == 0 iff the duration is zero']

"""C11 - status() is exact at rest and never nonsensical."""
from .mcommon import *
from .roles import classify_write, adt_of
from .facts import strip_generics, Operand, Place
from .analysis import sources

TECHNIQUE = 'field-write / atomic-update inventory with pairing table, governing-comparison analysis of the subtractions in status(), lock-region check of the reads, def-use origin of the Status fields'
LEVEL_TEXT = 'static analysis of status() and of every site that changes size / users / max_size'
EXPLANATION = ('Decided: status() reads size, max_size and users while the slots guard is live and builds Status from exactly those '
               'reads; each of its two subtractions is governed by the comparison that makes it non-negative; users has one +1 (getter entry) '
               'and three -1 sites (guard closure, return helper, take helper), the guard being disarmed only where the Object is built; size '
               'has one +1 and a fixed set of -1 / -len sites each dominated by evidence of holding a counted object; max_size is written only '
               'by resize and the constructor.')


def atomic_updates(prog, r, owner, field, extra_body=None):
    out = []
    for b in managed_bodies(prog):
        an = prog.an(b)
        for blk in b.blocks:
            t = blk.term
            if t.kind != 'call' or blk.cleanup:
                continue
            for n in t.callee_names():
                if n.startswith('std::sync::atomic::Atomic') and n.split('::')[-1] in ('fetch_add', 'fetch_sub', 'store', 'swap', 'fetch_update', 'compare_exchange'):
                    if t.args and ('field', '%s.%s' % (owner, field)) in sources(an, t.args[0]):
                        out.append((b, blk, n.split('::')[-1], an.resolve_operand(t.args[1]) if len(t.args) > 1 else ''))
                    elif t.args and extra_body is not None and b.path == extra_body:
                        out.append((b, blk, n.split('::')[-1], an.resolve_operand(t.args[1]) if len(t.args) > 1 else ''))
                    break
    return out


def retain_per_object(r, b, ban, bb):
    """a `size -= 1` inside the walk of retain(), behind the removal of one idle object in the same iteration: the per-object
    form of `size -= removed.len()`"""
    if b.path != r.RETAIN.path or not in_cycle(ban, bb):
        return False
    rms = [x.idx for x, m in queue_calls(r, b, ban) if m == 'remove' and in_cycle(ban, x.idx)]
    return any(ban.dominates(x, bb) for x in rms)


def size_inventory(ctx, r, rule):
    """where the size counter is written, with what: one +1 (creator) and one decrement per way an object leaves"""
    prog = ctx.prog
    # size inventory
    sz = []
    for b in managed_bodies(prog):
        ban = prog.an(b)
        for bb, i, s in r.field_writes(b, r.SLOTS, r.SIZE):
            if b.blocks[bb].cleanup:
                continue
            sz.append((b, bb, s, classify_write(ban, s)))
    got = sorted({(b.name, op, 'len' if 'len' in v or (op == '-=' and v == '1_usize' and retain_per_object(r, b, prog.an(b), bb)) else v) for b, bb, s, (op, v) in sz})
    # several sites in one function are fine as long as no path executes two of them
    for b in {x[0].path: x[0] for x in sz}.values():
        ban = prog.an(b)
        mine = [bb for b2, bb, s, w in sz if b2.path == b.path and w[0] == '-=']
        twice = [(x, y) for x in mine for y in mine if x != y and y in ban.reach_after(x, ('normal',))] + [x for x in mine if in_cycle(ban, x) and b.path not in (r.RESIZE.path, r.CLOSE.path) and not retain_per_object(r, b, ban, x)]
        ctx.ob(rule, 'no path decrements size twice', not twice, ctx.where(b), str(twice), construct='size-dec-twice:' + b.name)
    cres = [prog.bodies[p].name for p in r.GETTER if manager_calls(prog.bodies[p], MANAGER_CREATE)]
    exp = sorted([(cres[0], '+=', '1_usize')] if cres else []) + []
    exp = sorted(exp + [(r.UNREADY_DROP.name, '-=', '1_usize'), (r.RESIZE.name, '-=', '1_usize'), (r.CLOSE.name, '-=', '1_usize'), (r.RETAIN.name, '-=', 'len')] +
                 [(h.name, '-=', '1_usize') for h in r.RETURN + r.TAKE if h.path not in (r.OBJ_DROP.path, r.OBJ_TAKE.path)])
    ctx.ob(rule, 'size: one +1 (creator) and one decrement per way an object leaves', got == exp, '', 'found %s, expected %s' % (got, exp),
           construct='size-inventory', sites=[str(t_) for t_ in got])
    return sz


def run(ctx):
    r = roles(ctx)
    prog = ctx.prog
    st = r.STATUS
    ctx.saw(st)
    an = prog.an(st)

    # ---- R11.1 reads under the lock, subtractions guarded ----------------------------------
    gl = [i for i, l in enumerate(st.locals) if l['ty'].startswith('std::sync::MutexGuard<')]
    loads = [blk for blk in st.blocks if blk.term.kind == 'call' and any(n.endswith('::load') and 'atomic' in n for n in blk.term.callee_names()) and not blk.cleanup]
    ctx.ob('R11.1', 'status() loads users once', len(loads) == 1 and ('field', '%s.%s' % (r.INNER, r.USERS)) in sources(an, loads[0].term.args[0]) if loads else False,
           ctx.where(st), '%d atomic loads' % len(loads), construct='status:users-load')
    for ld in loads:
        stt = an.state_at_term(ld.idx)
        held = stt is not None and any((stt[0] >> g) & 1 for g in gl)
        ctx.ob('R11.1', 'users loaded while the slots lock is held', held, ctx.where(st, ld.term.line),
               'size and users are read at different times: available/waiting can be computed from an inconsistent pair' if not held else '', construct='status:load-under-lock')
    aggs = [(blk, s) for blk in st.blocks for s in blk.stmts if s.kind == 'assign' and s.rv.kind == 'agg' and s.rv.j.get('adt') == 'deadpool::Status']
    ctx.ob('R11.1', 'Status is built once', len(aggs) == 1, ctx.where(st), '', construct='status:agg')
    # differences: `a - b` (must be governed by a >= b) or `a.saturating_sub(b)` (cannot wrap by construction)
    SAT = 'core::num::saturating_sub'
    subs = []
    diffs = []      # (bb, lhs operand, rhs operand, kind)
    for blk in st.blocks:
        if blk.cleanup:
            continue
        for s in blk.stmts:
            if s.kind == 'assign' and s.rv.kind == 'bin' and s.rv.binop.startswith('Sub'):
                subs.append((blk, s))
                diffs.append((blk.idx, s.rv.ops[0], s.rv.ops[1], 'sub'))
        if blk.term.kind == 'call' and blk.term.callee_names() & {SAT, 'core::num::abs_diff'} and len(blk.term.args) == 2:
            diffs.append((blk.idx, blk.term.args[0], blk.term.args[1], 'saturating'))
    ctx.floor('R11.1', 'differences in status()', len(diffs), 1)
    for blk, s in subs:
        a, b_ = s.rv.ops
        conds = governing_conditions(an, blk.idx)
        ok = False
        sa = an.resolve_operand(a); sb = an.resolve_operand(b_)
        for op, lhs, rhs, swbb in conds:
            sl = an.resolve_operand(lhs); sr = an.resolve_operand(rhs)
            if (sl, sr) == (sa, sb) and op in ('Ge', 'Gt'):
                ok = True
            if (sl, sr) == (sb, sa) and op in ('Le', 'Lt'):
                ok = True
        ctx.ob('R11.1', 'subtraction cannot wrap', ok, ctx.where(st, s.line),
               '`%s - %s` is not governed by a comparison that makes it non-negative (conditions: %s)' % (sa, sb, [(c[0], an.resolve_operand(c[1]), an.resolve_operand(c[2])) for c in conds]) if not ok else '',
               construct='status:sub-guard', sites=['%s - %s' % (sa, sb)])

    # ---- R11.4 Status built from exactly those reads -------------------------------------------
    if len(aggs) == 1:
        blk, s = aggs[0]
        f = dict(zip(s.rv.j['fields'], s.rv.ops))
        def fsrc(name):
            return {x[1] for x in sources(an, f[name]) if x[0] == 'field' and not x[1].startswith(r.INNER + '.' + r.SLOTS_FIELD) and not x[1].startswith(r.POOL + '.')}
        ctx.ob('R11.4', 'Status.size is the size counter', fsrc('size') == {'%s.%s' % (r.SLOTS, r.SIZE)}, ctx.where(st, s.line), str(fsrc('size')), construct='status:size')
        ctx.ob('R11.4', 'Status.max_size is the configured limit', fsrc('max_size') == {'%s.%s' % (r.SLOTS, r.MAX)}, ctx.where(st, s.line), str(fsrc('max_size')), construct='status:max')
        for nm in ('available', 'waiting'):
            srcs = sources(an, f[nm], extra_through=(SAT, 'core::num::abs_diff'))
            fields = {x[1] for x in srcs if x[0] == 'field'}
            loads_ = {x[1] for x in srcs if x[0] == 'call'}
            consts = {x[1] for x in srcs if x[0] == 'const'}
            ok = fields <= {'%s.%s' % (r.SLOTS, r.SIZE), '%s.%s' % (r.INNER, r.USERS)} and '%s.%s' % (r.SLOTS, r.SIZE) in fields and \
                any(l.endswith('::load') for l in loads_) and consts <= {'0_usize'} | {c for c in consts if 'Ordering' in c or 'Relaxed' in c}
            ctx.ob('R11.4', 'Status.%s is derived from size and users only' % nm, ok, ctx.where(st, s.line), 'fields %s calls %s consts %s' % (sorted(fields), sorted(loads_), sorted(consts)),
                   construct='status:' + nm)
        # which quantity, with which sign, reaches available / waiting: sign-domain evaluation of status() for users < size,
        # users == size, users > size (dprules/signeval.py) - whatever the arithmetic is written with (if/else and `-`,
        # saturating_sub, abs_diff, min / max ..)
        from . import signeval
        def classify_field(p):
            lf = p.last_field()
            if lf == (r.SLOTS, r.SIZE):
                return ('in', 'size')
            if lf == (r.SLOTS, r.MAX):
                return ('in', 'max_size')
            return None
        sign_now = [0]
        def classify_call(t, env):
            names = t.callee_names()
            if any(n.endswith('::load') and 'atomic' in n for n in names):
                return ('in', 'users')
            vals = []
            for a_ in t.args:
                if a_.kind == 'const':
                    try:
                        vals.append(('c', int(str(a_.const.get('v', '')).split('_')[0])))
                    except ValueError:
                        vals.append(None)
                elif not a_.place.proj:
                    vals.append(env.get(a_.place.local))
                else:
                    vals.append(classify_field(a_.place))
            meth = sorted(names)[0].split('::')[-1] if names else ''
            def diff(x, y):
                if x == ('in', 'size') and y == ('in', 'users'):
                    return 1
                if x == ('in', 'users') and y == ('in', 'size'):
                    return -1
                return None
            if meth in ('saturating_sub', 'abs_diff', 'wrapping_sub', 'checked_sub') and len(vals) == 2 and diff(vals[0], vals[1]) is not None:
                k = diff(vals[0], vals[1])
                if meth == 'abs_diff':
                    return ('a', k) if sign_now[0] * k > 0 else (('a', -k) if sign_now[0] * k < 0 else ('c', 0))
                if meth == 'saturating_sub':
                    return ('a', k) if sign_now[0] * k > 0 else ('c', 0)
                return ('a', k)
            if meth in ('deref', 'deref_mut', 'lock', 'unwrap') or 'Ordering' in ''.join(names):
                return ('k', 'plumbing')
            return None
        want = {1: {'available': ('a', 1), 'waiting': ('c', 0)}, -1: {'available': ('c', 0), 'waiting': ('a', -1)}, 0: {'available': ('c', 0), 'waiting': ('c', 0)}}
        for sg in (1, -1, 0):
            sign_now[0] = sg
            label = {1: 'users < size', -1: 'users > size', 0: 'users == size'}[sg]
            ev_ = []
            try:
                out = signeval.run(st, an, sg, classify_call, classify_field, pair=('size', 'users'), events=ev_)
            except signeval.Unknown as e:
                ctx.undecide('R11.4', 'status(): cannot evaluate the case %s: %s' % (label, e)); continue
            if any(out.get(k) is None for k in ('available', 'waiting')):
                ctx.undecide('R11.4', 'status(): available / waiting computed in a way that is not understood (case %s)' % label); continue
            def same(v, w):
                if sg == 0 and v is not None and v[0] == 'a':
                    v = ('c', 0)
                return v == w
            okd = same(out.get('available'), want[sg]['available']) and same(out.get('waiting'), want[sg]['waiting'])
            ctx.ob('R11.4', 'status() with %s: available = size - users or 0, waiting = users - size or 0' % label, okd, ctx.where(st, s.line),
                   'got available %s, waiting %s (a = size - users)' % (out.get('available'), out.get('waiting')) if not okd else '', construct='status:diff:%d' % sg)
            ctx.ob('R11.1', 'no subtraction in status() can wrap (%s)' % label, not ev_, ctx.where(st, ev_[0][1]) if ev_ else ctx.where(st),
                   'a plain `-` is evaluated with a negative result in this case' if ev_ else '', construct='status:sub-guard:%d' % sg)

    # ---- R11.2 counter discipline -----------------------------------------------------------------
    _ug = r.users_guard()
    ups = atomic_updates(prog, r, r.INNER, r.USERS, extra_body=_ug[3][1] if _ug[3][0] == 'direct' else None)
    table = sorted((b.name, op, amt) for b, blk, op, amt in ups)
    for b, blk, op, amt in ups:
        ctx.saw(b)
    root = r.TIMEOUT_GET
    UG, ug_bb, ug_stmt, ug_how, ug_drop = r.users_guard()
    gname = prog.bodies[ug_how[1]].name
    exp = sorted([(root.name, 'fetch_add', '1_usize'), (gname, 'fetch_sub', '1_usize')] +
                 [(h.name, 'fetch_sub', '1_usize') for h in r.RETURN + r.TAKE if h.path not in (r.OBJ_DROP.path, r.OBJ_TAKE.path)])
    ctx.ob('R11.2', 'users: one +1 at getter entry, -1 in the guard closure, the return helper and the take helper', table == exp, '',
           'found %s, expected %s' % (table, exp), construct='users-inventory', sites=[str(t_) for t_ in table])
    for b, blk, op, amt in ups:
        if op == 'fetch_sub' and b.path in [h.path for h in r.RETURN + r.TAKE]:
            ban = prog.an(b)
            esc = ban.reach([0], ('normal',), avoid=[blk.idx])
            okp = not any(e in esc for e in ban.exits()['return'])
            ctx.ob('R11.2', 'the end of an Object decrements users on every path', okp, ctx.where(b, blk.term.line),
                   'users -= 1 is conditional: a returned / taken object can stay counted as a user forever' if not okp else '', construct='users-dec-conditional:' + b.name)
    users_guard_drop_unconditional(ctx, r, 'R11.2')
    sz = size_inventory(ctx, r, 'R11.2')
    # every decrement is dominated by evidence of holding a counted object
    for b, bb, s, (op, v) in sz:
        if op != '-=':
            continue
        ban = prog.an(b)
        ev = None
        if b.path in (h.path for h in r.RETURN):
            ev = any(rel[0] in ('size>max', 'size>=max') for rel in governing_relations(ban, r, bb)) and 'surplus branch (object in hand)'
            # the helper receives the object by value
            ev = ev and any(adt_of(t_) == r.OBJINNER for t_ in b.j.get('inputs', []))
        elif b.path in (h.path for h in r.TAKE):
            ev = not in_cycle(ban, bb) and 'called once per consumed Object'
        elif b.path == r.RETAIN.path:
            ev = ('len' in v and 'length of the vector of removed objects') or (retain_per_object(r, b, ban, bb) and 'behind the removal of one idle object, once per iteration')
        else:
            # Some arm of a pop / Option::take on the wrapper
            sws = [x for x in b.blocks if maybe_arms(r.crate, x.term) is not None]
            for x in sws:
                some, none = maybe_arms(r.crate, x.term)
                if some is not None and bb in ban.reach([some], ('normal',), avoid=[none] if none is not None else []) and \
                        (none is None or bb not in ban.reach([none], ('normal',), avoid=[some])):
                    ev = 'Some arm of a pop / take'
        ctx.ob('R11.2', 'size decrement only with a counted object in hand', bool(ev), ctx.where(b, s.line), ev or 'no evidence of an object being released', construct='size-dec-evidence:' + b.name)
        g = guard_root(ban, s.place)
        ctx.ob('R11.2', 'size changed under the slots lock', g is not None, ctx.where(b, s.line), '', construct='size-lock:' + b.name)
    # max_size writers
    mw = sorted({b.name for b in managed_bodies(prog) for bb, i, s in r.field_writes(b, r.SLOTS, r.MAX)})
    # close() may zero the limit (a closed pool reports max_size 0 whatever a concurrent resize did)
    cz = all(classify_write(prog.an(r.CLOSE), s) == ('=', '0_usize') for bb, i, s in r.field_writes(r.CLOSE, r.SLOTS, r.MAX))
    ctx.ob('R11.2', 'max_size written only by resize (and zeroed by close)', set(mw) <= {r.RESIZE.name, r.CLOSE.name} and r.RESIZE.name in mw and cz, '', str(mw), construct='max-writers')

    # ---- R11.5 "size exceeds max_size only as the residue of a shrink": the helpers withhold the permit exactly then ----
    from .rules_C07 import surplus_guard
    surplus_guard(ctx, r, 'R11.5', [x for x in r.RETURN + r.TAKE if x.path not in (r.OBJ_DROP.path, r.OBJ_TAKE.path)])

    # ---- R11.9 size and users return to their resting relation on every path (effect ledger) --------------------
    from .ledger_rules import ledger_obligations
    ledger_obligations(ctx, r, 'R11.9', (1, 2))

    ctx.not_decided += ['exactness "at every quiescent point of every history" as a numeric statement: decided is the pairing of every increment with exactly one decrement per path (with C01/C03/C09) and that no subtraction can wrap',
                        '"size exceeds max_size only as the residue of a shrink" fails as a consequence of known finding D1 (C07)']
    ctx.assumptions += ['Relaxed atomics on a single counter are coherent', 'std Mutex']

"""CFG analyses over dpa bodies: dominators, reachability, initialisation
dataflow, access-path resolution, exit classification, call graph."""
from .facts import Place, Operand, strip_generics

NORMAL = ('normal',)
ALL = ('normal', 'unwind', 'cancel')

TRANSPARENT = {
    '<std::sync::Arc<T, A> as std::ops::Deref>::deref',
    '<std::sync::MutexGuard<\'_, T> as std::ops::Deref>::deref',
    '<std::sync::MutexGuard<\'_, T> as std::ops::DerefMut>::deref_mut',
    'std::ops::Deref::deref', 'std::ops::DerefMut::deref_mut',
    'std::convert::AsRef::as_ref', 'std::convert::AsMut::as_mut',
    'std::option::Option::<T>::as_ref', 'std::option::Option::<T>::as_mut',
    'std::option::Option::<T>::as_deref', 'std::option::Option::<T>::as_deref_mut',
    'std::pin::Pin::<Ptr>::new_unchecked', 'std::pin::Pin::<Ptr>::new',
    'std::pin::Pin::<&\'a mut T>::get_mut', 'std::pin::Pin::<Ptr>::as_mut',
    'std::borrow::Borrow::borrow', 'std::borrow::BorrowMut::borrow_mut',
    'std::convert::Into::into', 'std::convert::From::from',
    'std::future::IntoFuture::into_future',
    '<F as std::future::IntoFuture>::into_future',
}


def short_fn(path):
    p = strip_generics(path)
    if p.startswith('<') and '>::' in p:
        # <T as Trait>::m  ->  Trait::m
        inner, meth = p.rsplit('>::', 1)
        if ' as ' in inner:
            tr = inner.split(' as ', 1)[1]
            return tr.split('::')[-1] + '::' + meth
        return meth
    parts = p.split('::')
    return '::'.join(parts[-2:]) if len(parts) >= 2 else p


class BodyAn:
    """analysis view of one Body"""

    def __init__(self, body):
        self.b = body
        self.n = len(body.blocks)
        self._succ = {}
        self._dom = {}
        self._defs = None
        self._fdefs = None
        self._uses = None
        self._init = None
        self._res_cache = {}

    # ------------------------------------------------------------------ CFG
    def succs(self, bb, kinds=ALL):
        key = (bb, kinds)
        r = self._succ.get(key)
        if r is None:
            t = self.b.blocks[bb].term
            r = []
            for k, tgt in t.succs():
                if k == 'cancel' and t.kind != 'yield':
                    continue  # async-drop edge of a Drop terminator: not a suspension point
                if k in kinds and tgt not in r:
                    r.append(tgt)
            self._succ[key] = r
        return r

    def edges(self, bb):
        """[(kind, target)] with the async-drop edges of Drop terminators removed"""
        t = self.b.blocks[bb].term
        return [(k, tgt) for k, tgt in t.succs() if not (k == 'cancel' and t.kind != 'yield')]

    def reach(self, srcs, kinds=ALL, avoid=(), include_srcs=True):
        """blocks reachable from srcs (following edges of `kinds`), never entering `avoid`"""
        avoid = set(avoid)
        seen = set()
        work = []
        for s in srcs:
            if include_srcs:
                if s not in avoid:
                    seen.add(s); work.append(s)
            else:
                for t in self.succs(s, kinds):
                    if t not in avoid and t not in seen:
                        seen.add(t); work.append(t)
        while work:
            x = work.pop()
            for t in self.succs(x, kinds):
                if t not in avoid and t not in seen:
                    seen.add(t); work.append(t)
        return seen

    def reach_after(self, bb, kinds=ALL, avoid=()):
        return self.reach([bb], kinds, avoid, include_srcs=False)

    def doms(self, kinds=NORMAL):
        """dict bb -> frozenset of dominators (blocks unreachable from entry map to None)"""
        d = self._dom.get(kinds)
        if d is not None:
            return d
        reachable = self.reach([0], kinds)
        order = sorted(reachable)
        preds = {x: [] for x in reachable}
        for x in reachable:
            for t in self.succs(x, kinds):
                if t in preds:
                    preds[t].append(x)
        full = frozenset(reachable)
        dom = {x: full for x in reachable}
        dom[0] = frozenset([0])
        changed = True
        while changed:
            changed = False
            for x in order:
                if x == 0:
                    continue
                ps = [dom[p] for p in preds[x]]
                if not ps:
                    continue
                new = frozenset.intersection(*ps) | {x}
                if new != dom[x]:
                    dom[x] = new; changed = True
        res = {x: dom.get(x) for x in range(self.n)}
        self._dom[kinds] = res
        return res

    def dominates(self, a, b, kinds=NORMAL):
        d = self.doms(kinds).get(b)
        return d is not None and a in d

    def exits(self):
        out = {'return': [], 'resume': [], 'cancel': [], 'other': []}
        for blk in self.b.blocks:
            k = blk.term.kind
            if k == 'return':
                out['return'].append(blk.idx)
            elif k == 'resume':
                out['resume'].append(blk.idx)
            elif k == 'coroutine_drop':
                out['cancel'].append(blk.idx)
        return out

    def must_pass(self, src_blocks, through, exit_blocks, kinds=ALL):
        """True iff every path from any src (after it) to any exit block passes a block in `through`.
        Returns (ok, witness_exit)"""
        r = set()
        for s in src_blocks:
            r |= self.reach_after(s, kinds, avoid=through)
        for e in exit_blocks:
            if e in r:
                return False, e
        return True, None

    def find_path(self, src, dst, kinds=ALL, avoid=()):
        """a shortest block path src -> dst avoiding `avoid` (for reports)"""
        from collections import deque
        avoid = set(avoid)
        prev = {src: None}
        q = deque([src])
        while q:
            x = q.popleft()
            if x == dst and x != src or (x == dst and prev[x] is not None):
                break
            for t in self.succs(x, kinds):
                if t not in prev and t not in avoid:
                    prev[t] = x
                    q.append(t)
        if dst not in prev:
            return None
        p = []
        x = dst
        while x is not None:
            p.append(x); x = prev[x]
        return list(reversed(p))

    def path_lines(self, path):
        if not path:
            return []
        out = []
        for bb in path:
            ln = self.b.blocks[bb].term.line
            if not out or out[-1] != ln:
                out.append(ln)
        return out

    # ----------------------------------------------------------- def / use
    def defs(self, local):
        if self._defs is None:
            d = {}
            for blk in self.b.blocks:
                for i, s in enumerate(blk.stmts):
                    if s.kind == 'assign' and s.place.is_local():
                        d.setdefault(s.place.local, []).append(('stmt', blk.idx, i, s))
                t = blk.term
                if t.kind == 'call' and t.dest is not None and t.dest.is_local():
                    d.setdefault(t.dest.local, []).append(('call', blk.idx, None, t))
                if t.kind == 'yield' and 'resume_arg' in t.j:
                    pass
            self._defs = d
        return self._defs.get(local, [])

    def field_defs(self, local):
        """{field selector: [assign statements `_local.sel = ..`]} for a local written field by field"""
        if self._fdefs is None:
            d = {}
            for blk in self.b.blocks:
                for s in blk.stmts:
                    if s.kind == 'assign' and len(s.place.proj) == 1 and s.place.proj[0].startswith('.'):
                        d.setdefault(s.place.local, {}).setdefault(s.place.proj[0][1:], []).append(s)
            self._fdefs = d
        return self._fdefs.get(local, {})

    def single_def(self, local):
        d = self.defs(local)
        return d[0] if len(d) == 1 else None

    def local_name(self, l):
        nm = self.b.local_names().get(l)
        if nm:
            return nm
        if 1 <= l <= self.b.arg_count:
            return 'arg%d' % l
        return None

    def resolve_place(self, place, depth=0):
        """human-readable access path of a place, looking through temporaries"""
        base = None
        proj = list(place.proj)
        # captured variables of closures / coroutines: _1.N or (*_1).N
        if place.local == 1 and self.b.kind == 'Closure':
            up = self.b.upvar_names()
            for k in range(len(proj), 0, -1):
                if tuple(proj[:k]) in up:
                    base = up[tuple(proj[:k])]
                    proj = proj[k:]
                    break
        if base is None:
            base = self.resolve_local(place.local, depth)
        s = base
        for p in proj:
            if p == '*' or p == 'as':
                continue
            s += p
        return s

    def resolve_local(self, l, depth=0):
        nm = self.local_name(l)
        if nm and not (self.b.kind == 'Closure' and l == 1):
            # a named local that merely re-binds another place (`let inner = self.inner.as_ref()`)
            # still resolves to its own name: names are what the source talks about
            return nm
        key = l
        if key in self._res_cache:
            return self._res_cache[key]
        if depth > 24:
            return '_%d' % l
        self._res_cache[key] = '_%d' % l  # cycle guard
        d = self.single_def(l)
        r = '_%d' % l
        if d is not None:
            if d[0] == 'stmt':
                rv = d[3].rv
                if rv.kind in ('use', 'cast', 'repeat'):
                    r = self.resolve_operand(rv.ops[0], depth + 1)
                elif rv.kind in ('ref', 'rawptr', 'copyderef'):
                    r = self.resolve_place(rv.place, depth + 1)
                elif rv.kind == 'discr':
                    r = 'discriminant(%s)' % self.resolve_place(rv.place, depth + 1)
                elif rv.kind == 'bin':
                    r = '%s(%s, %s)' % (rv.binop, self.resolve_operand(rv.ops[0], depth + 1), self.resolve_operand(rv.ops[1], depth + 1))
                elif rv.kind == 'un':
                    r = '%s(%s)' % (rv.binop, self.resolve_operand(rv.ops[0], depth + 1))
                elif rv.kind == 'agg':
                    ak = rv.j['ak']
                    if ak == 'adt':
                        r = '%s::%s{%s}' % (rv.j['adt'].split('::')[-1], rv.j['variant'],
                                           ', '.join(self.resolve_operand(o, depth + 1) for o in rv.ops))
                    elif ak in ('closure', 'coroutine', 'coroutine_closure'):
                        r = '%s<%s>' % (ak, rv.j['def'])
                    else:
                        r = '%s(%s)' % (ak, ', '.join(self.resolve_operand(o, depth + 1) for o in rv.ops))
            else:
                t = d[3]
                names = {t.func.const.get('fn'), t.func.const.get('rfn')} if t.func.kind == 'const' else set()
                if names & TRANSPARENT and t.args:
                    r = self.resolve_operand(t.args[0], depth + 1)
                else:
                    fn = t.rcallee or repr(t.func)
                    r = '%s(%s)' % (short_fn(fn), ', '.join(self.resolve_operand(a, depth + 1) for a in t.args))
        self._res_cache[key] = r
        return r

    def resolve_operand(self, op, depth=0):
        if op.kind == 'const':
            if op.const.get('fn'):
                return 'fn ' + strip_generics(op.const['fn'])
            return op.const['v']
        return self.resolve_place(op.place, depth)

    def origin(self, op, depth=0):
        """follow an operand back through plain moves/copies/refs to the defining
        statement or terminator: returns ('stmt'|'call', bb, idx, obj) or ('local', l) / ('const', const)"""
        if op.kind == 'const':
            return ('const', op.const)
        return self.origin_place(op.place, depth)

    def origin_place(self, place, depth=0):
        if depth > 24:
            return ('local', place.local, place.proj)
        if place.proj and not all(p in ('*', 'as') for p in place.proj):
            return ('place', place)
        if self.local_name(place.local) and not (self.b.kind == 'Closure' and place.local == 1):
            # named locals with a single def are still followed (let x = <expr>)
            pass
        d = self.single_def(place.local)
        if d is None:
            return ('local', place.local, ())
        if d[0] == 'stmt':
            rv = d[3].rv
            if rv.kind in ('use',):
                if rv.ops[0].kind == 'const':
                    return ('const', rv.ops[0].const)
                return self.origin_place(rv.ops[0].place, depth + 1)
            if rv.kind in ('ref', 'copyderef'):
                return self.origin_place(rv.place, depth + 1)
            return d
        return d

    # ------------------------------------------------------------- dataflow
    def init_flow(self):
        """forward must/may-initialised analysis for all locals.
        returns dict bb -> (must_in, may_in) as Python int bitsets"""
        if self._init is not None:
            return self._init
        nl = len(self.b.locals)
        allbits = (1 << nl) - 1
        args = 0
        for l in range(1, self.b.arg_count + 1):
            args |= 1 << l
        # closures/coroutines: _1 is the environment, _2 the resume arg
        must_in = {0: args}
        may_in = {0: args}
        # transfer
        def moved_locals_operand(op):
            # a move out of a (non-deref) projection takes the payload with it: the base no longer owns it
            if op.kind == 'move':
                p = op.place
                if '*' in p.proj:
                    return 0
                return 1 << p.local
            return 0

        def transfer(bb):
            blk = self.b.blocks[bb]
            mu = must_in[bb]; ma = may_in[bb]
            for s in blk.stmts:
                if s.kind == 'assign':
                    kill = 0
                    ma_before = ma
                    for op in s.rv.ops:
                        kill |= moved_locals_operand(op)
                    mu &= ~kill; ma &= ~kill
                    if s.place.is_local():
                        if s.rv.kind == 'agg' and s.rv.j.get('ak') == 'adt' and ((s.rv.j.get('variant') == 'None' and s.rv.j.get('adt') == 'std::option::Option') or
                                                                                   (s.rv.j.get('variant') == 'Ok' and s.rv.j.get('adt') == 'std::result::Result' and
                                                                                    self.b.locals[s.place.local]['ty'].startswith('std::result::Result<(), '))):
                            # an empty Option holds nothing (same refinement as the None arm of a switch)
                            mu &= ~(1 << s.place.local); ma &= ~(1 << s.place.local)
                        elif s.rv.kind == 'use' and s.rv.ops[0].kind == 'move' and not s.rv.ops[0].place.proj and not ((ma_before >> s.rv.ops[0].place.local) & 1) \
                                and self.b.locals[s.rv.ops[0].place.local]['ty'].startswith(('std::option::Option<', 'std::result::Result<(), ')):
                            # .. and so does a copy of it (`_r = None; _x = move _r`, the return slot of an inlined helper)
                            mu &= ~(1 << s.place.local); ma &= ~(1 << s.place.local)
                        else:
                            mu |= 1 << s.place.local; ma |= 1 << s.place.local
                elif s.kind == 'dead':
                    mu &= ~(1 << s.local); ma &= ~(1 << s.local)
            t = blk.term
            outs = {}
            if t.kind == 'call':
                kill = 0
                for a in t.args:
                    kill |= moved_locals_operand(a)
                kill |= moved_locals_operand(t.func)
                mu2 = mu & ~kill; ma2 = ma & ~kill
                for k, tgt in self.edges(bb):
                    if k == 'normal' and t.dest is not None and t.dest.is_local():
                        outs[(k, tgt)] = (mu2 | (1 << t.dest.local), ma2 | (1 << t.dest.local))
                    else:
                        outs[(k, tgt)] = (mu2, ma2)
            elif t.kind == 'drop':
                if t.place.is_local():
                    bit = 1 << t.place.local
                    mu &= ~bit; ma &= ~bit
                for k, tgt in self.edges(bb):
                    outs[(k, tgt)] = (mu, ma)
            elif t.kind == 'yield':
                kill = moved_locals_operand(Operand(t.j['value']))
                mu &= ~kill; ma &= ~kill
                for k, tgt in self.edges(bb):
                    outs[(k, tgt)] = (mu, ma)
            elif t.kind == 'switch' and 'on' in t.j and not t.j['on']['pr'] and t.j.get('adt') == 'std::result::Result' and \
                    self.b.locals[t.j['on']['l']]['ty'].startswith('std::result::Result<(), '):
                # on the Ok arm of a match on a whole `Result<(), T>` the local owns nothing (`Ok(())`)
                l = t.j['on']['l']
                for lab, tgt in t.switch_arms():
                    if lab == 'Ok':
                        outs[('normal', tgt)] = (mu & ~(1 << l), ma & ~(1 << l))
                    else:
                        outs.setdefault(('normal', tgt), (mu, ma))
            elif t.kind == 'switch' and 'on' in t.j and not t.j['on']['pr'] and t.j.get('adt') == 'std::option::Option':
                # on the None arm of a match on a whole local the local owns nothing
                l = t.j['on']['l']
                for lab, tgt in t.switch_arms():
                    if lab == 'None':
                        outs[('normal', tgt)] = (mu & ~(1 << l), ma & ~(1 << l))
                    else:
                        outs.setdefault(('normal', tgt), (mu, ma))
            else:
                for k, tgt in self.edges(bb):
                    outs[(k, tgt)] = (mu, ma)
            return outs

        work = [0]
        inq = {0}
        while work:
            bb = work.pop()
            inq.discard(bb)
            for (k, tgt), (mu, ma) in transfer(bb).items():
                if tgt not in must_in:
                    must_in[tgt] = mu; may_in[tgt] = ma
                    changed = True
                else:
                    nmu = must_in[tgt] & mu; nma = may_in[tgt] | ma
                    changed = (nmu != must_in[tgt]) or (nma != may_in[tgt])
                    must_in[tgt] = nmu; may_in[tgt] = nma
                if changed and tgt not in inq:
                    inq.add(tgt); work.append(tgt)
        self._init = {bb: (must_in[bb], may_in[bb]) for bb in must_in}
        return self._init

    def state_at_term(self, bb):
        """(must, may) bitsets just before the terminator of bb executes"""
        flow = self.init_flow()
        if bb not in flow:
            return None
        mu, ma = flow[bb]
        for s in self.b.blocks[bb].stmts:
            if s.kind == 'assign':
                kill = 0
                for op in s.rv.ops:
                    if op.kind == 'move' and '*' not in op.place.proj:
                        kill |= 1 << op.place.local
                ma_before = ma
                mu &= ~kill; ma &= ~kill
                if s.place.is_local():
                    empty = (s.rv.kind == 'agg' and s.rv.j.get('ak') == 'adt' and ((s.rv.j.get('variant') == 'None' and s.rv.j.get('adt') == 'std::option::Option') or
                                                                                     (s.rv.j.get('variant') == 'Ok' and s.rv.j.get('adt') == 'std::result::Result' and
                                                                                      self.b.locals[s.place.local]['ty'].startswith('std::result::Result<(), ')))) or \
                        (s.rv.kind == 'use' and s.rv.ops[0].kind == 'move' and not s.rv.ops[0].place.proj and not ((ma_before >> s.rv.ops[0].place.local) & 1)
                         and self.b.locals[s.rv.ops[0].place.local]['ty'].startswith(('std::option::Option<', 'std::result::Result<(), ')))
                    if empty:
                        mu &= ~(1 << s.place.local); ma &= ~(1 << s.place.local)
                    else:
                        mu |= 1 << s.place.local; ma |= 1 << s.place.local
            elif s.kind == 'dead':
                mu &= ~(1 << s.local); ma &= ~(1 << s.local)
        return mu, ma

    def locals_with_adt(self, adt, exact=False):
        out = []
        for i, l in enumerate(self.b.locals):
            if exact:
                if strip_generics(l['ty']).lstrip('&').replace('mut ', '') == adt:
                    out.append(i)
            elif adt in l['parts']['adts']:
                out.append(i)
        return out

    def locals_of_type(self, pred):
        return [i for i, l in enumerate(self.b.locals) if pred(l['ty'], l['parts'])]

    # --------------------------------------------------- return classification
    def ret_assignments(self):
        """[(bb, cls, detail)] for every assignment of the return place `_0`.
        cls: ok | err | residual | unit | other"""
        out = []
        # locals whose value is handed to `_0` by a plain move / copy carry the return value (`let r = ..; r`, and the
        # return slot of an inlined helper): their assignments are return assignments
        carriers = {0}
        grew = True
        while grew:
            grew = False
            for blk in self.b.blocks:
                if blk.cleanup:
                    continue
                for s in blk.stmts:
                    if s.kind == 'assign' and s.place.is_local() and s.place.local in carriers and s.rv.kind == 'use' and s.rv.ops[0].kind != 'const' \
                            and not s.rv.ops[0].place.proj and s.rv.ops[0].place.local not in carriers and s.rv.ops[0].place.local > self.b.arg_count:
                        carriers.add(s.rv.ops[0].place.local); grew = True
                    # the result of an await whose helper was inlined: `_p = Poll::Ready(_y)` at each return of the helper, then
                    # `_r = move (_p as Ready).0` - `_y` carries the value
                    if s.kind == 'assign' and s.place.is_local() and s.place.local in carriers and s.rv.kind == 'use' and s.rv.ops[0].kind != 'const' \
                            and tuple(s.rv.ops[0].place.proj) == ('@Ready', '.0'):
                        for d in self.defs(s.rv.ops[0].place.local):
                            if d[0] == 'stmt' and d[3].rv.kind == 'agg' and d[3].rv.j.get('adt') == 'std::task::Poll' and d[3].rv.j.get('variant') == 'Ready' and d[3].rv.ops and \
                                    d[3].rv.ops[0].kind != 'const' and not d[3].rv.ops[0].place.proj and d[3].rv.ops[0].place.local not in carriers:
                                carriers.add(d[3].rv.ops[0].place.local); grew = True
        for blk in self.b.blocks:
            if blk.cleanup:
                continue
            for i, s in enumerate(blk.stmts):
                if s.kind == 'assign' and s.place.local in carriers and s.place.is_local():
                    rv = s.rv
                    if rv.kind == 'use' and rv.ops[0].kind != 'const' and not rv.ops[0].place.proj and rv.ops[0].place.local in carriers:
                        continue        # forwarding between carriers
                    cls = 'other'; det = repr(rv)
                    if rv.kind == 'agg' and rv.j['ak'] == 'adt':
                        v = rv.j['variant']
                        if v in ('Ok', 'Some', 'Ready', 'Continue'):
                            cls = 'ok'
                        elif v in ('Err', 'None', 'Break'):
                            cls = 'err'
                        det = rv.j['adt'].split('::')[-1] + '::' + v
                    elif rv.kind == 'use' and rv.ops[0].kind == 'const' and rv.ops[0].const['v'] == '()':
                        cls = 'unit'
                    out.append((blk.idx, cls, det))
            t = blk.term
            if t.kind == 'call' and t.dest is not None and t.dest.local in carriers and t.dest.is_local():
                names = t.callee_names()
                if any(n.endswith('FromResidual::from_residual') or n.endswith('::from_residual') for n in names):
                    out.append((blk.idx, 'residual', 'from_residual'))
                else:
                    out.append((blk.idx, 'other', repr(t)))
        return out


class Prog:
    """all crates of one extraction + call graph"""

    def __init__(self, crates):
        self.crates = {c.name: c for c in crates}
        self.bodies = {}
        for c in crates:
            for b in c.bodies:
                self.bodies[b.path] = b
        self.by_name = {}
        for b in self.bodies.values():
            self.by_name.setdefault(b.name, []).append(b)
        self._an = {}
        self._cg = None

    def an(self, body):
        a = self._an.get(body.path)
        if a is None:
            a = BodyAn(body)
            self._an[body.path] = a
        return a

    def body(self, name):
        bs = self.by_name.get(name, [])
        return bs[0] if len(bs) == 1 else None

    def bodies_matching(self, pred):
        return [b for b in self.bodies.values() if pred(b)]

    def callgraph(self):
        """dict caller path -> list of (bb, callee path, kind) with callee a local body"""
        if self._cg is not None:
            return self._cg
        cg = {}
        for b in self.bodies.values():
            edges = []
            for blk in b.blocks:
                for s in blk.stmts:
                    if s.kind == 'assign':
                        rv = s.rv
                        if rv.kind == 'agg' and rv.j['ak'] in ('closure', 'coroutine', 'coroutine_closure'):
                            if rv.j['def'] in self.bodies:
                                edges.append((blk.idx, rv.j['def'], 'closure'))
                        for op in rv.ops:
                            if op.kind == 'const' and op.const.get('fn'):
                                for k in ('rfn', 'fn'):
                                    p = op.const.get(k)
                                    if p and p in self.bodies:
                                        edges.append((blk.idx, p, 'fnref')); break
                t = blk.term
                if t.kind == 'call':
                    if t.func.kind == 'const':
                        for k in ('rfn', 'fn'):
                            p = t.func.const.get(k)
                            if p and p in self.bodies:
                                edges.append((blk.idx, p, 'call')); break
                    for a in t.args:
                        if a.kind == 'const' and a.const.get('fn'):
                            for k in ('rfn', 'fn'):
                                p = a.const.get(k)
                                if p and p in self.bodies:
                                    edges.append((blk.idx, p, 'fnref')); break
            cg[b.path] = edges
        self._cg = cg
        return cg

    def region(self, roots):
        """transitive closure of local bodies reachable from roots (paths)"""
        cg = self.callgraph()
        seen = set()
        work = list(roots)
        while work:
            x = work.pop()
            if x in seen or x not in self.bodies:
                continue
            seen.add(x)
            for _, c, _ in cg.get(x, []):
                if c not in seen:
                    work.append(c)
        return seen

    def callers_of(self, path):
        cg = self.callgraph()
        out = []
        for caller, edges in cg.items():
            for bb, c, k in edges:
                if c == path:
                    out.append((caller, bb, k))
        return out


# ---------------------------------------------------------------------------
# data-flow origins (flow-insensitive def-use closure within one body)

FLOW_THROUGH = (
    'std::ops::Try::branch', 'std::convert::Into::into', 'std::convert::From::from',
    'std::ops::FromResidual::from_residual', 'std::result::Result::map_err', 'std::result::Result::map',
    'std::option::Option::map', 'std::option::Option::ok_or', 'std::result::Result::ok', 'std::option::Option::take',
    'std::option::Option::unwrap', 'std::result::Result::unwrap', 'std::option::Option::as_ref', 'std::option::Option::as_mut',
    'std::clone::Clone::clone', 'std::option::Option::as_deref', 'std::string::String::as_str',
    'std::ops::Deref::deref', 'std::ops::DerefMut::deref_mut', 'std::convert::AsRef::as_ref', 'std::future::IntoFuture::into_future',
    'std::pin::Pin::new_unchecked', 'std::borrow::ToOwned::to_owned', 'std::string::ToString::to_string',
    'std::option::Option::cloned', 'std::option::Option::copied', 'std::option::Option::unwrap_or_default',
    'std::option::Option::unwrap_or', 'std::result::Result::and_then', 'std::option::Option::and_then',
    'std::convert::TryInto::try_into', 'std::convert::TryFrom::try_from', 'std::sync::Mutex::new', 'std::sync::Arc::new',
    'std::option::Option::ok_or_else', 'std::result::Result::map_err',
)


def _flow_through(term, extra=()):
    for n in term.callee_names():
        if n in FLOW_THROUGH or n in extra:
            return True
        if n.startswith('<') and '>::' in n:
            # <T as Trait>::method  -> Trait::method
            inner, meth = n.rsplit('>::', 1)
            if ' as ' in inner:
                tr = inner.split(' as ', 1)[1]
                if (tr + '::' + meth) in FLOW_THROUGH or (tr + '::' + meth) in extra:
                    return True
    return False


def sources(an, op, extra_through=(), limit=400, deep=False):
    """terminal origins of the value in `op`, following every definition of every local on the way.
    returns a set of tuples: ('call', name, bb) | ('const', value) | ('arg', name) | ('field', 'owner.field') |
    ('agg', adt::variant, bb) | ('bin', op, bb) | ('upvar', name) | ('unknown', repr)"""
    out = set()
    seen = set()
    work = [op]
    up = an.b.upvar_names() if an.b.kind == 'Closure' else {}
    while work and len(seen) < limit:
        o = work.pop()
        if o.kind == 'const':
            out.add(('const', o.const.get('fn') or o.const['v']))
            continue
        if o.kind == 'other':
            out.add(('unknown', repr(o))); continue
        p = o.place
        # reading a field of something: record the outermost owner.field that is an ADT field
        if p.local == 1 and an.b.kind == 'Closure' and p.proj:
            nm = None
            for k in range(len(p.proj), 0, -1):
                if tuple(p.proj[:k]) in up:
                    nm = up[tuple(p.proj[:k])]; rest = p.proj[k:]; break
            if nm is not None:
                fl = [x for x in rest if x.startswith('.')]
                out.add(('upvar', nm + ''.join(fl)))
                # fields of ADTs read through the captured variable (`pool.hooks.pre_recycle` with `pool: &PoolInner` captured)
                for fo, fn_ in p.fields():
                    if fo:
                        out.add(('field', '%s.%s' % (fo, fn_)))
                continue
        flds = [(o_, f) for o_, f in p.fields() if o_]
        # field-sensitive step: `_x.1` where `_x = (a, b)` / `_x = S { f: a, g: b }` follows only that operand
        sel = None
        if p.proj and p.proj[0].startswith('.') :
            sel = p.proj[0][1:]
        elif len(p.proj) >= 2 and p.proj[0].startswith('@') and p.proj[1].startswith('.'):
            sel = p.proj[1][1:]
        l = p.local
        # `(*_r).k` where `_r = &_y` (possibly through moves) and `_y` is an aggregate built here: same as `_y.k`
        # (the environment of a closure inlined into the body that created it)
        if sel is None and len(p.proj) >= 2 and p.proj[0] == '*' and p.proj[1].startswith('.'):
            base = l
            for _ in range(4):
                ds = an.defs(base)
                if len(ds) == 1 and ds[0][0] == 'stmt' and ds[0][3].rv.kind == 'use' and ds[0][3].rv.ops[0].kind != 'const' and not ds[0][3].rv.ops[0].place.proj:
                    base = ds[0][3].rv.ops[0].place.local; continue
                break
            ds = an.defs(base)
            if len(ds) == 1 and ds[0][0] == 'stmt' and ds[0][3].rv.kind == 'ref' and not ds[0][3].rv.place.proj:
                tgt = ds[0][3].rv.place.local
                for _ in range(4):
                    tds = an.defs(tgt)
                    if len(tds) == 1 and tds[0][0] == 'stmt' and tds[0][3].rv.kind == 'use' and tds[0][3].rv.ops[0].kind != 'const' and not tds[0][3].rv.ops[0].place.proj:
                        tgt = tds[0][3].rv.ops[0].place.local; continue
                    break
                tds = an.defs(tgt)
                if tds and all(d[0] == 'stmt' and d[3].rv.kind == 'agg' and d[3].rv.j['ak'] in ('tuple', 'adt', 'closure') for d in tds):
                    sel = p.proj[1][1:]
                    l = tgt
        key = (l, sel)
        for fo, fn_ in flds:
            out.add(('field', '%s.%s' % (fo, fn_)))
        if key in seen:
            continue
        seen.add(key)
        if sel is not None:
            # a local whose fields are assigned one by one (the environment of an inlined async helper: `_e.k = arg`)
            fdefs = an.field_defs(l).get(sel)
            if fdefs and not an.defs(l):
                for st_ in fdefs:
                    for x in st_.rv.ops:
                        work.append(x)
                    if st_.rv.kind in ('ref', 'copyderef', 'rawptr', 'discr'):
                        work.append(Operand({'c': {'l': st_.rv.place.local, 'pr': list(st_.rv.place.proj), 'own': list(st_.rv.place.own)}}))
                continue
            ds = an.defs(l)
            if l == p.local and p.proj[0].startswith('@') and ds:
                # the payload of variant V: a definition that builds another variant (an aggregate of it, the failure value
                # `from_residual` returns) does not feed it; plain moves carry the selection to what they move
                V = p.proj[0][1:]
                rest_pr = list(p.proj[2:]); rest_own = list(p.own[2:]) if len(p.own) >= 2 else [None] * len(rest_pr)
                handled = True
                pend = []
                for d in ds:
                    if d[0] == 'stmt' and d[3].rv.kind == 'agg' and d[3].rv.j['ak'] == 'adt':
                        rv = d[3].rv
                        if rv.j.get('variant') != V:
                            continue
                        names = rv.j.get('fields', [])
                        if sel in names and len(names) == len(rv.ops):
                            x_ = rv.ops[names.index(sel)]
                            if x_.kind in ('copy', 'move') and rest_pr:
                                x_ = Operand({'c': {'l': x_.place.local, 'pr': list(x_.place.proj) + rest_pr, 'own': list(x_.place.own) + rest_own}})
                            pend.append(x_)
                            continue
                        handled = False
                    elif d[0] == 'stmt' and d[3].rv.kind == 'use' and d[3].rv.ops[0].kind in ('copy', 'move'):
                        q = d[3].rv.ops[0].place
                        pend.append(Operand({'c': {'l': q.local, 'pr': list(q.proj) + list(p.proj), 'own': list(q.own) + list(p.own)}}))
                    elif d[0] != 'stmt' and V in ('Ok', 'Some', 'Continue') and (d[3].rcallee or '').endswith('::from_residual'):
                        continue
                    else:
                        handled = False
                if handled:
                    work.extend(pend)
                    continue
            if ds and all(d[0] == 'stmt' and d[3].rv.kind == 'agg' and d[3].rv.j['ak'] in ('tuple', 'adt', 'closure') for d in ds):
                done = True
                for d in ds:
                    rv = d[3].rv
                    names = [str(i) for i in range(len(rv.ops))] if rv.j['ak'] in ('tuple', 'closure') else rv.j.get('fields', [])
                    if sel in names and len(names) == len(rv.ops):
                        work.append(rv.ops[names.index(sel)])
                    else:
                        done = False
                if done:
                    continue
        if 1 <= l <= an.b.arg_count and not (an.b.kind == 'Closure' and l == 1):
            out.add(('arg', an.local_name(l) or 'arg%d' % l))
        for d in an.defs(l):
            if d[0] == 'stmt':
                rv = d[3].rv
                if rv.kind in ('use', 'cast', 'repeat'):
                    work.append(rv.ops[0])
                elif rv.kind in ('ref', 'copyderef', 'rawptr', 'discr'):
                    work.append(Operand({'c': {'l': rv.place.local, 'pr': list(rv.place.proj), 'own': list(rv.place.own)}}))
                elif rv.kind == 'agg':
                    if rv.j['ak'] == 'adt':
                        out.add(('agg', rv.j['adt'] + '::' + rv.j['variant'], d[1]))
                    elif rv.j['ak'] in ('closure', 'coroutine'):
                        out.add(('closure', rv.j['def'], d[1]))
                    for x in rv.ops:
                        work.append(x)
                elif rv.kind in ('bin', 'un'):
                    out.add(('bin', rv.binop, d[1]))
                    for x in rv.ops:
                        work.append(x)
            else:
                t = d[3]
                if _flow_through(t, extra_through):
                    for a in t.args:
                        work.append(a)
                else:
                    nm = strip_generics(t.rcallee or '?')
                    out.add(('call', nm, d[1]))
                    if deep:
                        # `deep`: a call's result is also considered to derive from all of its arguments
                        for a in t.args:
                            work.append(a)
    return out


def success_edges(an):
    """set of (switch_bb, target_bb) edges that are taken only when a fallible value was a success:
    Result::Ok arm, ControlFlow::Continue arm (the `?` operator), false-arm of is_err()/is_none(), true-arm of is_ok()/is_some()"""
    ok = set(); fail = set()
    for blk in an.b.blocks:
        t = blk.term
        if t.kind != 'switch':
            continue
        adt = t.j.get('adt')
        arms = t.switch_arms()
        if adt in ('std::result::Result', 'std::ops::ControlFlow'):
            good = 'Ok' if adt == 'std::result::Result' else 'Continue'
            for lab, tgt in arms:
                (ok if lab == good else fail).add((blk.idx, tgt))
        elif t.j.get('dty') == 'bool' and t.discr.kind != 'const' and not t.discr.place.proj:
            d = an.single_def(t.discr.place.local)
            # look through a copy
            hops = 0
            while d and d[0] == 'stmt' and d[3].rv.kind == 'use' and d[3].rv.ops[0].kind != 'const' and not d[3].rv.ops[0].place.proj and hops < 4:
                d = an.single_def(d[3].rv.ops[0].place.local); hops += 1
            if d and d[0] == 'call':
                names = d[3].callee_names()
                if names & {'std::result::Result::is_err'}:
                    for lab, tgt in arms:
                        (ok if lab == 'false' else fail).add((blk.idx, tgt))
                elif names & {'std::result::Result::is_ok'}:
                    for lab, tgt in arms:
                        (ok if lab == 'true' else fail).add((blk.idx, tgt))
    return ok, fail


def reach_without_edges(an, src, banned_edges, kinds=('normal',), include_src=False):
    seen = set()
    work = []
    def push(frm):
        for t in an.succs(frm, kinds):
            if (frm, t) in banned_edges:
                continue
            if t not in seen:
                seen.add(t); work.append(t)
    if include_src:
        seen.add(src); work.append(src)
    else:
        push(src)
    while work:
        x = work.pop()
        push(x)
    return seen



# ---------------------------------------------------------------------------
# path-sensitive refinement for drop audits

def split_generic_args(ty):
    """top-level generic arguments of `Path<A, B<C>, D>` -> ['A', 'B<C>', 'D']"""
    i = ty.find('<')
    if i < 0 or not ty.endswith('>'):
        return []
    inner = ty[i + 1:-1]
    out = []; depth = 0; cur = ''
    for ch in inner:
        if ch in '<([':
            depth += 1
        elif ch in '>)]':
            depth -= 1
        if ch == ',' and depth == 0:
            out.append(cur.strip()); cur = ''
        else:
            cur += ch
    if cur.strip():
        out.append(cur.strip())
    return out


def payload_ty(ty, variant):
    """type of the payload held by `variant` of a well-known enum type string, '' if none, None if unknown"""
    args = split_generic_args(ty)
    head = ty.split('<', 1)[0]
    if head == 'std::option::Option':
        return args[0] if variant == 'Some' else ''
    if head == 'std::task::Poll':
        return args[0] if variant == 'Ready' else ''
    if head == 'std::result::Result' and len(args) == 2:
        return args[0] if variant == 'Ok' else args[1]
    if head == 'std::ops::ControlFlow' and len(args) >= 1:
        if variant == 'Break':
            return args[0]
        return args[1] if len(args) > 1 else '()'
    return None


def variants_at(an, bb, local):
    """variant names the whole local `local` can have at bb, from dominating switches on its discriminant
    (only sound if the local is not re-assigned in between: checked by single definition)"""
    ds = an.defs(local)
    if len(ds) > 1 and all(d[0] == 'stmt' and d[3].rv.kind == 'agg' and d[3].rv.j.get('variant') for d in ds):
        # every definition constructs a known variant (`?` written out on a value of known variant): the variants of the
        # definitions that reach bb
        out = set()
        for d in ds:
            others = [x[1] for x in ds if x[1] != d[1]]
            if d[1] == bb or bb in an.reach([d[1]], ('normal', 'cancel'), avoid=others):
                out.add(d[3].rv.j['variant'])
        return out or None
    if len(ds) != 1:
        return None
    names = None
    doms = an.doms(('normal', 'cancel')).get(bb) or an.doms(('normal',)).get(bb) or ()
    for d in doms:
        t = an.b.blocks[d].term
        if t.kind != 'switch' or 'on' not in t.j or t.j['on']['l'] != local or t.j['on']['pr'] or not t.j.get('variants'):
            continue
        reach_by = set()
        for lab, tgt in t.switch_arms():
            if tgt == bb or bb in an.reach([tgt], ('normal', 'cancel'), avoid=[d]):
                reach_by.add(lab)
        names = reach_by if names is None else (names & reach_by)
    return names


def result_matches(an, origin_pred):
    """explicit `match r { Ok(..) => .., Err(..) => .. }` on a Result whose value derives (deep) from a call accepted by
    origin_pred(name): [(switch blk, blocks only on the Ok arm, blocks only on the Err arm)]"""
    from .facts import Operand
    out = []
    for blk in an.b.blocks:
        t = blk.term
        if t.kind != 'switch' or blk.cleanup or t.j.get('adt') != 'std::result::Result' or 'on' not in t.j:
            continue
        src = sources(an, Operand({'c': t.j['on']}), deep=True)
        if not any(s[0] == 'call' and origin_pred(s[1]) for s in src):
            continue
        arms = dict(t.switch_arms())
        if 'Ok' not in arms or 'Err' not in arms:
            continue
        okr = an.reach([arms['Ok']], ('normal',), avoid=[arms['Err']])
        err = an.reach([arms['Err']], ('normal',), avoid=[arms['Ok']])
        out.append((blk, okr - err, err - okr))
    return out


def sources_across(prog, body, op, depth=0, deep=False):
    """like sources(), but a value captured by the coroutine / closure of a *non-public* function (an extracted async
    helper cannot be inlined) is followed into the callers of that function: ('upvar', name) of such a body is replaced by
    the origins of the corresponding argument at every call site (up to 3 levels).  Terminal upvars keep their kind and
    gain the owning body: ('upvar', name, body path)."""
    an = prog.an(body)
    out = set()
    for s in sources(an, op, deep=deep):
        if s[0] != 'upvar' or depth >= 3:
            out.add(s if s[0] != 'upvar' else ('upvar', s[1], body.path)); continue
        parent = prog.bodies.get(body.j.get('parent') or '')
        base = s[1].split('.')[0]
        if parent is None or parent.j.get('vis') == 'pub' or not body.is_coroutine:
            out.add(('upvar', s[1], body.path)); continue
        names = parent.local_names()
        idx = [l for l in range(1, parent.arg_count + 1) if names.get(l) == base]
        sites = [(c, bb) for c, bb, k in prog.callers_of(parent.path) if k == 'call']
        if len(idx) != 1 or not sites:
            out.add(('upvar', s[1], body.path)); continue
        for c, bb in sites:
            cb = prog.bodies[c]
            args = cb.blocks[bb].term.args
            if idx[0] - 1 < len(args):
                out |= sources_across(prog, cb, args[idx[0] - 1], depth + 1, deep=True)
    return out

"""Role binding: program entities are found by type and by public API, not by
private name.  Every binder raises Undecided when it finds nothing or too much."""
import re
from .engine import Undecided
from .facts import strip_generics, Place, norm_path

SEM_TY = 'tokio::sync::Semaphore'
PERMIT_ADT = 'tokio::sync::SemaphorePermit'


def _one(cands, what):
    cands = list(cands)
    if len(cands) != 1:
        raise Undecided('%s: expected exactly one candidate, found %d (%s)' % (what, len(cands), ', '.join(map(str, cands))[:200]))
    return cands[0]


def inner_type_args(ty, outer):
    """`std::sync::Arc<X<M>>` with outer='std::sync::Arc' -> 'X<M>'"""
    ty = ty.strip()
    if not ty.startswith(outer + '<') or not ty.endswith('>'):
        return None
    return ty[len(outer) + 1:-1]


def adt_of(ty):
    """leading ADT path of a type string: 'a::B<C>' -> 'a::B'"""
    ty = ty.strip().lstrip('&')
    if ty.startswith('mut '):
        ty = ty[4:]
    if ty.startswith("'"):
        ty = ty.split(' ', 1)[1] if ' ' in ty else ty
        if ty.startswith('mut '):
            ty = ty[4:]
    # items nested in generic functions print as `a::B<M, W>::f::{closure#0}::S<'_>`: take the path up to the
    # last generic group that is not followed by `::`
    if ty.startswith('<') or ty.startswith('(') or ty.startswith('['):
        return None
    from .facts import norm_path
    # cut at the end of the leading path: scan balanced groups, continue only while followed by `::`
    depth = 0; end = len(ty); i = 0
    while i < len(ty):
        ch = ty[i]
        if ch == '<':
            depth += 1
        elif ch == '>' and (i == 0 or ty[i - 1] != '-'):
            depth -= 1
            if depth == 0 and not ty.startswith('::', i + 1):
                end = i + 1; break
        elif depth == 0 and not (ch.isalnum() or ch in '_:{}#'):
            end = i; break
        i += 1
    head = norm_path(ty[:end])
    m = re.match(r'^([A-Za-z_][A-Za-z0-9_:{}#]*)', head)
    return m.group(1) if m else None


class ManagedRoles:
    def __init__(self, prog):
        self.prog = prog
        c = prog.crates.get('deadpool')
        if c is None:
            raise Undecided('crate deadpool not extracted')
        self.crate = c
        self.POOL = 'deadpool::managed::Pool'
        self.OBJECT = 'deadpool::managed::Object'
        pool = c.adt(self.POOL)
        if pool is None:
            raise Undecided('public type deadpool::managed::Pool not found')
        fields = pool['variants'][0]['fields']
        arc = [f for f in fields if f['ty'].startswith('std::sync::Arc<')]
        f = _one(arc, 'Arc field of managed::Pool')
        self.POOL_INNER_FIELD = f['name']
        self.INNER = adt_of(inner_type_args(f['ty'], 'std::sync::Arc'))
        inner = c.adt(self.INNER)
        if inner is None:
            raise Undecided('pool inner type %s not found' % self.INNER)
        ifields = inner['variants'][0]['fields']
        self.SEM = _one([x['name'] for x in ifields if x['ty'] == SEM_TY], 'Semaphore field of ' + self.INNER)
        mtxs = [x for x in ifields if x['ty'].startswith('std::sync::Mutex<')]
        if len(mtxs) > 1:
            # several mutexes: the slots are the one guarding a struct of this crate that holds the idle queue (a VecDeque)
            def guards_queue(x):
                a_ = c.adt(adt_of(inner_type_args(x['ty'], 'std::sync::Mutex')))
                return a_ is not None and any(f_['ty'].startswith('std::collections::VecDeque<') for f_ in a_['variants'][0]['fields'])
            mtxs = [x for x in mtxs if guards_queue(x)]
        mtx = _one(mtxs, 'Mutex field of ' + self.INNER)
        self.SLOTS_FIELD = mtx['name']
        self.N_MUTEX = len([x for x in ifields if 'std::sync::Mutex' in x['parts']['adts']])
        self.SLOTS = adt_of(inner_type_args(mtx['ty'], 'std::sync::Mutex'))
        atoms = [x['name'] for x in ifields if x['ty'].startswith('std::sync::atomic::Atomic')]
        if len(atoms) > 1:
            # several atomic counters: `users` is the one status() reads
            from .analysis import sources as _src
            stb = [b_ for b_ in prog.bodies.values() if strip_generics(b_.path) == 'deadpool::managed::Pool::status']
            seen_ = set()
            for b_ in stb:
                an_ = prog.an(b_)
                for blk in b_.blocks:
                    t_ = blk.term
                    if t_.kind == 'call' and not blk.cleanup and t_.args and any(n.endswith('::load') and 'atomic' in n for n in t_.callee_names()):
                        seen_ |= {s_[1].split('.')[-1] for s_ in _src(an_, t_.args[0]) if s_[0] == 'field' and s_[1].startswith(self.INNER + '.')}
            atoms = [a_ for a_ in atoms if a_ in seen_]
        self.USERS = _one(atoms, 'atomic counter field of ' + self.INNER)
        self.OTHER_ATOMICS = [x['name'] for x in ifields if x['ty'].startswith('std::sync::atomic::Atomic') and x['name'] != self.USERS]
        self.MANAGER_FIELD = _one([x['name'] for x in ifields if x['ty'] == 'M'], 'manager field of ' + self.INNER)
        self.HOOKS_FIELD = _one([x['name'] for x in ifields if 'deadpool::managed::hooks::Hooks' in x['parts']['adts']],
                                'hooks field of ' + self.INNER)
        self.HOOKS = 'deadpool::managed::hooks::Hooks'
        self.RUNTIME_FIELD = _one([x['name'] for x in ifields if 'deadpool_runtime::Runtime' in x['parts']['adts']],
                                  'runtime field of ' + self.INNER)
        self.CONFIG_FIELD = _one([x['name'] for x in ifields if x['ty'] == 'deadpool::managed::config::PoolConfig'],
                                 'config field of ' + self.INNER)
        slots = c.adt(self.SLOTS)
        if slots is None:
            raise Undecided('slots type %s not found' % self.SLOTS)
        sfields = slots['variants'][0]['fields']
        self.QUEUE = _one([x['name'] for x in sfields if x['ty'].startswith('std::collections::VecDeque<')],
                          'VecDeque field of ' + self.SLOTS)
        # element type of the queue, from PoolInner's instantiation
        self.OBJINNER = adt_of(inner_type_args(inner_type_args(mtx['ty'], 'std::sync::Mutex'), self.SLOTS))
        # SIZE / MAX: which usize field of Slots feeds Status.size / Status.max_size in Pool::status
        self.SIZE, self.MAX = self._bind_size_max()
        # wrapper that owns an object while it is not ready: a non-public local ADT (other than
        # Object/Slots/PoolInner) with a field containing OBJINNER and a Drop impl
        cands = []
        for a in c.adts:
            if a['path'] in (self.OBJECT, self.SLOTS, self.INNER, self.OBJINNER):
                continue
            if not a['path'].startswith('deadpool::managed::'):
                continue
            if a['vis'] == 'pub':
                continue
            def holds_inner(parts, depth=0):
                # directly, or through a private helper type of the module (`enum Custody { Guarded(ObjectInner), HandedOn }`)
                if self.OBJINNER in parts['adts']:
                    return True
                if depth >= 2:
                    return False
                for ap in parts['adts']:
                    a2 = c.adt(ap)
                    if a2 is not None and ap.startswith('deadpool::managed::') and a2['vis'] != 'pub' and ap not in (self.OBJECT, self.SLOTS, self.INNER, a['path']):
                        if any(holds_inner(f2['parts'], depth + 1) for v2 in a2['variants'] for f2 in v2['fields']):
                            return True
                return False
            if any(holds_inner(fl['parts']) for v in a['variants'] for fl in v['fields']):
                if any(i.get('trait') == 'std::ops::Drop' and adt_of(i['self_ty']) == a['path'] for i in c.impls):
                    cands.append(a['path'])
        self.UNREADY = _one(cands, 'guard type owning a not-yet-ready object')
        # the typestate fields: where Object / the not-ready guard keep their object while they own it - an Option, or a two-state
        # private enum (one variant with the object, one without), whatever the field is called
        def _maybe_inner(f_):
            ty = f_['ty']
            if ty.startswith('std::option::Option<') and self.OBJINNER in f_['parts']['adts']:
                return True
            a2 = c.adt(adt_of(ty) or '')
            return a2 is not None and adt_of(ty) != self.OBJINNER and len(a2.get('variants', [])) == 2 and \
                sorted(bool(v2['fields']) for v2 in a2['variants']) == [False, True] and \
                any(self.OBJINNER in f2['parts']['adts'] for v2 in a2['variants'] for f2 in v2['fields'])
        self.STATE_FIELDS = set()
        for owner in (self.OBJECT, self.UNREADY):
            oa = c.adt(owner)
            for v_ in (oa or {}).get('variants', []):
                for f_ in v_['fields']:
                    if _maybe_inner(f_):
                        self.STATE_FIELDS.add('%s.%s' % (owner, f_['name']))
        # users guard: the local ADT with a Drop impl that calls a closure it carries
        self.DROPGUARD = None
        for a in c.adts:
            if a['path'].startswith('deadpool::managed::') and a['vis'] != 'pub':
                fl = a['variants'][0]['fields'] if a['variants'] else []
                if len(fl) == 1 and fl[0]['ty'] in ('F',) and any(
                        i.get('trait') == 'std::ops::Drop' and adt_of(i['self_ty']) == a['path'] for i in c.impls):
                    self.DROPGUARD = a['path']
        cons = [b for b in prog.bodies.values() if any(s.kind == 'assign' and s.rv.kind == 'agg' and s.rv.j.get('adt') == self.INNER for blk in b.blocks for s in blk.stmts)]
        self.CONSTRUCTOR = cons[0] if len(cons) == 1 else None
        self.MANAGER_TRAIT = 'deadpool::managed::Manager'
        self._users_guard = None
        # the timeout wrapper: the one local coroutine of the managed module that calls Runtime::timeout
        tw = [b for b in prog.bodies.values() if (b.path.startswith('deadpool::managed::') or b.path.startswith('<deadpool::managed::') or (' as deadpool::managed::' in b.path.split('>::')[0] and str(b.file).startswith('src/'))) and b.is_coroutine
              and any(blk.term.kind == 'call' and 'deadpool_runtime::Runtime::timeout' in blk.term.callee_names() for blk in b.blocks)]
        if len(tw) > 1:
            # several coroutines set a timer (a slot wait written out next to the generic wrapper): the wrapper is the one that is
            # told *which* timeout it enforces (a TimeoutType parameter)
            tw2 = [b for b in tw if any('TimeoutType' in str(i_) for i_ in ((prog.bodies.get(b.j.get('parent') or '') or b).j.get('inputs') or []))]
            if len(tw2) == 1:
                tw = tw2
        self.TIMEOUT_WRAPPER = tw[0] if len(tw) == 1 else None
        self.TIMEOUT_WRAPPER_FN = strip_generics(tw[0].j.get('parent', '')) if len(tw) == 1 else None
        # entry points (public API names)
        self.GET = self._body('deadpool::managed::Pool::get::{closure#0}')
        self.TIMEOUT_GET = self._body('deadpool::managed::Pool::timeout_get::{closure#0}')
        self.RESIZE = self._body('deadpool::managed::Pool::resize')
        self.RETAIN = self._body('deadpool::managed::Pool::retain')
        self.CLOSE = self._body('deadpool::managed::Pool::close')
        self.STATUS = self._body('deadpool::managed::Pool::status')
        self.IS_CLOSED = self._body('deadpool::managed::Pool::is_closed')
        self.OBJ_DROP = self._body('<deadpool::managed::Object<M> as std::ops::Drop>::drop', stripped=False)
        self.OBJ_TAKE = self._body('deadpool::managed::Object::take')
        self.UNREADY_DROP = self._body('<%s<\'_, M> as std::ops::Drop>::drop' % self.UNREADY, stripped=False, optional=True)
        if self.UNREADY_DROP is None:
            ds = [b for b in prog.bodies.values() if b.j.get('impl_trait') == 'std::ops::Drop'
                  and adt_of(b.j.get('impl_self', '')) == self.UNREADY]
            self.UNREADY_DROP = _one(ds, 'Drop impl body of ' + self.UNREADY)
        # getter region: everything reachable from timeout_get inside the crate
        self.GETTER = sorted(p for p in prog.region([self.TIMEOUT_GET.path]) if p.startswith('deadpool::') or p.startswith('<deadpool::') or
                             (' as deadpool::' in p.split('>::')[0] and str(prog.bodies[p].file).startswith('src/')))
        # return / take helpers: local functions called from Object::drop / Object::take that touch the semaphore
        self.RETURN = self._helpers(self.OBJ_DROP)
        self.TAKE = self._helpers(self.OBJ_TAKE)

    def _body(self, name, stripped=True, optional=False):
        if stripped:
            b = self.prog.body(name)
        else:
            b = self.prog.bodies.get(name)
        if b is None and not optional:
            raise Undecided('anchor body %s not found' % name)
        return b

    def _helpers(self, root):
        """the root and the *outermost* local functions below it whose call tree touches the semaphore or the size counter: a
        small helper they share with other callers (`retire_slot(&mut slots)`) is part of each of them - it is inlined - and
        not a role of its own"""
        reg = self.prog.region([root.path])
        def touches(b):
            return any(self.is_sem_call(b, blk.term) or self.field_writes(b, self.SLOTS, self.SIZE) for blk in b.blocks)
        own = {p for p in reg if self.prog.bodies[p].kind == 'Closure' and (self.prog.bodies[p].j.get('parent') or '') == root.path}
        sub = {}
        for p in reg:
            if p != root.path and p not in own:
                sub[p] = self.prog.region([p])
        T = {p for p, rg in sub.items() if any(touches(self.prog.bodies[q]) for q in rg)}
        outer = {p for p in T if not any(q != p and p in sub[q] for q in T)}
        out = []
        for p in sorted(reg):
            b = self.prog.bodies[p]
            if p == root.path or p in outer or (p in own and touches(b)):
                out.append(b)
        return out

    def _bind_size_max(self):
        # preferred: the constructor (size starts at the constant 0, max_size comes from the configuration)
        cons = [b for b in self.prog.bodies.values() if any(s.kind == 'assign' and s.rv.kind == 'agg' and s.rv.j.get('adt') == self.SLOTS for blk in b.blocks for s in blk.stmts)]
        fb = cons[0] if len(cons) == 1 else None
        if fb is not None:
            an = self.prog.an(fb)
            for blk in fb.blocks:
                for s in blk.stmts:
                    if s.kind == 'assign' and s.rv.kind == 'agg' and s.rv.j.get('adt') == self.SLOTS:
                        size = mx = None
                        for fname, op in zip(s.rv.j['fields'], s.rv.ops):
                            ty = [f for f in self.crate.adt(self.SLOTS)['variants'][0]['fields'] if f['name'] == fname][0]['ty']
                            if ty != 'usize':
                                continue
                            v = an.resolve_operand(op)
                            if v == '0_usize':
                                size = fname
                            else:
                                mx = fname
                        if size and mx:
                            return size, mx
        st = self._body('deadpool::managed::Pool::status')
        an = self.prog.an(st)
        size = mx = None
        for blk in st.blocks:
            for s in blk.stmts:
                if s.kind == 'assign' and s.rv.kind == 'agg' and s.rv.j.get('adt') == 'deadpool::Status':
                    for fname, op in zip(s.rv.j['fields'], s.rv.ops):
                        src = self._slots_field_source(an, op)
                        if fname == 'size':
                            size = src
                        elif fname == 'max_size':
                            mx = src
        if not size or not mx or size == mx:
            raise Undecided('cannot bind SIZE/MAX from Pool::status (size=%s max=%s)' % (size, mx))
        return size, mx

    def _slots_field_source(self, an, op, depth=0):
        """follow copies back to a read of a field of SLOTS"""
        if op.kind == 'const' or depth > 8:
            return None
        p = op.place
        for own, name in p.fields():
            if own == self.SLOTS:
                return name
        if p.proj:
            return None
        d = an.single_def(p.local)
        if d and d[0] == 'stmt' and d[3].rv.kind == 'use':
            return self._slots_field_source(an, d[3].rv.ops[0], depth + 1)
        return None

    # ---- predicates ------------------------------------------------------
    def is_sem_call(self, body, term, method=None):
        """call of a tokio Semaphore method (receiver = the managed pool's semaphore)"""
        if term.kind != 'call':
            return False
        for n in term.callee_names():
            if n.startswith('tokio::sync::Semaphore::'):
                if method is None or n == 'tokio::sync::Semaphore::' + method:
                    return True
        return False

    def field_writes(self, body, owner, field):
        """[(bb, idx, stmt)] assignments whose destination ends in owner.field"""
        out = []
        for blk in body.blocks:
            for i, s in enumerate(blk.stmts):
                if s.kind == 'assign' and s.place.proj:
                    lf = s.place.last_field()
                    if lf and lf == (owner, field) and s.place.proj[-1] == '.' + field:
                        out.append((blk.idx, i, s))
        return out

    def users_guard(self):
        """(adt path, construction block idx, construction stmt) of the guard that undoes `users += 1`:
        a local ADT with a Drop impl, constructed in timeout_get, whose drop performs fetch_sub on M.USERS -
        either through a closure it carries (DropGuard(|| ..)) or directly on a field initialised from &users"""
        if self._users_guard is not None:
            return self._users_guard
        from .analysis import sources
        prog = self.prog
        root = self.TIMEOUT_GET
        an = prog.an(root)
        users = '%s.%s' % (self.INNER, self.USERS)
        found = []
        for blk in root.blocks:
            if blk.cleanup:
                continue
            for s in blk.stmts:
                if not (s.kind == 'assign' and s.rv.kind == 'agg' and s.rv.j.get('ak') == 'adt'):
                    continue
                adt = norm_path(strip_generics(s.rv.j['adt']))
                drops = [b for b in prog.bodies.values() if b.j.get('impl_trait') == 'std::ops::Drop' and adt_of(b.j.get('impl_self', '')) == adt]
                if len(drops) != 1 or not adt.startswith('deadpool::'):
                    continue
                d = drops[0]
                dan = prog.an(d)
                ok = False
                how = None
                # (a) carries a closure that does the fetch_sub
                for op in s.rv.ops:
                    for src in sources(an, op):
                        if src[0] == 'closure' and src[1] in prog.bodies:
                            cb = prog.bodies[src[1]]
                            can = prog.an(cb)
                            for x in cb.blocks:
                                if x.term.kind == 'call' and any(n.endswith('::fetch_sub') for n in x.term.callee_names()) and x.term.args and \
                                        ('field', users) in sources(can, x.term.args[0]):
                                    ok = True; how = ('closure', cb.path)
                # (b) the drop body does it on a field initialised from &users
                if not ok:
                    for x in d.blocks:
                        if x.term.kind == 'call' and any(n.endswith('::fetch_sub') for n in x.term.callee_names()) and x.term.args:
                            fs = [y for y in sources(dan, x.term.args[0]) if y[0] == 'field' and norm_path(strip_generics(y[1])).startswith(adt + '.')]
                            for f in fs:
                                fname = f[1].split('.')[-1]
                                if fname in s.rv.j['fields']:
                                    op = s.rv.ops[s.rv.j['fields'].index(fname)]
                                    if ('field', users) in sources(an, op):
                                        ok = True; how = ('direct', d.path)
                if ok:
                    found.append((adt, blk.idx, s, how, d))
        if len(found) != 1:
            raise Undecided('users guard: expected exactly one guard construction in timeout_get whose Drop undoes users += 1, found %d' % len(found))
        self._users_guard = found[0]
        return self._users_guard

    def describe(self):
        return {
            'M.POOL': self.POOL, 'M.INNER': self.INNER, 'M.SEM': '%s.%s' % (self.INNER, self.SEM),
            'M.SLOTS': self.SLOTS, 'M.SLOTS_FIELD': self.SLOTS_FIELD, 'M.QUEUE': '%s.%s' % (self.SLOTS, self.QUEUE),
            'M.SIZE': '%s.%s' % (self.SLOTS, self.SIZE), 'M.MAX': '%s.%s' % (self.SLOTS, self.MAX),
            'M.USERS': '%s.%s' % (self.INNER, self.USERS), 'M.OBJINNER': self.OBJINNER,
            'G.UNREADY': self.UNREADY, 'G.USERS(type)': self.DROPGUARD, 'G.PERMIT': PERMIT_ADT,
            'M.GETTER': self.GETTER, 'M.RETURN': [b.name for b in self.RETURN], 'M.TAKE': [b.name for b in self.TAKE],
        }


def _amount(an, op):
    """description of the amount of an update: the literal, or `len(..)` when the value is the length of a collection (also when it
    reached the update through a parameter of an inlined helper: `size.sub(removed.len())`)"""
    v = an.resolve_operand(op)
    if op.kind != 'const' and 'len' not in v:
        from .analysis import sources as _src
        ls = [x for x in _src(an, op) if x[0] == 'call' and x[1].split('::')[-1] == 'len']
        if ls and not any(x[0] in ('bin', 'const') for x in _src(an, op)):
            return 'len(%s)' % v
    return v


def classify_write(an, stmt):
    """operator of a field update: returns (op, operand_desc): ('+=', '1'), ('-=', '1'), ('-=', 'len(..)'), ('=', desc)"""
    rv = stmt.rv
    if rv.kind == 'use' and rv.ops[0].kind == 'move' and rv.ops[0].place.proj == ('.0',):
        d = an.single_def(rv.ops[0].place.local)
        if d and d[0] == 'stmt' and d[3].rv.kind == 'bin' and d[3].rv.binop in ('AddWithOverflow', 'SubWithOverflow'):
            a, b = d[3].rv.ops
            same = a.kind != 'const' and a.place.key() == stmt.place.key()
            if same:
                return ('+=' if d[3].rv.binop.startswith('Add') else '-=', _amount(an, b))
    if rv.kind == 'bin' and rv.binop in ('Add', 'Sub', 'AddUnchecked', 'SubUnchecked'):
        a, b = rv.ops
        if a.kind != 'const' and a.place.key() == stmt.place.key():
            return ('+=' if rv.binop.startswith('Add') else '-=', _amount(an, b))
    # `x.f = x.f.saturating_sub(n)` / saturating_add / wrapping_*: the same update written with a std method (it differs from
    # the plain operator only where that would overflow, i.e. panic in a debug build)
    if rv.kind == 'use' and rv.ops[0].kind in ('move', 'copy') and not rv.ops[0].place.proj:
        d = an.single_def(rv.ops[0].place.local)
        if d and d[0] != 'stmt':
            t = d[3]
            meth = [n.split('::')[-1] for n in t.callee_names() if n.startswith('core::num::') or n.startswith('std::num::') or '::num::' in n]
            if meth and meth[0] in ('saturating_sub', 'saturating_add', 'wrapping_sub', 'wrapping_add') and len(t.args) == 2:
                a = t.args[0]
                src = a
                for _ in range(3):
                    if src.kind != 'const' and not src.place.proj:
                        d2 = an.single_def(src.place.local)
                        if d2 and d2[0] == 'stmt' and d2[3].rv.kind == 'use':
                            src = d2[3].rv.ops[0]; continue
                    break
                if src.kind != 'const' and src.place.proj and stmt.place.proj and src.place.last_field() == stmt.place.last_field() and src.place.last_field() is not None:
                    return ('+=' if meth[0].endswith('add') else '-=', an.resolve_operand(t.args[1]))
    if rv.ops:
        return ('=', an.resolve_operand(rv.ops[0]))
    return ('=', repr(rv))

"""C08 - reuse order follows the queue mode; creation is lazy; no background work."""
from .mcommon import *
from .roles import adt_of
from .facts import strip_generics, Operand, Place
from .analysis import sources
from . import preds, poscontrol

TECHNIQUE = 'match table of the QueueMode switch, method allow-list on the idle queue, call-graph reachability of user callbacks from public entry points, forbidden-callee inventory (spawn / timers) on resolved MIR callees'
LEVEL_TEXT = 'static analysis of the getter pop site, every VecDeque method call on the idle queue and the whole call graph of the managed module'
EXPLANATION = ('Decided: the pop in the getter is a switch on QueueMode whose Fifo arm calls pop_front and whose Lifo arm calls pop_back on '
               'the idle queue; objects enter the queue only with push_back; every other method used on the idle queue preserves order; the '
               'creator is reached only from the None branch of that pop; Manager methods, hooks and predicates are reachable only from '
               'get / retain / take / resize / close / the return of an object; builder, build, clone, status, timeouts, manager and '
               'is_closed reach none of them; the managed module calls no spawn function and builds timers only inside apply_timeout.')

QUEUE_MODE = 'deadpool::managed::config::QueueMode'
ORDER_PRESERVING = {'pop_front', 'pop_back', 'push_back', 'remove', 'len', 'is_empty', 'index', 'index_mut', 'get', 'get_mut', 'drain',
                    'reserve_exact', 'reserve', 'try_reserve', 'try_reserve_exact', 'with_capacity', 'new', 'iter', 'iter_mut', 'shrink_to_fit', 'shrink_to', 'capacity', 'deref', 'fmt',
                    'front', 'front_mut', 'back', 'back_mut', 'contains', 'as_slices', 'make_contiguous', 'range'}
FORBIDDEN_PREFIX = ('tokio::spawn', 'tokio::task::spawn', 'tokio::runtime::', 'std::thread::spawn', 'std::thread::Builder',
                    'deadpool_runtime::Runtime::spawn_blocking', 'tokio::time::sleep', 'tokio::time::interval', 'async_std::task::spawn')


def run(ctx):
    r = roles(ctx)
    prog = ctx.prog
    root = r.TIMEOUT_GET
    an = prog.an(root)
    ctx.saw(root)

    # ---- R08.1 pop table -------------------------------------------------------------
    sws = [blk for blk in root.blocks if blk.term.kind == 'switch' and blk.term.j.get('adt') == QUEUE_MODE]
    ctx.ob('R08.1', 'the getter switches on the queue mode exactly once', len(sws) == 1, ctx.where(root), '%d switches on QueueMode' % len(sws), construct='pop:switch')
    qc = queue_calls(r, root, an)
    pops = [(x, m) for x, m in qc if m.startswith('pop') or m in ('remove', 'swap_remove_back', 'swap_remove_front')]
    if len(sws) == 1:
        sw = sws[0]
        src = sources(an, Operand({'c': sw.term.j['on']}))
        ctx.ob('R08.1', 'the mode tested is the configured queue_mode', any(s[0] == 'field' and s[1].endswith('PoolConfig.queue_mode') for s in src),
               ctx.where(root, sw.term.line), str(sorted(src)), construct='pop:mode-source')
        arms = dict(sw.term.switch_arms())
        want = {'Fifo': 'pop_front', 'Lifo': 'pop_back'}
        targets = {lab: tgt for lab, tgt in arms.items() if lab in want}
        for lab, meth in want.items():
            if lab not in targets:
                ctx.ob('R08.1', '%s arm exists' % lab, False, ctx.where(root, sw.term.line), '', construct='pop:arm:' + lab); continue
            others = [t for l2, t in targets.items() if l2 != lab]
            reach = an.reach([targets[lab]], ('normal',), avoid=others)
            # calls exclusive to this arm: up to the join
            join = None
            mine = [(x, m) for x, m in pops if x.idx in reach and not any(x.idx in an.reach([o], ('normal',), avoid=[targets[lab]]) for o in others)]
            ok = [m for x, m in mine] == [meth]
            ctx.ob('R08.1', '%s takes the object with %s' % (lab, meth), ok, ctx.where(root, sw.term.line), 'arm %s calls %s' % (lab, [m for x, m in mine]),
                   construct='pop:arm:' + lab, sites=[ctx.where(root, x.term.line) for x, m in mine])
        shared = [(x, m) for x, m in pops if all(x.idx in an.reach([t], ('normal',)) for t in targets.values()) and an.dominates(sw.idx, x.idx)
                  and not any(x.idx in [y.idx for y, _ in pops if y.idx in an.reach([targets[l]], ('normal',), avoid=[t for l2, t in targets.items() if l2 != l])] for l in targets)]
        ctx.ob('R08.1', 'no pop outside the mode switch', len(pops) == 2, ctx.where(root), '%d pop sites in the getter' % len(pops), construct='pop:extra')

    # ---- R08.6 the mode used is the mode configured ------------------------------------------------------
    builder_plumbing(ctx, 'R08.6', ['queue_mode', 'config'])

    # ---- R08.2 order-preserving methods only ----------------------------------------------
    n = 0
    for b in managed_bodies(prog):
        ban = prog.an(b)
        for blk, m in queue_calls(r, b, ban):
            if blk.cleanup:
                continue
            n += 1
            ok = m in ORDER_PRESERVING
            if ok and m == 'push_back' and b.path == r.RETAIN.path:
                # retain() putting elements back: whether the walk as a whole keeps the order is a loop argument (a full
                # rotation does, a partial one does not) that is not attempted
                ctx.undecide('R08.2', 'retain() re-inserts idle objects with push_back (line %s): order preservation of such a walk is not decided' % blk.term.line)
                continue
            ctx.ob('R08.2', 'idle queue used only through order-preserving methods', ok, ctx.where(b, blk.term.line),
                   'VecDeque::%s on the idle queue reorders or inserts out of order' % m if not ok else '', construct='queue-method:%s:%s' % (b.name, m),
                   sites=[m])
            if m == 'drain':
                # must be the full range, re-pushed in order into the new storage
                rng = ban.resolve_operand(blk.term.args[1]) if len(blk.term.args) > 1 else ''
                ctx.ob('R08.2', 'drain covers the whole queue', 'RangeFull' in rng, ctx.where(b, blk.term.line), 'drain(%s)' % rng, construct='queue-drain-range:' + b.name)
    ctx.floor('R08.2', 'method calls on the idle queue', n, 6)
    # the re-allocation in resize re-pushes in order: push_back (not push_front) on the new deque
    z = r.RESIZE
    zan = prog.an(z)
    for blk in z.blocks:
        if blk.term.kind == 'call' and not blk.cleanup and any(n_.startswith('std::collections::VecDeque::') and n_.split('::')[-1] in ('push_front', 'insert', 'rotate_left', 'rotate_right', 'swap', 'make_contiguous') for n_ in blk.term.callee_names()):
            ctx.ob('R08.2', 'resize re-queues idle objects in order', False, ctx.where(z, blk.term.line), str(sorted(blk.term.callee_names())), construct='resize:reorder')
    revs = [blk for b in managed_bodies(prog) for blk in b.blocks if blk.term.kind == 'call' and not blk.cleanup and b.path in (z.path, r.RETAIN.path)
            and any(n_.endswith('::rev') or n_.endswith('::next_back') for n_ in blk.term.callee_names())]
    ctx.ob('R08.2', 'no reverse iteration over idle objects', not revs, ctx.where(z), '', construct='resize:reverse')

    # ---- R08.3 create only when there was no idle object to try ---------------------------------
    cres = [prog.bodies[p] for p in r.GETTER if manager_calls(prog.bodies[p], MANAGER_CREATE)]
    if len(cres) == 1:
        cre = cres[0]
        polls = [blk for blk in root.blocks if blk.term.kind == 'call' and blk.term.rcallee == cre.path]
        ctors = [blk for blk in root.blocks if blk.term.kind == 'call' and blk.term.rcallee == cre.j.get('parent')]
        popsw = [blk for blk in root.blocks if blk.term.kind == 'switch' and blk.term.j.get('adt') == 'std::option::Option' and 'on' in blk.term.j
                 and any(s[0] == 'call' and 'VecDeque::pop' in s[1] for s in sources(an, Operand({'c': blk.term.j['on']})))]
        if cre.path == root.path:
            polls = manager_calls(root, MANAGER_CREATE)
        if len(popsw) != 1 or not polls:
            ctx.undecide('R08.3', 'pop-result test (%d) or creator poll (%d) not found' % (len(popsw), len(polls)))
        else:
            arms = dict(popsw[0].term.switch_arms())
            some_reach = an.reach([arms['Some']], ('normal',), avoid=[arms['None']] + [x.idx for x, _ in pops])
            bad = [p for p in polls + ctors if p.idx in some_reach]
            none_reach = an.reach([arms['None']], ('normal',), avoid=[arms['Some']])
            ok = not bad and all(p.idx in none_reach for p in polls)
            ctx.ob('R08.3', 'Manager::create reached only when the pop found nothing', ok, ctx.where(root, popsw[0].term.line),
                   'the creator is reachable from the branch that found an idle object' if bad else '', construct='create:lazy')
            # "nothing idle" is what the queue itself answered at that moment, not a count taken earlier or a constant
            osrc = sources(an, Operand({'c': popsw[0].term.j['on']}))
            other = sorted({s[1] for s in osrc if (s[0] == 'agg' and s[1].startswith('std::option::Option')) or (s[0] == 'call' and 'VecDeque::pop' not in s[1])})
            ctx.ob('R08.3', 'the "no idle object" answer comes from the queue pop alone', not other, ctx.where(root, popsw[0].term.line),
                   'the value tested can also be %s: the getter can decide that nothing is idle without asking the queue and create an object while a usable one is waiting' % other if other else '',
                   construct='create:none-not-from-pop')
    else:
        ctx.undecide('R08.3', 'creator body not unique')

    # ---- R08.4 who can reach user callbacks --------------------------------------------------------
    allowed_roots = [r.TIMEOUT_GET.path, r.GET.path, r.RETAIN.path, r.OBJ_TAKE.path, r.OBJ_DROP.path, r.RESIZE.path, r.CLOSE.path,
                     r.UNREADY_DROP.path, 'deadpool::managed::Pool::<M, W>::get', 'deadpool::managed::Pool::<M, W>::timeout_get']
    dg = [b.path for b in prog.bodies.values() if b.j.get('impl_trait') == 'std::ops::Drop' and adt_of(b.j.get('impl_self', '')) == r.DROPGUARD]
    allowed = prog.region(allowed_roots + dg)
    n_user = 0
    for b in managed_bodies(prog):
        for blk, what in user_code_calls(b):
            if blk.cleanup:
                continue
            n_user += 1
            ok = b.path in allowed
            ctx.ob('R08.4', 'user callbacks only from get / retain / take / resize / close / return', ok, ctx.where(b, blk.term.line),
                   '%s invokes %s outside the documented entry points' % (b.name, what) if not ok else '', construct='callback-site:%s:%s' % (b.name, what))
    ctx.floor('R08.4', 'user callback sites in the managed module', n_user, 10)
    quiet = ['deadpool::managed::Pool::builder', 'deadpool::managed::Pool::from_builder', 'deadpool::managed::builder::PoolBuilder::build',
             'deadpool::managed::builder::PoolBuilder::new', 'deadpool::managed::Pool::status', 'deadpool::managed::Pool::timeouts',
             'deadpool::managed::Pool::manager', 'deadpool::managed::Pool::is_closed', '<deadpool::managed::Pool<M, W> as std::clone::Clone>::clone',
             'deadpool::managed::Object::metrics', 'deadpool::managed::Object::pool']
    n_quiet = 0
    for qn in quiet:
        qb = prog.body(qn) or prog.bodies.get(qn)
        if qb is None:
            # non-public helpers (from_builder, PoolBuilder::new) are absorbed into their callers by the normalisation
            if qn.split('::')[-1] in ('from_builder', 'new'):
                continue
            ctx.undecide('R08.4', 'public function %s not found' % qn); continue
        n_quiet += 1
        reg = prog.region([qb.path])
        hits = [(prog.bodies[p].name, w) for p in reg for blk, w in user_code_calls(prog.bodies[p]) if not blk.cleanup]
        ctx.ob('R08.4', '%s calls no manager / hook / predicate' % qn.split('::')[-1], not hits, ctx.where(qb), str(hits[:3]), construct='quiet:' + qn.split('::')[-1])
        ctx.saw(qb)

    # ---- R08.5 no background work -----------------------------------------------------------------------
    n_calls = 0
    at = r.TIMEOUT_WRAPPER
    for b in managed_bodies(prog):
        for blk in b.blocks:
            if blk.term.kind != 'call' or blk.cleanup:
                continue
            n_calls += 1
            names = blk.term.callee_names()
            bad = preds.spawn_names(names)
            if bad:
                ctx.ob('R08.5', 'no spawn / background timer in the managed pool', False, ctx.where(b, blk.term.line), '/'.join(bad), construct='spawn:' + b.name)
            if any(n_ == 'deadpool_runtime::Runtime::timeout' for n_ in names):
                # (a deadline awaited inside get() itself - the slot wait written out next to the wrapper - is no more background
                # work than the wrapper is)
                ok = (at is not None and b.path == at.path) or (b.path in set(r.GETTER) and b.is_coroutine)
                ctx.ob('R08.5', 'timers only inside apply_timeout on the getter path', ok, ctx.where(b, blk.term.line), '', construct='timer:' + b.name)
    ctx.ob('R08.5', 'no spawn call found among all resolved callees', True, '', '%d calls scanned' % n_calls, construct='spawn:none', sites=[str(n_calls)])
    ctx.count('calls_scanned', n_calls)
    poscontrol.assert_controls(ctx, ['spawn:'])
    ctx.floor('R08.5', 'calls scanned for spawn functions', n_calls, 300)

    ctx.not_decided += ['nothing material: the behavioural statement follows from VecDeque being a deque (trusted std)']
    ctx.assumptions += ['std VecDeque semantics', 'callee resolution of rustc (Instance::try_resolve)']

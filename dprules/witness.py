"""Run the compile_fail witnesses (doc-tests with error codes, each with a compiling twin)."""
import os, re, shutil, subprocess
from . import extract

VERIF = os.path.dirname(os.path.dirname(os.path.abspath(__file__)))

# doc-test name fragment -> property
WITNESS_OF = {
    'W01ObjectNotClone': 'C01', 'W03PrivateAccounting': 'C03', 'W03InnerPrivate': 'C03', 'W05UnmanagedObjectNotClone': 'C05',
    'W13MetricsReadOnly': 'C13', 'W13HookMetricsReadOnly': 'C13', 'W14InteractSend': 'C14', 'W14ObjPrivate': 'C14',
}


def run_witnesses(repo=None):
    """returns (results, log): results = {witness struct: [(test name, ok)]}"""
    repo = repo or extract.REPO
    build = os.path.join(extract.CACHE, 'witness_build')
    os.makedirs(os.path.join(build, 'src'), exist_ok=True)
    shutil.copy(os.path.join(VERIF, 'witness', 'src', 'lib.rs'), os.path.join(build, 'src', 'lib.rs'))
    with open(os.path.join(VERIF, 'witness', 'Cargo.toml.in')) as f:
        man = f.read().replace('@REPO@', repo)
    with open(os.path.join(build, 'Cargo.toml'), 'w') as f:
        f.write(man)
    lock = os.path.join(repo, 'Cargo.lock')
    if os.path.exists(lock):
        shutil.copy(lock, os.path.join(build, 'Cargo.lock'))
    env = dict(os.environ, CARGO_NET_OFFLINE='true', CARGO_TARGET_DIR=os.path.join(extract.CACHE, 'witness_target'))
    env.pop('RUSTC_WORKSPACE_WRAPPER', None)
    r = subprocess.run(['cargo', '+nightly', 'test', '--doc', '--offline'], cwd=build, env=env, capture_output=True, text=True)
    out = r.stdout + r.stderr
    results = {}
    for m in re.finditer(r'^test (\S+) - (\S+) \(line (\d+)\)( - compile fail)? \.\.\. (ok|FAILED)', out, re.M):
        results.setdefault(m.group(2), []).append(('%s line %s%s' % (m.group(2), m.group(3), ' (compile_fail)' if m.group(4) else ' (twin)'), m.group(5) == 'ok'))
    return results, out, r.returncode

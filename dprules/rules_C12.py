"""C12 - unmanaged pool calls never panic and close() is final."""
from .ucommon import uroles
from .mcommon import calls_named, in_cycle
from .roles import adt_of
from .facts import strip_generics, Operand, Place
from .analysis import sources
from . import poscontrol

TECHNIQUE = 'panic-site inventory over the call graph of every public unmanaged operation (unwrap / expect / assert / explicit panic, each classified by the def-use origin of its operand), dominance order in close(), error match tables'
LEVEL_TEXT = 'static analysis of every path of the unmanaged module'
EXPLANATION = ('Decided: the only panic sites reachable from the public unmanaged operations are Mutex::lock().unwrap() on the queue (poison only), '
               'Option::unwrap on the typestate-guarded Object.obj and the length conversion in From<iterator>; in particular the result of '
               'queue.pop() is not unwrapped after the permit was taken (close() can empty the queue in between); close() closes both semaphores '
               'before clearing the queue; the return path clears a closed pool after its push; every acquisition error Closed maps to PoolError::Closed.')

PUBLIC = ['get', 'try_get', 'timeout_get', 'add', 'try_add', 'remove', 'try_remove', 'timeout_remove', 'close', 'is_closed', 'status']


def run(ctx):
    r = uroles(ctx)
    prog = ctx.prog
    roots = []
    for nm in PUBLIC:
        for cand in ('deadpool::unmanaged::Pool::%s' % nm, 'deadpool::unmanaged::Pool::%s::{closure#0}' % nm):
            b = prog.body(cand)
            if b is not None:
                roots.append(b.path)
    # (constructors are not among the calls the property lists; they are C05's subject - R05.4 evaluates their books)
    roots += [r.OBJ_DROP.path, r.TAKE.path]
    roots += [b.path for b in r.bodies() if b.j.get('impl_trait') in ('std::ops::Deref', 'std::ops::DerefMut', 'std::ops::Drop', 'std::convert::AsRef', 'std::convert::AsMut')]
    region = sorted(p for p in prog.region(roots) if p.startswith('deadpool::unmanaged') or p.startswith('<deadpool::unmanaged'))

    # ---- R12.1 panic-site inventory -----------------------------------------------------------
    n = 0
    for p in region:
        b = prog.bodies[p]
        if '_serde' in p:
            continue
        ctx.saw(b)
        an = prog.an(b)
        for blk in b.blocks:
            if blk.cleanup:
                continue
            t = blk.term
            if t.kind == 'assert':
                n += 1
                msg = t.j['msg']
                # the only arithmetic in the module is `-available` in status(), on the branch available < 0
                ok = False
                if msg.startswith('overflow') and b.path == r.STATUS.path:
                    ok = True
                ctx.ob('R12.1', 'no assert other than the negation in status()', ok, ctx.where(b, t.line), 'assert(%s)' % msg, construct='panic:assert:%s:%s' % (msg, b.name))
                continue
            if t.kind != 'call':
                continue
            names = t.callee_names()
            if names & {'std::result::Result::unwrap', 'std::result::Result::expect'}:
                n += 1
                src = sources(an, t.args[0])
                if any(s[0] == 'call' and s[1] == 'std::sync::Mutex::lock' for s in src):
                    ctx.ob('R12.1', 'Result::unwrap on Mutex::lock (poison only)', True, ctx.where(b, t.line), '', construct='panic:lock-unwrap:' + b.name, sites=[ctx.where(b, t.line)])
                elif b.path == r.FROM_ITER.path and any(s[0] == 'call' and s[1].endswith('Vec::len') for s in src):
                    ctx.ob('R12.1', 'len -> isize conversion cannot fail for a Vec', True, ctx.where(b, t.line), 'Vec length <= isize::MAX', construct='panic:len-conversion')
                else:
                    ctx.ob('R12.1', 'no other Result::unwrap', False, ctx.where(b, t.line), 'unwrap() of %s' % an.resolve_operand(t.args[0]), construct='panic:result-unwrap:' + b.name)
            elif names & {'std::option::Option::unwrap', 'std::option::Option::expect'}:
                n += 1
                src = sources(an, t.args[0])
                if any(s[0] == 'call' and 'Vec' in s[1] and s[1].endswith('::pop') for s in src):
                    ctx.ob('R12.1', 'the popped value is not unwrapped', False, ctx.where(b, t.line),
                           'queue.pop().unwrap(): close() closes the semaphores and then clears the queue, so a getter that already owns a permit can find the queue empty and panics',
                           construct='panic:option-unwrap:queue-pop', sites=[ctx.where(b, t.line)])
                elif any(s[0] == 'field' and s[1] == r.OBJECT + '.obj' for s in src):
                    ctx.ob('R12.1', 'Option::unwrap on the typestate-guarded Object.obj', True, ctx.where(b, t.line), '', construct='panic:obj-unwrap:' + b.name)
                else:
                    ctx.ob('R12.1', 'no other Option::unwrap', False, ctx.where(b, t.line), 'unwrap() of %s' % an.resolve_operand(t.args[0]), construct='panic:option-unwrap:' + b.name)
            elif any(n_.startswith('core::panicking') or n_.startswith('std::panicking') or n_.startswith('std::rt::begin_panic') or n_ in ('std::process::abort',) for n_ in names):
                n += 1
                ctx.ob('R12.1', 'no explicit panic', False, ctx.where(b, t.line), '/'.join(sorted(names)), construct='panic:explicit:' + b.name)
    ctx.count('panic_sites', n)
    poscontrol.assert_controls(ctx, ['panic:', 'assert:'])
    ctx.floor('R12.1', 'panic sites examined in the unmanaged module', n, 5)
    # Object.obj is emptied only by consuming / final functions
    for b in r.bodies():
        an = prog.an(b)
        for blk in calls_named(b, ['std::option::Option::take', 'std::mem::take', 'std::mem::replace']):
            src = sources(an, blk.term.args[0]) if blk.term.args else set()
            if any(s[0] == 'field' and s[1] == r.OBJECT + '.obj' for s in src):
                is_drop = b.j.get('impl_trait') == 'std::ops::Drop'
                by_value = bool(b.j.get('inputs')) and not b.j['inputs'][0].startswith('&')
                ctx.ob('R12.1', 'Object.obj emptied only when the wrapper is consumed or dropped', is_drop or by_value, ctx.where(b, blk.term.line), '', construct='obj-take:' + b.name)

    # ---- R12.2 close order ------------------------------------------------------------------------
    c = r.CLOSE
    can = prog.an(c)
    ctx.saw(c)
    closes = r.sem_calls(c, 'close')
    clears = [x for x in c.blocks if x.term.kind == 'call' and not x.cleanup and r.CLEAR is not None and x.term.rcallee == r.CLEAR.path]
    whichs = [w for x, w in closes]
    ok = sorted(whichs) == ['SEM', 'SIZESEM'] and len(clears) == 1
    ctx.ob('R12.2', 'close() closes both semaphores and clears the queue', ok, ctx.where(c), 'closes %s, clears %d' % (whichs, len(clears)), construct='close:shape')
    if ok:
        # the semaphore that is_closed() reads must be closed before the queue is cleared; the other one only needs to be
        # closed before close() returns when adders re-check is_closed() under the queue lock (otherwise before the clear too)
        flag = r.closed_flag_sem()
        recheck = r.add_helper_rechecks_closed()
        for x, w in closes:
            need = (w == flag) or not recheck or flag is None
            if need:
                ctx.ob('R12.2', 'semaphore %s closed before the queue is cleared' % w, can.dominates(x.idx, clears[0].idx), ctx.where(c, x.term.line),
                       'the queue is cleared while %s can still report the pool as open: an object added or returned in between stays in the closed pool' % w, construct='close:order:' + w)
        rets = can.exits()['return']
        for x in [y for y, w in closes] + clears:
            esc = can.reach([0], ('normal',), avoid=[x.idx])
            ctx.ob('R12.2', 'every path of close() performs the step', not any(e in esc for e in rets), ctx.where(c, x.term.line), '', construct='close:allpaths')
    # clear(): counters reduced by the number dropped, under the queue lock
    if r.CLEAR is not None:
        cl = r.CLEAR
        lan = prog.an(cl)
        ctx.saw(cl)
        qs = r.queue_calls(cl)
        clr = [x for x, m in qs if m == 'clear']
        subs = r.atomic_calls(cl, r.SIZE) + r.atomic_calls(cl, r.AVAIL)
        ok = len(clr) == 1 and len(subs) == 2 and all(op == 'fetch_sub' and 'len' in amt for _, op, amt in subs) and all(lan.dominates(x[0].idx, clr[0].idx) for x in subs)
        ctx.ob('R12.2', 'clear() reduces size and available by the number of objects it drops', ok, ctx.where(cl), str([(op, amt) for _, op, amt in subs]), construct='clear:counters')
    # the return path: clean-up after the push
    d = r.OBJ_DROP
    dan = prog.an(d)
    ctx.saw(d)
    pushes = [x for x, m in r.queue_calls(d) if m == 'push']
    reg = prog.region([d.path])
    cu = [x for x in d.blocks if x.term.kind == 'call' and not x.cleanup and x.term.rcallee in prog.bodies and r.CLEAR is not None and
          r.CLEAR.path in prog.region([x.term.rcallee])]
    ok = len(pushes) == 1 and len(cu) >= 1 and all(dan.dominates(pushes[0].idx, x.idx) for x in cu)
    ctx.ob('R12.2', 'an object returned to a closed pool is dropped (clean-up follows the push)', ok, ctx.where(d), '', construct='return:cleanup')
    adds = r.sem_calls(d, 'add_permits', 'SEM')
    if cu and adds:
        ctx.ob('R12.2', 'clean-up is the last step of the return path', all(dan.dominates(a.idx, x.idx) for a, w in adds for x in cu), ctx.where(d), '', construct='return:cleanup-last')

    from .rules_C05 import cleanup_unconditional
    cleanup_unconditional(ctx, r, 'R12.2')

    publish_guard(ctx, r, 'R12.4')

    # ---- R12.3 Closed mapping ---------------------------------------------------------------------------
    UERR = 'deadpool::unmanaged::errors::PoolError'
    for b in (r.TRY_GET, r.TIMEOUT_GET, r.TRY_ADD, r.ADD):
        an = prog.an(b)
        ctx.saw(b)
        cl = [c_ for bb, c_, k in prog.callgraph().get(b.path, []) if k in ('closure', 'fnref') and c_ in prog.bodies and c_.startswith(('deadpool::unmanaged', '<deadpool::unmanaged'))]
        for body in [b] + [prog.bodies[x] for x in cl]:
            ban = prog.an(body)
            for x in body.blocks:
                if x.term.kind == 'switch' and x.term.j.get('adt') == 'tokio::sync::TryAcquireError':
                    arms = dict(x.term.switch_arms())
                    for lab in ('Closed', 'NoPermits'):
                        if lab not in arms:
                            continue
                        others = [t for l2, t in arms.items() if l2 != lab and t != arms[lab]]
                        reach = ban.reach([arms[lab]], ('normal',), avoid=others)
                        made = sorted({s.rv.j['variant'] for y in reach for s in body.blocks[y].stmts if s.kind == 'assign' and s.rv.kind == 'agg' and s.rv.j.get('adt') == UERR
                                       and not any(y in ban.reach([o], ('normal',), avoid=[arms[lab]]) for o in others)})
                        want = ['Closed'] if lab == 'Closed' else ['Timeout']
                        ctx.ob('R12.3', '%s: try_acquire %s maps to %s' % (b.name.split('::')[3], lab, want[0]), made == want, ctx.where(body, x.term.line), 'constructs %s' % made,
                               construct='map:%s:%s' % (b.name, lab))
        # closures given to map_err on an AcquireError (blocking acquire): |_| Closed
        for cp in cl:
            cb = prog.bodies[cp]
            if any(x.term.kind == 'switch' and x.term.j.get('adt') == 'tokio::sync::TryAcquireError' for x in cb.blocks):
                continue
            arg_tys = [l['ty'] for l in cb.locals[1:cb.arg_count + 1]]
            if any((adt_of(t_.lstrip('&')) or '').endswith('::AcquireError') for t_ in arg_tys):
                made = sorted({s.rv.j['variant'] for y in cb.blocks for s in y.stmts if s.kind == 'assign' and s.rv.kind == 'agg' and s.rv.j.get('adt') == UERR})
                ctx.ob('R12.3', 'a failed blocking acquire maps to Closed', made == ['Closed'], ctx.where(cb), 'constructs %s' % made, construct='map-acquire:' + cb.name)
    timeout_only_from_semaphore(ctx, r, 'R12.3', (r.TRY_GET, r.TIMEOUT_GET, r.TRY_ADD, r.ADD), floor=2)
    # the error of a (timed or untimed) waiting acquire is the pool being closed: it is mapped, never discarded (`.ok()`,
    # `and_then(Result::ok)`, `unwrap_or..` turn Closed into whatever comes next - usually Timeout)
    DISCARD = {'std::result::Result::ok', 'std::result::Result::unwrap_or', 'std::result::Result::unwrap_or_default', 'std::result::Result::unwrap_or_else', 'std::result::Result::is_ok', 'std::result::Result::is_err'}
    for b in (r.TRY_GET, r.TIMEOUT_GET, r.TRY_ADD, r.ADD):
        ban = prog.an(b)
        for x in b.blocks:
            t = x.term
            if t.kind != 'call' or x.cleanup or not t.args:
                continue
            direct = bool(t.callee_names() & DISCARD)
            by_name = any(a.kind == 'const' and a.const.get('fn') and strip_generics(a.const.get('rfn') or a.const['fn']) in DISCARD for a in t.args)
            if not (direct or by_name):
                continue
            src = sources(ban, t.args[0], deep=True)
            if any(q[0] == 'call' and q[1] in ('tokio::sync::Semaphore::acquire', 'tokio::sync::Semaphore::acquire_many', 'tokio::sync::Semaphore::acquire_owned') for q in src):
                ctx.ob('R12.3', 'the error of a waiting acquire (the pool was closed) is mapped, never discarded', False, ctx.where(b, t.line),
                       '%s drops the AcquireError: a waiter woken by close() is told something other than Closed' % sorted(t.callee_names())[0], construct='acquire-error-discarded:' + b.name)
    # ---- R12.5 which primitive each (timeout, runtime) combination reaches: a zero timeout never touches the timer (which
    # panics outside a runtime context), a non-zero one without runtime is a reported error (table shared with C10)
    from .rules_C10 import unmanaged_timeout_table
    unmanaged_timeout_table(ctx, 'R12.5')

    ctx.not_decided += ['that tokio wakes all waiters on close() (trusted)', 'user Drop of T runs under the queue lock inside clear() (noted, outside the property)']
    ctx.assumptions += ['a std Vec never holds more than isize::MAX elements', 'tokio Semaphore::close semantics']


def timeout_only_from_semaphore(ctx, r, RULE, bodies_, floor=1):
    """PoolError::Timeout is only ever built on the NoPermits arm of a try_acquire or as the deadline of a timed acquire (shared by C12
    and C05: a refusal decided by anything else - a counter, a flag - is wrong whenever that thing and the semaphore disagree)"""
    prog = ctx.prog
    UERR = 'deadpool::unmanaged::errors::PoolError'
    # ---- (R12.3 cont. / R05.5 cont.) Timeout is only ever decided by the semaphore (which also knows that the pool is closed) -------
    # a Timeout built anywhere else (a counter-based fast path, say) answers Timeout on a closed pool, where Closed is owed
    n_to = 0
    for b in bodies_:
        cl = [c_ for bb, c_, k in prog.callgraph().get(b.path, []) if k in ('closure', 'fnref') and c_ in prog.bodies and c_.startswith(('deadpool::unmanaged', '<deadpool::unmanaged'))]
        for body in [b] + [prog.bodies[x] for x in cl if x in prog.bodies]:
            ban = prog.an(body)
            nop = set()
            for x in body.blocks:
                if x.term.kind == 'switch' and x.term.j.get('adt') == 'tokio::sync::TryAcquireError':
                    arms = dict(x.term.switch_arms())
                    if 'NoPermits' in arms:
                        others = [t_ for l2, t_ in arms.items() if l2 != 'NoPermits' and t_ != arms['NoPermits']]
                        nop |= ban.reach([arms['NoPermits']], ('normal',), avoid=others)
            for y in body.blocks:
                if y.cleanup:
                    continue
                for s in y.stmts:
                    if s.kind == 'assign' and s.rv.kind == 'agg' and s.rv.j.get('adt') == UERR and s.rv.j['variant'] == 'Timeout':
                        n_to += 1
                        ok = y.idx in nop
                        if not ok and s.place.is_local():
                            # `runtime.timeout(d, acquire).await.ok_or(PoolError::Timeout)`: the deadline of a blocking acquire
                            for z in body.blocks:
                                if z.term.kind == 'call' and not z.cleanup and 'std::option::Option::ok_or' in z.term.callee_names() and len(z.term.args) == 2 and \
                                        any(q[0] == 'agg' and q[2] == y.idx for q in sources(ban, z.term.args[1])) and \
                                        any(q[0] == 'call' and q[1] == 'deadpool_runtime::Runtime::timeout' for q in sources(ban, z.term.args[0], deep=True)):
                                    ok = True
                            # the same in the normal form (ok_or written out): the value is used on the None arm of the timer's answer
                            for z in body.blocks:
                                tz = z.term
                                if tz.kind == 'switch' and not z.cleanup and tz.j.get('adt') == 'std::option::Option' and 'on' in tz.j and \
                                        any(q[0] == 'call' and q[1] == 'deadpool_runtime::Runtime::timeout' for q in sources(ban, Operand({'c': tz.j['on']}), deep=True)):
                                    arms_ = dict(tz.switch_arms())
                                    none_only = ban.reach([arms_['None']], ('normal',), avoid=[arms_.get('Some')]) if 'None' in arms_ else set()
                                    users = [w_.idx for w_ in body.blocks if not w_.cleanup for st_ in w_.stmts if st_.kind == 'assign' and st_.rv.kind == 'agg' and st_.rv.j.get('adt') == 'std::result::Result'
                                             and st_.rv.j.get('variant') == 'Err' and any(o_.kind != 'const' and any(q[0] == 'agg' and q[2] == y.idx and q[1].endswith('::Timeout') for q in sources(ban, o_)) for o_ in st_.rv.ops)]
                                    if users and all(u_ in none_only for u_ in users):
                                        ok = True
                        ctx.ob(RULE, 'Timeout is decided by the semaphore only (NoPermits, or the deadline of a blocking acquire)', ok, ctx.where(body, s.line),
                               'PoolError::Timeout is built without the semaphore having been consulted: on a closed pool this call answers Timeout where Closed is owed' if not ok else '',
                               construct='timeout-without-semaphore:' + b.name)
    ctx.floor(RULE, 'constructions of PoolError::Timeout examined', n_to, floor)


def publish_guard(ctx, r, RULE):
    prog = ctx.prog
    # ---- R12.4 an add racing close() must not leave its object in the closed pool ------------------------------
    # close() closes the semaphores and then clears the queue under the queue lock.  An add() that obtained its size
    # permit just before that pushes afterwards; unless the push is decided under the same lock on the pool not being
    # closed (or is followed by the clean-up that the return path performs) the object stays in the closed pool.
    h = r.ADD_HELPER
    han = prog.an(h)
    ctx.saw(h)
    for pblk in [x for x, m in r.queue_calls(h) if m == 'push']:
        gl = [i for i, l in enumerate(h.locals) if l['ty'].startswith('std::sync::MutexGuard<')]
        guarded = False
        for d_ in sorted(han.doms(('normal',)).get(pblk.idx) or ()):
            sw = h.blocks[d_]
            if sw.term.kind != 'switch' or sw.term.j.get('dty') != 'bool':
                continue
            src = sources(han, sw.term.discr)
            if not any(s[0] == 'call' and (s[1].endswith('is_closed') or s[1].endswith('try_acquire_many')) for s in src):
                continue
            arms = dict(sw.term.switch_arms())
            only_false = pblk.idx in han.reach([arms['false']], ('normal',), avoid=[arms['true']]) and pblk.idx not in han.reach([arms['true']], ('normal',), avoid=[arms['false']])
            st = han.state_at_term(d_)
            # the closed test itself runs while the queue guard is live
            test_calls = [s[2] for s in src if s[0] == 'call' and (s[1].endswith('is_closed') or s[1].endswith('try_acquire_many'))]
            under = all((han.state_at_term(tc) or (0, 0))[0] & sum(1 << g for g in gl) for tc in test_calls)
            if only_false and under:
                guarded = True
        followed = False
        reg_clear = [x for x in h.blocks if x.term.kind == 'call' and not x.cleanup and x.term.rcallee in prog.bodies and r.CLEAR is not None and r.CLEAR.path in prog.region([x.term.rcallee])]
        if reg_clear:
            rets = han.exits()['return']
            esc = han.reach_after(pblk.idx, ('normal',), avoid=[x.idx for x in reg_clear])
            followed = not any(e in esc for e in rets)
        ctx.ob(RULE, 'a new object is published only into an open pool (decided under the queue lock) or cleaned up afterwards', guarded or followed, ctx.where(h, pblk.term.line),
               'add()/try_add() racing close(): the size permit is obtained before close() closes the semaphore, the object is pushed after close() cleared the queue and stays in the closed pool'
               if not (guarded or followed) else '', construct='add-vs-close:publish-into-closed-pool', sites=[ctx.where(h, pblk.term.line)])


"""C13 - per-object metrics tell the truth (decided by statement order)."""
from .mcommon import *
from .roles import classify_write, adt_of
from .facts import strip_generics, Operand, Place
from .analysis import sources, success_edges, reach_without_edges
from .rules_C04 import hook_roles, apply_calls, hook_steps

TECHNIQUE = 'field-write inventory of Metrics, dominance of the writes by every callback that receives &Metrics and by the success edges of the recycle steps, def-use origin of the metrics passed to retain predicates'
LEVEL_TEXT = 'static analysis of every write to a Metrics field and every path of the recycler'
EXPLANATION = ('Decided: created is written only by the constructor of Metrics; recycle_count only by a += 1 in the recycler; recycled only '
               'there and (as None) in the constructor; Metrics::default() is called only by the creator; both recycler writes lie after the '
               'success edge of the post_recycle hooks, after every callback that receives &Metrics, dominate ready(), and are on no error / '
               'cancel / unwind path; retain() passes the stored metrics of the queue element; the return path never touches metrics.')

METRICS = 'deadpool::managed::metrics::Metrics'


class _FieldWrite:
    """a field write that a functional update of the whole struct stands for (quacks like the assign statement)"""
    def __init__(self, stmt, op):
        self.kind = 'assign'; self.line = stmt.line; self.place = stmt.place
        class _RV:
            pass
        self.rv = _RV(); self.rv.ops = [op]; self.rv.kind = 'use'


def _field_chain(an, op, depth=0):
    """follow an operand through plain moves: ((owner, field) it reads, None) for a copy of a field, ((owner, field), ('add', k))
    for `field + k` (checked or not), (None, None) otherwise"""
    if op.kind == 'const' or depth > 8:
        return None, None
    p = op.place
    lf = p.last_field()
    if lf and not (len(p.proj) == 1 and p.proj[0] in ('.0', '.1') and an.b.locals[p.local]['ty'].startswith('(')):
        return lf, None
    ds = an.defs(p.local)
    if len(ds) != 1 or ds[0][0] != 'stmt':
        return None, None
    rv = ds[0][3].rv
    if rv.kind == 'use':
        return _field_chain(an, rv.ops[0], depth + 1)
    if rv.kind == 'bin' and str(rv.binop).startswith('Add') and rv.ops[1].kind == 'const':
        root, how = _field_chain(an, rv.ops[0], depth + 1)
        if root and how is None:
            return root, ('add', str(rv.ops[1].const.get('v')))
    return None, None


def _metrics_aggregate(an, op, depth=0):
    """the `Metrics { .. }` aggregate statement an operand is a (moved) copy of, or None"""
    if op.kind == 'const' or op.place.proj or depth > 6:
        return None
    ds = an.defs(op.place.local)
    if len(ds) != 1 or ds[0][0] != 'stmt':
        return None
    rv = ds[0][3].rv
    if rv.kind == 'agg' and rv.j.get('adt') == METRICS:
        return ds[0][3]
    if rv.kind == 'use':
        return _metrics_aggregate(an, rv.ops[0], depth + 1)
    return None


def run(ctx):
    r = roles(ctx)
    prog = ctx.prog
    H = hook_roles(ctx, r)
    recs = [prog.bodies[p] for p in r.GETTER if manager_calls(prog.bodies[p], MANAGER_RECYCLE)]
    cres = [prog.bodies[p] for p in r.GETTER if manager_calls(prog.bodies[p], MANAGER_CREATE)]
    if len(recs) != 1 or len(cres) != 1:
        ctx.undecide('R13', 'recycler / creator not unique'); return
    rec, cre = recs[0], cres[0]
    ctx.saw(rec); ctx.saw(cre)

    # ---- R13.1 write inventory ------------------------------------------------------------------
    writes = []
    updates = set()
    core = [b for b in prog.bodies.values() if b.path.startswith('deadpool::') or b.path.startswith('<deadpool::')]
    for b in core:
        ban = prog.an(b)
        for blk in b.blocks:
            if blk.cleanup:
                continue
            for s in blk.stmts:
                if s.kind == 'assign' and s.place.proj:
                    lf = s.place.last_field()
                    if lf and lf[0] == METRICS:
                        writes.append((b, blk, s, lf[1], classify_write(ban, s)))
                    # whole-struct overwrite of an ObjectInner.metrics field: a functional update `m = Metrics { f: .., ..m }` is read
                    # as the field writes it stands for (fields carried over unchanged are no writes)
                    if lf and lf == (r.OBJINNER, 'metrics'):
                        agg = _metrics_aggregate(ban, s.rv.ops[0]) if s.rv.ops else None
                        if agg is None:
                            writes.append((b, blk, s, '*', ('=', ban.resolve_operand(s.rv.ops[0]) if s.rv.ops else '')))
                        else:
                            updates.add(id(agg))
                            for fname, op in zip(agg.rv.j['fields'], agg.rv.ops):
                                root_, how_ = _field_chain(ban, op)
                                if root_ == (METRICS, fname) and how_ is None:
                                    continue          # carried over (`..self`)
                                cw = ('=', '')
                                if root_ == (METRICS, fname) and how_ is not None and how_[0] == 'add':
                                    cw = ('+=', how_[1])
                                writes.append((b, blk, _FieldWrite(s, op), fname, cw))
    got = sorted((b.name, f, op, v if op != '=' else '') for b, blk, s, f, (op, v) in writes)
    exp = sorted([(rec.name, 'recycle_count', '+=', '1_usize'), (rec.name, 'recycled', '=', '')])
    ctx.ob('R13.1', 'Metrics fields are written only in the recycler (recycle_count += 1, recycled = ..)', got == exp, ctx.where(rec),
           'found %s' % got, construct='metrics-writes', sites=[str(x) for x in got])
    for b, blk, s, f, (op, v) in writes:
        if f == 'recycled':
            src = sources(prog.an(b), s.rv.ops[0], deep=True)
            ok = any(x[0] == 'call' and x[1] == 'std::time::Instant::now' for x in src) and any(x[0] == 'agg' and x[1].endswith('Option::Some') for x in src)
            ctx.ob('R13.1', 'recycled is set to Some(Instant::now())', ok, ctx.where(b, s.line), str(sorted(src)), construct='metrics-recycled-value')
    # constructors of Metrics
    cons = []
    for b in core:
        for blk in b.blocks:
            for s in blk.stmts:
                if s.kind == 'assign' and s.rv.kind == 'agg' and s.rv.j.get('adt') == METRICS and not blk.cleanup and id(s) not in updates:
                    cons.append((b, s))
    okc = len(cons) == 1 and cons[0][0].path == '<deadpool::managed::metrics::Metrics as std::default::Default>::default'
    ctx.ob('R13.1', 'Metrics is constructed only by Default::default', okc, '', str([(b.name, s.line) for b, s in cons]), construct='metrics-construct')
    if okc:
        b, s = cons[0]
        ban = prog.an(b)
        f = dict(zip(s.rv.j['fields'], s.rv.ops))
        ctx.ob('R13.1', 'a new object starts with recycle_count 0, recycled None, created now',
               ban.resolve_operand(f['recycle_count']) == '0_usize' and 'None' in ban.resolve_operand(f['recycled']) and
               any(x[0] == 'call' and x[1] == 'std::time::Instant::now' for x in sources(ban, f['created'])), ctx.where(b, s.line),
               '%s' % {k: ban.resolve_operand(v) for k, v in f.items()}, construct='metrics-initial')
    dcalls = []
    for b in core:
        for blk in b.blocks:
            if blk.term.kind == 'call' and not blk.cleanup and blk.term.rcallee == '<deadpool::managed::metrics::Metrics as std::default::Default>::default':
                dcalls.append(b.name)
    ctx.ob('R13.1', 'Metrics::default() is called only when an object is created', dcalls == [cre.name], '', str(dcalls), construct='metrics-default-calls')

    # ---- R13.2 order in the recycler ------------------------------------------------------------------
    ran = prog.an(rec)
    wblocks = sorted({blk.idx for b, blk, s, f, w in writes if b.path == rec.path})
    post, post_vac = hook_steps(prog, r, rec, H['post_recycle'])
    pre, pre_vac = hook_steps(prog, r, rec, H['pre_recycle'])
    mrec = manager_calls(rec, MANAGER_RECYCLE)
    readies = [blk for blk in rec.blocks if blk.term.kind == 'call' and not blk.cleanup and blk.term.args and blk.term.args[0].kind == 'move'
               and adt_of(rec.locals[blk.term.args[0].place.local]['ty']) == r.UNREADY and not rec.locals[blk.term.args[0].place.local]['ty'].startswith('&')]
    ok_e, fail_e = success_edges(ran)
    if len(post) == 1 and len(pre) == 1 and len(mrec) == 1 and readies and wblocks:
        for w in wblocks:
            line = rec.blocks[w].stmts[0].line if rec.blocks[w].stmts else rec.blocks[w].term.line
            # (a hook list tested for emptiness is applied vacuously on its empty arm: nobody was there to see the old values)
            for what, blks in (('pre_recycle hooks', pre + pre_vac), ('Manager::recycle', mrec), ('post_recycle hooks', post + post_vac)):
                esc = ran.reach([0], ('normal',), avoid=[x.idx for x in blks])
                ctx.ob('R13.2', 'metrics updated after %s saw the old values' % what, w not in esc and w not in [x.idx for x in blks if x in pre + post + mrec], ctx.where(rec, line),
                       'the write is not dominated by %s' % what, construct='metrics-after:' + what)
            reach = reach_without_edges(ran, post[0].idx, ok_e, ('normal',))
            ctx.ob('R13.2', 'metrics updated only after the post_recycle hooks succeeded', w not in reach, ctx.where(rec, line),
                   'the write is reachable without passing the success branch of the post_recycle result', construct='metrics-success-gate')
            ctx.ob('R13.2', 'metrics updated before the object is handed out', any(ran.dominates(w, rd.idx) for rd in readies), ctx.where(rec, line), '', construct='metrics-before-ready')
            # no failure exit after the write: every normal path from the write reaches ready()
            rets = [bb for bb, cls, det in ran.ret_assignments() if not any(ran.dominates(rd.idx, bb) for rd in readies)]
            after = ran.reach_after(w, ('normal',))
            bad = [bb for bb in rets if bb in after]
            ys = [x for x in after if rec.blocks[x].term.kind == 'yield']
            ctx.ob('R13.2', 'a rejected or cancelled recycle bumps nothing', not bad and not ys, ctx.where(rec, line),
                   'after the write: failure exits %s, suspension points %s' % (bad, ys), construct='metrics-then-fail')
            ctx.ob('R13.2', 'metrics written once per hand-out', not in_cycle(ran, w), ctx.where(rec, line), '', construct='metrics-loop')
    else:
        ctx.undecide('R13.2', 'recycler steps not found (pre %d, recycle %d, post %d, ready %d, writes %d)' % (len(pre), len(mrec), len(post), len(readies), len(wblocks)))
    # the callbacks receive the object's own metrics
    for what, blks in (('Manager::recycle', mrec),):
        for blk in blks:
            src = sources(ran, blk.term.args[2]) if len(blk.term.args) > 2 else set()
            ctx.ob('R13.2', '%s receives the metrics of the object being recycled' % what, ('field', r.OBJINNER + '.metrics') in src, ctx.where(rec, blk.term.line), str(sorted(src)),
                   construct='metrics-arg:' + what)
    ap = prog.body('deadpool::managed::hooks::HookVec::apply::{closure#0}')
    if ap is not None:
        aan = prog.an(ap)
        ctx.saw(ap)
        for blk in ap.blocks:
            if is_dyn_call(blk.term) and not blk.cleanup:
                src = sources(aan, blk.term.args[1]) if len(blk.term.args) > 1 else set()
                ctx.ob('R13.2', 'hooks receive the metrics of the object they are applied to', ('field', r.OBJINNER + '.metrics') in src and ('field', r.OBJINNER + '.obj') in src,
                       ctx.where(ap, blk.term.line), '', construct='metrics-arg:hook')

    # ---- R13.3 retain sees the stored metrics; return path leaves them alone ---------------------------------
    rt = r.RETAIN
    tan = prog.an(rt)
    ctx.saw(rt)
    for blk in rt.blocks:
        if is_dyn_call(blk.term) and not blk.cleanup:
            src = sources(tan, blk.term.args[1])
            ok = ('field', r.OBJINNER + '.metrics') in src and ('field', r.OBJINNER + '.obj') in src and not any(x[0] == 'call' and 'default' in x[1] for x in src)
            ctx.ob('R13.3', 'retain predicate receives the stored metrics of the element', ok, ctx.where(rt, blk.term.line), '', construct='retain-metrics')
    om = prog.body('deadpool::managed::Object::metrics')
    if om is not None:
        oan = prog.an(om)
        src = set()
        for blk in om.blocks:
            for s in blk.stmts:
                if s.kind == 'assign' and s.place.local == 0:
                    src |= sources(oan, s.rv.ops[0]) if s.rv.ops else sources(oan, Operand({'c': {'l': s.rv.place.local, 'pr': list(s.rv.place.proj), 'own': list(s.rv.place.own)}})) if s.rv.place else set()
        ctx.ob('R13.3', 'Object::metrics returns the stored metrics', ('field', r.OBJINNER + '.metrics') in src, ctx.where(om), '', construct='object-metrics')

    ctx.not_decided += ['monotonicity of Instant::now() (std)']
    ctx.assumptions += ['std::time::Instant is monotonic']

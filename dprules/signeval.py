"""A very small abstract interpreter over one function body: integers are tracked as `k * a` (a = one distinguished
input whose SIGN is fixed for the run), named inputs, or constants; comparisons against constants are decided from the
sign; the body is executed along the single feasible path.  Used for status()-like pure functions where the property
is about which quantity (and which sign of it) reaches which output field."""
from .facts import strip_generics


class Unknown(Exception):
    pass


def run(body, an, sign, classify_call, classify_field, pair=None, events=None):
    """execute `body` abstractly with sign(a) = sign in {-1, 0, 1}.
    classify_call(term) -> abstract value or None for calls producing inputs (e.g. the atomic load of `a` -> ('a', 1))
    classify_field(place) -> abstract value or None for field reads.
    returns {field name: abstract value} of the aggregate assigned to _0, values: ('a', k) | ('c', int) | ('in', name)"""
    env = {}
    # pair = (X, Y): two named inputs whose difference a = X - Y is the distinguished quantity (its sign is fixed for the run):
    # X - Y is ('a', 1), Y - X is ('a', -1), comparisons of X and Y are decided by the sign; a plain subtraction that comes out
    # negative under this sign is recorded in `events` as a wrap
    def pair_diff(x, y):
        if pair and x == ('in', pair[0]) and y == ('in', pair[1]):
            return ('a', 1)
        if pair and x == ('in', pair[1]) and y == ('in', pair[0]):
            return ('a', -1)
        return None
    def val(op):
        if op.kind == 'const':
            v = op.const.get('v', '')
            try:
                return ('c', int(str(v).split('_')[0]))
            except ValueError:
                if v in ('true', 'false'):
                    return ('b', v == 'true')
                return ('k', v)
        p = op.place
        if p.proj:
            fv = classify_field(p)
            if fv is not None:
                return fv
            if len(p.proj) == 1 and p.proj[0][1:].isdigit() and isinstance(env.get(p.local), tuple) and env[p.local][0] == 'tuple':
                v_ = env[p.local][1][int(p.proj[0][1:])]
                if v_ is None:
                    raise Unknown('tuple element without a value')
                return v_
            if tuple(p.proj) in (('.0',),) and p.local in env and isinstance(env[p.local], tuple) and env[p.local][0] == 'pair':
                return env[p.local][1]
            if tuple(p.proj) in (('.1',),) and p.local in env and isinstance(env[p.local], tuple) and env[p.local][0] == 'pair':
                return ('b', False)      # overflow flag of a checked operation: not taken (no-wrap rules cover it)
            raise Unknown('read of %r' % p)
        if p.local not in env:
            raise Unknown('read of unset _%d' % p.local)
        return env[p.local]
    def sgn(v):
        if v[0] == 'c':
            return (v[1] > 0) - (v[1] < 0)
        if v[0] == 'a':
            return sign * v[1]
        raise Unknown('sign of %r' % (v,))
    def cmp(op, a, b):
        d_ = pair_diff(a, b)
        if d_ is not None:
            sa = sign * d_[1]          # sign of a - b
            return {'Gt': sa > 0, 'Lt': sa < 0, 'Ge': sa >= 0, 'Le': sa <= 0, 'Eq': sa == 0, 'Ne': sa != 0}[op]
        # only comparisons where one side is the constant 0 or both are constants / multiples of a
        if a[0] in ('a', 'c') and b[0] in ('a', 'c'):
            if b == ('c', 0) or a == ('c', 0) or (a[0] == 'c' and b[0] == 'c'):
                sa, sb = sgn(a), sgn(b)
                if a[0] == 'c' and b[0] == 'c':
                    sa, sb = a[1], b[1]
                return {'Gt': sa > sb, 'Lt': sa < sb, 'Ge': sa >= sb, 'Le': sa <= sb, 'Eq': sa == sb, 'Ne': sa != sb}[op]
            if a[0] == 'a' and b[0] == 'c':
                # a vs a non-zero constant (e.g. isize::MIN in the overflow check of a negation): decided as "not equal / ordinary"
                if op in ('Eq',):
                    return False
                if op in ('Ne',):
                    return True
        raise Unknown('comparison %s of %r and %r' % (op, a, b))
    bb = 0
    steps = 0
    while steps < 400:
        steps += 1
        blk = body.blocks[bb]
        for s in blk.stmts:
            if s.kind != 'assign' or not s.place.is_local():
                continue
            rv = s.rv
            try:
                if rv.kind in ('use',):
                    env[s.place.local] = val(rv.ops[0])
                elif rv.kind == 'cast':
                    env[s.place.local] = val(rv.ops[0])
                elif rv.kind == 'un' and rv.binop == 'Neg':
                    v = val(rv.ops[0])
                    env[s.place.local] = ('a', -v[1]) if v[0] == 'a' else (('c', -v[1]) if v[0] == 'c' else None)
                elif rv.kind == 'un' and rv.binop == 'Not':
                    v = val(rv.ops[0])
                    env[s.place.local] = ('b', not v[1])
                elif rv.kind == 'bin' and rv.binop in ('Gt', 'Lt', 'Ge', 'Le', 'Eq', 'Ne'):
                    env[s.place.local] = ('b', cmp(rv.binop, val(rv.ops[0]), val(rv.ops[1])))
                elif rv.kind == 'bin' and rv.binop.startswith('Sub') and pair_diff(val(rv.ops[0]), val(rv.ops[1])) is not None:
                    r_ = pair_diff(val(rv.ops[0]), val(rv.ops[1]))
                    if sign * r_[1] < 0 and events is not None:
                        events.append(('wrap', s.line))
                    env[s.place.local] = ('pair', r_) if rv.binop.endswith('WithOverflow') else r_
                elif rv.kind == 'bin' and rv.binop.startswith('Sub') and val(rv.ops[0]) == ('c', 0):
                    v = val(rv.ops[1])
                    r_ = ('a', -v[1]) if v[0] == 'a' else ('c', -v[1])
                    env[s.place.local] = ('pair', r_) if rv.binop.endswith('WithOverflow') else r_
                elif rv.kind == 'agg' and s.place.local == 0:
                    return dict(zip(rv.j['fields'], [val(o) for o in rv.ops]))
                elif rv.kind == 'agg' and rv.j.get('ak') == 'tuple':
                    vs = []
                    for o in rv.ops:
                        try:
                            vs.append(val(o))
                        except Unknown:
                            vs.append(None)
                    env[s.place.local] = ('tuple', tuple(vs))
                elif rv.kind == 'agg' and rv.j.get('ak') == 'adt':
                    env[s.place.local] = ('k', 'agg')
                elif rv.kind in ('ref', 'copyderef'):
                    fv = classify_field(rv.place) if rv.place.proj else env.get(rv.place.local)
                    env[s.place.local] = ('ref', rv.place) if fv is None else fv
                else:
                    env[s.place.local] = None
            except Unknown:
                env[s.place.local] = None
        t = blk.term
        if t.kind == 'goto':
            bb = t.target
        elif t.kind == 'switch':
            v = val(t.discr)
            if v is None or v[0] != 'b':
                raise Unknown('switch on %r' % (v,))
            arms = dict(t.switch_arms())
            bb = arms['true' if v[1] else 'false']
        elif t.kind == 'assert':
            bb = t.target
        elif t.kind == 'call':
            cv = classify_call(t, env)
            if t.dest is not None and t.dest.is_local():
                env[t.dest.local] = cv
            if t.target is None:
                raise Unknown('diverging call')
            bb = t.target
        elif t.kind == 'drop':
            bb = t.target
        elif t.kind == 'return':
            raise Unknown('return without a Status aggregate')
        else:
            raise Unknown('terminator %s' % t.kind)
    raise Unknown('did not terminate')

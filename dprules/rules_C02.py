"""C02 - no capacity is ever lost, no waiter stranded, get() never panics / deadlocks."""
import re
from .mcommon import *
from .roles import PERMIT_ADT, classify_write, adt_of
from .facts import strip_generics, Operand
from .analysis import sources
from . import rules_C01
from . import preds
from . import poscontrol

TECHNIQUE = 'MIR event-CFG rules: permit typestate, must-pass-through on return/take paths, panic-site inventory, lock-region analysis (may-init dataflow of MutexGuard locals)'
LEVEL_TEXT = 'static analysis of every path of getter / return / take; lock discipline over the whole managed module'
EXPLANATION = ('Decided on the current tree: a permit leaves circulation only together with an Object (C01 typestate rules '
               're-evaluated); every end of an Object with a live pool passes exactly one of {add_permits(1), surplus branch}; a '
               'failed recycle returns the try-next value and the getter loops with the same permit; the panic sites reachable '
               'from get/drop/take are exactly the allow-listed ones (lock poisoning, typestate-guarded Option::unwrap, size '
               'arithmetic); while a MutexGuard of the slots is live there is no suspension point, no second lock acquisition and '
               'no call into user code except the documented ones.')

UNDER_LOCK_OK_PREFIX = (
    'std::collections::VecDeque::', '<std::collections::VecDeque', 'std::vec::Vec::', '<std::vec::Vec',
    '<std::sync::MutexGuard', '<std::sync::Arc', 'std::mem::drop', 'std::option::Option::', 'std::result::Result::',
    'std::sync::atomic::', '<std::collections::vec_deque::', 'std::iter::', '<I as std::iter::IntoIterator>',
    'std::ops::Index', 'std::ops::IndexMut', 'tokio::sync::Semaphore::', 'tokio::sync::SemaphorePermit::forget',
    'std::ops::Deref', 'std::ops::DerefMut', 'std::iter::Iterator::', 'std::iter::IntoIterator::',
    'std::vec::Vec::<T>::', 'std::convert::', 'std::clone::Clone::clone', 'std::collections::vec_deque::',
    'std::cmp::', 'core::num::', 'std::num::',       # integer comparisons and arithmetic helpers
)

# user code that is allowed to run while the slots lock is held: (function, callee) -> reason
USER_UNDER_LOCK_ALLOWED = {
    ('deadpool::managed::Pool::retain', 'dyn:call_mut'): 'documented: "This function blocks the entire pool while it is running"',
    ('deadpool::managed::Pool::retain', 'detach'): 'detach of a removed idle object inside the documented critical section of retain()',
    ('deadpool::managed::Pool::resize', 'detach'): 'detach of an idle object released by a shrink (fix D2), same critical section as the size update',
    ('deadpool::managed::Pool::close', 'detach'): 'detach of a leftover idle object released by close() (fix D6)',
}


def guard_locals(body):
    return [i for i, l in enumerate(body.locals) if 'std::sync::MutexGuard' in l['parts']['adts'] and not l['ty'].startswith('&')]


def lockers(prog, bodies):
    """local bodies that (transitively) acquire a std Mutex"""
    direct = set()
    for b in bodies:
        if calls_named(b, ['std::sync::Mutex::lock', 'std::sync::Mutex::try_lock']):
            direct.add(b.path)
    cg = prog.callgraph()
    changed = True
    res = set(direct)
    while changed:
        changed = False
        for b in bodies:
            if b.path in res:
                continue
            for bb, c, k in cg.get(b.path, []):
                if c in res and k == 'call':
                    res.add(b.path); changed = True; break
    return res


def run(ctx):
    r = roles(ctx)
    prog = ctx.prog
    # ---- R02.1 = C01 permit typestate --------------------------------------
    n0 = len(ctx.obs)
    rules_C01.run(ctx, with_resize=False)
    for o in ctx.obs[n0:]:
        o['rule'] = 'R02.1/' + o['rule']
    ctx.not_decided.clear()
    # ---- R02.9 = the shrink / grow ledger of resize(), the other place where permits leave or enter circulation
    # (the capacity-ledger rule R07.5 itself is C07's known finding D1 and is not repeated here)
    from . import rules_C07
    n0 = len(ctx.obs)
    rules_C07.run(ctx)
    keep = ctx.obs[:n0]
    for o in ctx.obs[n0:]:
        if o['rule'] == 'R07.5':
            continue
        o['rule'] = 'R02.9/' + o['rule']
        keep.append(o)
    ctx.obs[:] = keep
    ctx.not_decided.clear()

    # ---- R02.2 every end of an Object gives the capacity back exactly once ---
    for helpers, root, what in ((r.RETURN, r.OBJ_DROP, 'Object::drop'), (r.TAKE, r.OBJ_TAKE, 'Object::take')):
        ctx.saw(root)
        ran = prog.an(root)
        hs = [h for h in helpers if h.path != root.path]
        if not hs:
            ctx.undecide('R02.2', 'no helper bound for ' + what); continue
        # the public entry reaches the helper whenever the pool is alive: on the Some arm of the upgrade
        hcalls = [blk for blk in root.blocks if blk.term.kind == 'call' and blk.term.rcallee in {h.path for h in hs}]
        ctx.ob('R02.2', '%s hands the object to the pool helper' % what, len(hcalls) >= 1, ctx.where(root),
               'no call of the return/take helper', construct='%s:helper-call' % what, sites=[ctx.where(root, b.term.line) for b in hcalls])
        for h in hs:
            ctx.saw(h)
            han = prog.an(h)
            adds = [blk.idx for blk in h.blocks if r.is_sem_call(h, blk.term, 'add_permits')]
            # surplus arms: targets of bool switches on which size>max (or size>=max after the decrement) holds
            surplus = []
            for blk in h.blocks:
                if blk.term.kind == 'switch':
                    for lab, tgt in blk.term.switch_arms():
                        rel = cmp_relation(han, r, blk, lab)
                        if rel and rel[0] in ('size>max', 'size>=max'):
                            surplus.append(tgt)
            rets = han.exits()['return']
            esc = han.reach([0], ('normal',), avoid=adds + surplus)
            ok = bool(adds) and not any(x in esc for x in rets)
            ctx.ob('R02.2', 'every path of the helper returns the permit or takes the surplus branch', ok, ctx.where(h),
                   'a path through %s reaches its return without add_permits and without the size>max_size branch' % h.name if not ok else '',
                   construct='%s:capacity-returned' % what, sites=[ctx.where(h, h.blocks[a].term.line) for a in adds])
            # the surplus branch itself must shrink size (otherwise the slot is lost)
            decs = [bb for bb, i, s in r.field_writes(h, r.SLOTS, r.SIZE) if classify_write(han, s)[0] == '-=']
            for sblk in surplus:
                reach = han.reach([sblk], ('normal',))
                hit = any(d in reach for d in decs) or any(han.dominates(d, sblk) for d in decs)
                ctx.ob('R02.2', 'surplus branch releases the size slot', hit, ctx.where(h, h.blocks[sblk].term.line), '',
                       construct='%s:surplus-size' % what)

    # ---- R02.8 a panicking Manager::detach cannot skip the release of the size slot ---------------
    # (outside retain(), whose callbacks run under the lock and poison the pool anyway - documented)
    for b in [r.UNREADY_DROP, r.RESIZE, r.CLOSE] + [h for h in r.RETURN + r.TAKE if h.path not in (r.OBJ_DROP.path, r.OBJ_TAKE.path)]:
        ban = prog.an(b)
        decs = [bb for bb, i, s in r.field_writes(b, r.SLOTS, r.SIZE) if classify_write(ban, s)[0] == '-=']
        for d in manager_calls(b, MANAGER_DETACH):
            # every path to the callback has released the slot (one decrement that dominates it, or one on each branch)
            ok = bool(decs) and d.idx not in ban.reach([0], ('normal',), avoid=decs)
            ctx.ob('R02.8', 'size slot released before the detach callback runs', ok, ctx.where(b, d.term.line),
                   'Manager::detach is called before `size -= 1`: if it panics the slot is never released and one unit of capacity is lost for good' if not ok else '',
                   construct='detach-before-size:' + b.name)

    # ---- R02.3 a failed recycle does not end the call ------------------------
    recs = [prog.bodies[p] for p in r.GETTER if manager_calls(prog.bodies[p], MANAGER_RECYCLE)]
    if len(recs) != 1:
        ctx.undecide('R02.3', 'expected one body calling Manager::recycle in the getter, found %d' % len(recs))
    else:
        rec = recs[0]
        ctx.saw(rec)
        ran = prog.an(rec)
        n_none = 0
        for bb, cls, det in ran.ret_assignments():
            blk = rec.blocks[bb]
            st = [s for s in blk.stmts if s.kind == 'assign' and s.place.local == 0 and s.place.is_local()]
            desc = ran.resolve_operand(st[-1].rv.ops[0]) if st and st[-1].rv.ops else det
            if cls == 'ok':
                if 'None' in desc:
                    n_none += 1
                continue
            # error returns: only the usage error NoRuntimeSpecified may end the call
            ok = 'NoRuntimeSpecified' in desc
            ctx.ob('R02.3', 'recycler failure returns the try-next value, not an error', ok, ctx.where(rec, blk.term.line),
                   'recycler returns `%s`: a rejected idle object would end get() instead of moving on' % desc if not ok else '',
                   construct='recycler:error-return:' + desc.split('{')[0])
        ctx.floor('R02.3', 'try-next (Ok(None)) exits of the recycler', n_none, 3)
        # in the root: the None value leads back to the pops with the permit still held
        root = r.TIMEOUT_GET
        an = prog.an(root)
        pops = [blk.idx for blk, m in queue_calls(r, root, an) if m.startswith('pop')]
        sw = [blk for blk in root.blocks if blk.term.kind == 'switch' and blk.term.j.get('adt') == 'std::option::Option'
              and 'on' in blk.term.j and adt_of(Place(blk.term.j['on']).ty.replace('std::option::Option<', '', 1)) == r.OBJINNER
              and any(blk.idx in an.reach_after(p, ('normal',)) for p in pops)]
        def from_pop(s):
            src = sources(an, Operand({'c': s.term.j['on']}))
            return any(x[0] == 'call' and 'VecDeque::pop' in x[1] for x in src)
        loop_sw = [s for s in sw if not from_pop(s)]
        ctx.floor('R02.3', 'loop-continue tests in timeout_get', len(loop_sw), 1)
        for s in loop_sw:
            none = dict(s.term.switch_arms()).get('None')
            reach = an.reach([none], ('normal',), avoid=pops)
            rets = an.exits()['return']
            ok = none is not None and not any(x in reach for x in rets) and any(p in an.reach([none], ('normal',)) for p in pops)
            ctx.ob('R02.3', 'try-next leads back to the idle queue', ok, ctx.where(root, s.term.line),
                   'the None result of a recycle/create attempt can leave the loop' if not ok else '', construct='getter:loop-continue')

    # ---- R02.4 panic-site inventory -------------------------------------------
    roots = [r.TIMEOUT_GET.path, r.GET.path, r.OBJ_DROP.path, r.OBJ_TAKE.path, r.UNREADY_DROP.path]
    dg = [b.path for b in prog.bodies.values() if b.j.get('impl_trait') == 'std::ops::Drop' and adt_of(b.j.get('impl_self', '')) == r.DROPGUARD]
    region = prog.region(roots + dg)
    n_sites = 0
    for p in sorted(region):
        b = prog.bodies[p]
        if not (p.startswith('deadpool::managed') or p.startswith('<deadpool::managed') or (' as deadpool::managed::' in p.split('>::')[0] and str(prog.bodies[p].file).startswith('src/'))):
            continue
        ctx.saw(b)
        ban = prog.an(b)
        for blk in b.blocks:
            if blk.cleanup:
                continue
            t = blk.term
            if t.kind == 'assert':
                msg = t.j['msg']
                n_sites += 1
                if msg.startswith('overflow'):
                    # arithmetic on the size counter / metrics counter: discharged by the pairing rules of C11
                    ok = _assert_on_field(ban, b, blk, {(r.SLOTS, r.SIZE), ('deadpool::managed::metrics::Metrics', 'recycle_count')})
                    ctx.ob('R02.4', 'overflow check only on paired counters', ok, ctx.where(b, t.line),
                           'arithmetic overflow check on an unexpected value' if not ok else '', construct='panic:overflow:' + b.name)
                elif msg.startswith('bounds') and _bounds_assert_safe(ban, b, blk, r.crate):
                    ctx.count('bounds_checks_discharged')          # `table[kind as usize]` with a table at least as long as the enum has variants
                else:
                    ctx.ob('R02.4', 'no other assert', False, ctx.where(b, t.line), 'assert(%s) reachable from get()/drop/take' % msg,
                           construct='panic:%s:%s' % (msg, b.name))
            if t.kind != 'call':
                continue
            names = t.callee_names()
            if names & {'std::result::Result::unwrap', 'std::result::Result::expect'}:
                n_sites += 1
                src = sources(ban, t.args[0])
                ok = any(s[0] == 'call' and s[1] == 'std::sync::Mutex::lock' for s in src)
                ctx.ob('R02.4', 'Result::unwrap only on Mutex::lock (poison only)', ok, ctx.where(b, t.line),
                       'unwrap() of %s' % ban.resolve_operand(t.args[0]) if not ok else '', construct='panic:result-unwrap:' + b.name)
            elif names & {'std::option::Option::unwrap', 'std::option::Option::expect'}:
                n_sites += 1
                src = sources(ban, t.args[0])
                ok = any(s[0] == 'field' and s[1] in r.STATE_FIELDS for s in src)
                ctx.ob('R02.4', 'Option::unwrap only on the typestate-guarded inner option', ok, ctx.where(b, t.line),
                       'unwrap() of %s can panic inside get()/drop/take' % ban.resolve_operand(t.args[0]) if not ok else '',
                       construct='panic:option-unwrap:' + b.name)
            elif preds.std_panicking(names):
                n_sites += 1
                ctx.ob('R02.4', 'no std call that panics for some argument values', False, ctx.where(b, t.line),
                       '%s panics by contract for some inputs (overflow / out of range): reachable from get()/drop/take' % '/'.join(preds.std_panicking(names)),
                       construct='panic:std:' + b.name)
            elif any(n.startswith('std::rt::begin_panic') or n.startswith('core::panicking') or n.startswith('std::panicking')
                     or n in ('std::process::abort', 'std::process::exit') for n in names):
                n_sites += 1
                # `match state { Full(x) => x, Empty => unreachable!() }` on a typestate field is `state.unwrap()` spelled out
                spelled = False
                for d_ in ban.doms(('normal',)).get(blk.idx) or ():
                    sw_ = b.blocks[d_]
                    ma_ = maybe_arms(r.crate, sw_.term)
                    if ma_ and 'on' in sw_.term.j and any(s_[0] == 'field' and s_[1] in r.STATE_FIELDS for s_ in sources(ban, Operand({'c': sw_.term.j['on']}), deep=True)):
                        full_, empty_ = ma_
                        if blk.idx in ban.reach([empty_], ('normal',), avoid=[full_]) and blk.idx not in ban.reach([full_], ('normal',), avoid=[empty_]):
                            spelled = True
                if spelled:
                    ctx.ob('R02.4', 'Option::unwrap only on the typestate-guarded inner option', True, ctx.where(b, t.line), '', construct='panic:option-unwrap:' + b.name)
                    continue
                ctx.ob('R02.4', 'no explicit panic', False, ctx.where(b, t.line), 'call of %s' % '/'.join(sorted(names)),
                       construct='panic:explicit:' + b.name)
    ctx.count('panic_sites_examined', n_sites)
    ctx.floor('R02.4', 'panic sites examined', n_sites, 8)

    # ---- R02.5 the inner option is emptied only by consuming / final functions ---
    n_take = 0
    for b in managed_bodies(prog):
        ban = prog.an(b)
        for blk in calls_named(b, ['std::option::Option::take', 'std::mem::take', 'std::mem::replace']):
            src = sources(ban, blk.term.args[0]) if blk.term.args else set()
            owners = [s[1] for s in src if s[0] == 'field' and s[1] in r.STATE_FIELDS]
            if not owners:
                continue
            n_take += 1
            is_drop = b.j.get('impl_trait') == 'std::ops::Drop'
            by_value = bool(b.j.get('inputs')) and not b.j['inputs'][0].startswith('&')
            ctx.ob('R02.5', 'inner option emptied only when the wrapper is consumed or dropped', is_drop or by_value, ctx.where(b, blk.term.line),
                   '%s empties %s through a reference: later deref/metrics calls on the same wrapper would panic' % (b.name, owners[0])
                   if not (is_drop or by_value) else '', construct='inner-take:' + b.name)
    ctx.floor('R02.5', 'sites emptying the inner option', n_take, 4)

    # ---- R02.6 / R02.7 lock discipline ---------------------------------------
    ctx.ob('R02.6', 'exactly one mutex in the pool state (no lock order to get wrong)', r.N_MUTEX == 1, '', '%d Mutex fields' % r.N_MUTEX,
           construct='one-mutex')
    mb = managed_bodies(prog)
    lk = lockers(prog, mb)
    n_regions = 0
    afail = {}
    for b in mb:
        gl = guard_locals(b)
        if not gl:
            continue
        ban = prog.an(b)
        ctx.saw(b)
        flow = ban.init_flow()
        gmask = 0
        for g in gl:
            gmask |= 1 << g
        for blk in b.blocks:
            if blk.cleanup:
                continue
            st = ban.state_at_term(blk.idx)
            if st is None:
                continue
            mu, ma = st
            if not (ma & gmask):
                continue
            t = blk.term
            if t.kind == 'yield':
                ctx.ob('R02.6', 'no suspension point while the slots lock is held', False, ctx.where(b, t.line),
                       'await with a live MutexGuard: every other pool operation blocks until the future is polled again',
                       construct='await-under-lock:' + b.name)
            if t.kind != 'call':
                continue
            # the call that consumes the guard (drop(guard)) is not "under" the lock afterwards, but runs with it: fine
            n_regions += 1
            names = t.callee_names()
            if names & {'std::sync::Mutex::lock'}:
                # a lock() whose own result is the only live guard-carrying local is the acquisition itself
                held_before = ma & gmask
                if held_before:
                    ctx.ob('R02.6', 'no second acquisition of the slots lock', False, ctx.where(b, t.line),
                           'Mutex::lock while a guard is live: self-deadlock', construct='relock:' + b.name)
                continue
            callee = t.rcallee
            if callee in lk and callee in prog.bodies:
                ctx.ob('R02.6', 'no call of a locking function while the lock is held', False, ctx.where(b, t.line),
                       'calls %s, which locks the slots again: self-deadlock' % strip_generics(callee), construct='relock-via:%s:%s' % (b.name, strip_generics(callee)))
                continue
            uc = None
            fn = t.func.const.get('fn', '') if t.func.kind == 'const' else ''
            if fn.startswith('deadpool::managed::Manager::'):
                uc = fn.split('::')[-1]
            elif is_dyn_call(t):
                uc = 'dyn:' + strip_generics(fn).split('::')[-1]
            if uc:
                key = (b.name, uc)
                if key in USER_UNDER_LOCK_ALLOWED:
                    ctx.ob('R02.6', 'user code under the lock only at the documented sites', True, ctx.where(b, t.line),
                           USER_UNDER_LOCK_ALLOWED[key], construct='user-under-lock:%s:%s' % key, sites=[ctx.where(b, t.line)])
                    ctx.note('user code (%s) runs under the slots lock in %s: %s' % (uc, b.name, USER_UNDER_LOCK_ALLOWED[key]))
                else:
                    ctx.ob('R02.6', 'user code under the lock only at the documented sites', False, ctx.where(b, t.line),
                           '%s is called while the slots lock is held: a slow or panicking callback blocks or poisons the whole pool' % uc,
                           construct='user-under-lock:%s:%s' % key)
                continue
            ok = any(n.startswith(UNDER_LOCK_OK_PREFIX) for n in names) or (callee in prog.bodies and callee not in lk and _pure_local(prog, callee))
            if not ok and blk.idx in afail.setdefault(b.path, preds.assertion_failure_blocks(b, ban)):
                ctx.count('debug_assertion_failure_calls_under_lock')
                continue          # the failure branch of a debug assertion (assumed to hold): not work done under the lock
            ctx.ob('R02.7', 'only queue / integer operations under the lock', ok, ctx.where(b, t.line),
                   'call of %s while the slots lock is held' % '/'.join(sorted(names)) if not ok else '',
                   construct='under-lock:%s:%s' % (b.name, '/'.join(sorted(names))))
    ctx.count('calls_under_lock', n_regions)
    poscontrol.assert_controls(ctx, ['await-under-lock', 'relock', 'permit-leak', 'panic:pc_explicit_panic'])
    ctx.floor('R02.6', 'calls examined inside lock regions', n_regions, 20)

    ctx.not_decided += [
        'wake-up order and FIFO fairness of the tokio semaphore ("as soon as capacity becomes free")',
        'absence of deadlock beyond the single-lock / no-await-under-lock / no-relock argument',
    ]
    ctx.assumptions += ['tokio Semaphore wakes waiters when permits are added or the semaphore is closed', 'std Mutex poisoning semantics']


def _bounds_assert_safe(an, body, blk, crate):
    """an index check `idx < LEN` that cannot fail: LEN is a constant and idx is `e as usize` of a field-less enum of this crate
    with at most LEN variants (default discriminants 0..n)"""
    t = blk.term
    if t.cond is None or t.cond.kind == 'const' or t.cond.place.proj:
        return False
    d = an.single_def(t.cond.place.local)
    if not (d and d[0] == 'stmt' and d[3].rv.kind == 'bin' and d[3].rv.binop == 'Lt'):
        return False
    idx, ln = d[3].rv.ops
    lv = an.resolve_operand(ln)
    if not re.match(r'^\d+_usize$', lv):
        return False
    n_len = int(lv.split('_')[0])
    op = idx
    for _ in range(8):
        if op.kind == 'const' or op.place.proj:
            return False
        dd = an.single_def(op.place.local)
        if not (dd and dd[0] == 'stmt'):
            return False
        rv = dd[3].rv
        if rv.kind in ('use', 'cast'):
            op = rv.ops[0]; continue
        if rv.kind == 'discr' and not rv.place.proj:
            a_ = crate.adt(adt_of(body.locals[rv.place.local]['ty']) or '')
            return a_ is not None and len(a_.get('variants', [])) <= n_len and all(not v_['fields'] for v_ in a_['variants']) and len(a_['variants']) > 0
        return False
    return False


def _assert_on_field(an, body, blk, fields):
    """does the overflow assert test a checked add/sub whose first operand reads one of `fields`?"""
    t = blk.term
    if t.cond is None or t.cond.kind == 'const':
        return False
    l = t.cond.place.local
    d = an.single_def(l)
    if d and d[0] == 'stmt' and d[3].rv.kind == 'bin':
        for op in d[3].rv.ops:
            # (through one or two plain copies: `_t = copy m.recycle_count; _r = AddWithOverflow(copy _t, 1)`)
            for _ in range(3):
                if op.kind == 'const':
                    break
                for f in op.place.fields():
                    if f in fields:
                        return True
                if op.place.proj:
                    break
                d2 = an.single_def(op.place.local)
                if d2 and d2[0] == 'stmt' and d2[3].rv.kind == 'use':
                    op = d2[3].rv.ops[0]
                else:
                    break
        # usize arithmetic on plain locals (index counters) inside retain etc.
    return False


def _pure_local(prog, callee):
    b = prog.bodies[callee]
    return not user_code_calls(b) and not b.yields()

"""Rule engine plumbing: obligations, violations, known findings, evidence."""
import json, os, sys, time

VERIF = os.path.dirname(os.path.dirname(os.path.abspath(__file__)))


# rules whose obligations read which error variant is built / which exits of a path are failures: the only ones whose alarms are
# withdrawn (-> UNDECIDED) when errors travel in a private type converted at the API boundary (`private_error_boundary`)
ERROR_CLASSIFYING_RULES = {'R02.3', 'R04.4', 'R04.5', 'R05.5', 'R05.7', 'R06.3', 'R06.6', 'R09.4', 'R10.2', 'R10.6', 'R10.7', 'R10.9', 'R12.3', 'R12.5',
                           'R15.2', 'R15.3', 'R15.4', 'R15.5', 'R15.6', 'R19.1'}


class Undecided(Exception):
    """a role or anchor could not be bound / an instance count fell below its floor"""


class Ctx:
    def __init__(self, prop, tier, prog, info):
        self.prop = prop
        self.tier = tier
        self.prog = prog
        self.info = info
        self.obs = []          # every obligation evaluated
        self.notes = []        # INFO lines
        self.undecided = []    # (rule, reason)
        self.roles = {}        # role name -> description (for evidence)
        self.bodies_analysed = set()
        self.counters = {}
        self.not_decided = []
        self.assumptions = []

    # -- recording ---------------------------------------------------------
    def ob(self, rule, instance, ok, where='', detail='', construct=None, sites=None):
        """one rule instance.  `construct` is the role-level key used for known findings."""
        self.obs.append({
            'rule': rule, 'instance': instance, 'ok': bool(ok), 'where': where,
            'detail': detail, 'construct': construct or instance, 'sites': sites or [],
        })
        return bool(ok)

    def note(self, msg):
        self.notes.append(msg)

    def undecide(self, rule, reason):
        self.undecided.append((rule, reason))

    def role(self, name, value):
        self.roles[name] = value

    def count(self, key, n=1):
        self.counters[key] = self.counters.get(key, 0) + n

    def floor(self, rule, what, got, floor):
        """fail closed when a rule matches fewer sites than were confirmed by hand"""
        if got < floor:
            self.undecide(rule, '%s: matched %d site(s), floor is %d (rule would be vacuous)' % (what, got, floor))
            return False
        return True

    def saw(self, body):
        if body is not None:
            self.bodies_analysed.add(body.path)

    def where(self, body, line=None):
        return '%s:%s in %s' % (body.file, line if line is not None else body.line, body.name)


PROP_MODULES = {
    'C14': ('deadpool_sync', 'deadpool_runtime'), 'C15': ('deadpool_sync', 'deadpool_sqlite', 'deadpool_diesel', 'deadpool_r2d2'),
    'C16': ('deadpool_postgres',), 'C18': ('deadpool_postgres',), 'C17': ('deadpool_redis',), 'C19': ('deadpool_redis',),
    'C05': ('deadpool::unmanaged',), 'C12': ('deadpool::unmanaged',), 'C10': ('deadpool::managed', 'deadpool::unmanaged'),
}


def private_error_boundary(prog, prop):
    """private error types of the property's modules that are converted to a public error type by a `From` impl: values of such a
    type become the public error inside std's `from_residual` / `Into::into`, where no rule looks.  Returns [(private, public)]."""
    mods = PROP_MODULES.get(prop, ('deadpool::managed',))
    out = []
    for b in prog.bodies.values():
        if b.j.get('impl_trait') != 'std::convert::From':
            continue
        tref = b.j.get('impl_trait_ref') or ''
        self_ty = (b.j.get('impl_self') or '').split('<')[0]
        src = tref.split(' as std::convert::From<', 1)[-1].split('<')[0].rstrip('>') if ' as std::convert::From<' in tref else ''
        if not src or not any(src.startswith(m) for m in mods):
            continue
        a_src = a_dst = None
        for c in prog.crates.values():
            a_src = a_src or c.adt(src)
            a_dst = a_dst or c.adt(self_ty)
        dst_pub = (a_dst is not None and a_dst.get('vis') == 'pub') or (a_dst is None and self_ty.split('::')[-1].endswith('Error'))      # (a re-exported path is not found by name)
        if a_src is None or a_src.get('vis') == 'pub' or not dst_pub or src == self_ty:
            continue
        # the private type is really used: constructed somewhere in the modules
        used = any(st.kind == 'assign' and st.rv.kind == 'agg' and st.rv.j.get('adt') == src for b2 in prog.bodies.values() if any(b2.path.lstrip('<').startswith(m) for m in mods)
                   for blk in b2.blocks for st in blk.stmts)
        if used:
            out.append((src, self_ty))
    # the same through a conversion function instead of a From impl: `fn into_pool_error(self) -> PoolError<E>` on a private enum
    for b in prog.bodies.values():
        if b.kind not in ('Fn', 'AssocFn') or not any(b.path.lstrip('<').startswith(m) for m in mods):
            continue
        ins = b.j.get('inputs') or []
        outp = (b.j.get('output') or '')
        # (also wrapped: `fn into_pool_error(self) -> Option<PoolError<E>>` - "None = try the next object")
        for w_ in ('std::option::Option<', 'std::result::Result<(), '):
            if outp.startswith(w_):
                outp = outp[len(w_):]
        outp = outp.split('<')[0].rstrip('>')
        if len(ins) != 1 or not outp.endswith('Error'):
            continue
        src = ins[0].split('<')[0]
        a_src = a_dst = None
        for c in prog.crates.values():
            a_src = a_src or c.adt(src)
            a_dst = a_dst or c.adt(outp)
        if a_src is None or a_src.get('vis') == 'pub' or (a_dst is not None and a_dst.get('vis') != 'pub') or a_src.get('kind') != 'Enum' or src == outp:
            continue
        out.append((src, outp))
    return sorted(set(out))


def load_known():
    p = os.path.join(VERIF, 'known_findings.json')
    if not os.path.exists(p):
        return []
    with open(p) as f:
        return json.load(f).get('findings', [])


def finish(ctx, t0, level_text, technique, explanation):
    """write evidence, print verdict lines, return exit code"""
    known = [k for k in load_known() if k.get('property') == ctx.prop and k.get('status') == 'known']
    known_keys = {(k['rule'], k['construct']): k for k in known}
    failed = [o for o in ctx.obs if not o['ok']]
    new = []
    seen_known = {}
    for o in failed:
        k = known_keys.get((o['rule'], o['construct']))
        if k is not None:
            seen_known[(o['rule'], o['construct'])] = (k, o)
        else:
            new.append(o)
    rep_dir = os.path.join(VERIF, 'evidence', 'reports')
    os.makedirs(rep_dir, exist_ok=True)
    # remove stale reports of this property
    for f in os.listdir(rep_dir):
        if f.startswith(ctx.prop + '-'):
            try:
                os.remove(os.path.join(rep_dir, f))
            except OSError:
                pass
    lines = []
    for (rule, construct), (k, o) in sorted(seen_known.items()):
        lines.append('KNOWN-FINDING: property=%s %s [%s %s] %s' % (ctx.prop, k.get('what', ''), rule, construct, o['where']))
    # de-duplicate violations by (rule, construct)
    dedup = {}
    for o in new:
        dedup.setdefault((o['rule'], o['construct']), []).append(o)
    n = 0
    for (rule, construct), os_ in sorted(dedup.items()):
        n += 1
        path = os.path.join(rep_dir, '%s-%02d.json' % (ctx.prop, n))
        with open(path, 'w') as f:
            json.dump({'property': ctx.prop, 'rule': rule, 'construct': construct,
                       'tree_hash': ctx.info.get('tree_hash'), 'instances': os_}, f, indent=1)
        o = os_[0]
        lines.append('VIOLATION property=%s replay=%s' % (ctx.prop, path))
        lines.append('  rule %s, instance %s' % (rule, o['instance']))
        lines.append('  at %s' % o['where'])
        if o['detail']:
            lines.append('  %s' % o['detail'])
    for rule, reason in ctx.undecided:
        lines.append('UNDECIDED property=%s rule=%s: %s' % (ctx.prop, rule, reason))
    for m in ctx.notes:
        lines.append('INFO property=%s %s' % (ctx.prop, m))

    total = len(ctx.obs)
    discharged = sum(1 for o in ctx.obs if o['ok'])
    nontrivial = len({(o['rule'], o['instance']) for o in ctx.obs if o['sites'] or o['where']})
    samples = []
    seen_rules = set()
    for o in ctx.obs:
        if o['rule'] in seen_rules:
            continue
        seen_rules.add(o['rule'])
        samples.append({'rule': o['rule'], 'instance': o['instance'], 'ok': o['ok'], 'where': o['where'],
                        'detail': o['detail'][:300], 'sites': o['sites'][:6]})
    ev = {
        'property_id': ctx.prop,
        'tier': ctx.tier,
        'seed': int(os.environ.get('VERIF_SEED', '0') or 0),
        'level': 'other',
        'coverage': {
            'explanation': explanation,
            'rule': 'one obligation per rule instance (rule x bound construct x site); an instance is non-trivial '
                    'when it matched at least one concrete site in the extracted program',
            'obligations': total,
            'discharged': discharged,
            'evaluations': total,
            'distinct_nontrivial': nontrivial,
            'samples': samples,
            'exhaustive': True,
            'technique': technique,
            'rules': sorted(seen_rules),
            'roles': ctx.roles,
            'bodies_analysed': sorted(ctx.bodies_analysed),
            'n_bodies_analysed': len(ctx.bodies_analysed),
            'counters': ctx.counters,
            'tree_hash': ctx.info.get('tree_hash'),
            'fresh_extraction': ctx.info.get('fresh_extraction'),
            'feature_config': ctx.info.get('config'),
            'extraction_cmd': ctx.info.get('cmd'),
            'not_decided': ctx.not_decided,
            'known_findings_seen': [k for k in sorted('%s %s' % kk for kk in seen_known)],
            'undecided': ['%s: %s' % u for u in ctx.undecided],
            'failed_instances': [{'rule': o['rule'], 'instance': o['instance'], 'where': o['where']} for o in failed],
            'extra': ctx.info.get('extra', {}),
        },
        'assumptions': ctx.assumptions,
        'wall_s': round(time.time() - t0, 3),
        'violations': len(dedup),
    }
    os.makedirs(os.path.join(VERIF, 'evidence'), exist_ok=True)
    with open(os.path.join(VERIF, 'evidence', ctx.prop + '.json'), 'w') as f:
        json.dump(ev, f, indent=1, sort_keys=False)
    for l in lines:
        print(l)
    print('%s: %d obligations, %d discharged, %d known finding(s), %d new violation(s), %d undecided  [%s, %.1fs]' % (
        ctx.prop, total, discharged, len(seen_known), len(dedup), len(ctx.undecided), ctx.tier, time.time() - t0))
    if dedup:
        return 1
    if ctx.undecided:
        return 2
    return 0

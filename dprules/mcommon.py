"""Shared helpers for the managed-pool rules."""
import re
from .facts import strip_generics, Place, Operand, norm_path
from .roles import ManagedRoles, PERMIT_ADT, classify_write, adt_of
from .engine import Undecided
from .analysis import sources

MANAGER_CREATE = 'deadpool::managed::Manager::create'
MANAGER_RECYCLE = 'deadpool::managed::Manager::recycle'
MANAGER_DETACH = 'deadpool::managed::Manager::detach'

_roles_cache = {}


def roles(ctx):
    r = _roles_cache.get(id(ctx.prog))
    if r is None:
        r = ManagedRoles(ctx.prog)
        _roles_cache[id(ctx.prog)] = r
    for k, v in r.describe().items():
        ctx.role(k, v)
    return r


def managed_bodies(prog):
    return [b for b in prog.bodies.values()
            if b.path.startswith('deadpool::managed::') or b.path.startswith('<deadpool::managed::') or (' as deadpool::managed::' in b.path.split('>::')[0] and str(b.file).startswith('src/'))]


def calls_named(body, names):
    """blocks whose terminator is a call to one of the (generic-stripped) names"""
    names = set(names)
    return [blk for blk in body.blocks if blk.term.kind == 'call' and (blk.term.callee_names() & names)]


def calls_with_prefix(body, prefix):
    return [blk for blk in body.blocks if blk.term.kind == 'call' and any(n.startswith(prefix) for n in blk.term.callee_names())]


def is_trait_call(term, trait_method):
    """unresolved call of a trait method on a generic receiver, e.g. Manager::detach"""
    return term.kind == 'call' and term.func.kind == 'const' and term.func.const.get('fn') == trait_method


def manager_calls(body, which=None):
    out = []
    for blk in body.blocks:
        t = blk.term
        if t.kind == 'call' and t.func.kind == 'const':
            fn = t.func.const.get('fn', '')
            if fn.startswith('deadpool::managed::Manager::') and (which is None or fn == which):
                out.append(blk)
    return out


def is_dyn_call(term):
    """call through a trait object / generic closure parameter (user supplied code)"""
    if term.kind != 'call' or term.func.kind != 'const':
        return False
    c = term.func.const
    fn = strip_generics(c.get('fn', ''))
    if fn in ('std::ops::Fn::call', 'std::ops::FnMut::call_mut', 'std::ops::FnOnce::call_once'):
        if c.get('rk') in (None, 'virtual') or not c.get('rfn'):
            return True
        # Box<dyn Fn..>: resolves to Box's forwarding impl, the target is still caller-supplied
        if c['rfn'].startswith('<std::boxed::Box<F, A> as std::ops::Fn') and c.get('targs') and 'dyn ' in c['targs'][0]:
            return True
    return False


def user_code_calls(body):
    """calls that run caller-supplied code: Manager methods on the generic M, hooks (dyn Fn), predicates (F: FnMut)"""
    out = []
    for blk in body.blocks:
        t = blk.term
        if t.kind != 'call' or t.func.kind != 'const':
            continue
        fn = t.func.const.get('fn', '')
        if fn.startswith('deadpool::managed::Manager::'):
            out.append((blk, fn.split('::')[-1]))
        elif is_dyn_call(t):
            out.append((blk, 'dyn:' + strip_generics(fn).split('::')[-1]))
    return out


def exec_sites(prog, body):
    """(caller body, bb) where `body` is executed: direct calls / polls; closures count at their construction site"""
    out = []
    for caller, bb, kind in prog.callers_of(body.path):
        cb = prog.bodies[caller]
        if kind == 'call':
            out.append((cb, bb))
        elif kind in ('closure', 'fnref') and not body.is_coroutine:
            out.append((cb, bb))
    return out


def holds_in_context(prog, body, pred, root_paths, seen=None):
    """pred(caller_body, bb) holds at every execution site of `body`, transitively up to the roots"""
    seen = seen or set()
    if body.path in seen:
        return True
    seen = seen | {body.path}
    sites = exec_sites(prog, body)
    if not sites:
        return False
    for cb, bb in sites:
        if pred(cb, bb):
            continue
        if cb.path in root_paths:
            return False
        if not holds_in_context(prog, cb, pred, root_paths, seen):
            return False
    return True


def held_locals(an, bb, adt):
    """locals whose type is exactly `adt<..>` (by value) and that are definitely initialised before the terminator of bb"""
    st = an.state_at_term(bb)
    if st is None:
        return []
    mu, _ = st
    out = []
    for i, l in enumerate(an.b.locals):
        if adt_of(l['ty']) == adt and not l['ty'].startswith('&') and (mu >> i) & 1:
            out.append(i)
    return out


def maybe_locals(an, bb, pred):
    st = an.state_at_term(bb)
    if st is None:
        return []
    _, ma = st
    return [i for i, l in enumerate(an.b.locals) if (ma >> i) & 1 and pred(l)]


def queue_calls(r, body, an):
    """[(blk, method)] VecDeque method calls whose receiver is the idle queue field"""
    out = []
    for blk in body.blocks:
        t = blk.term
        if t.kind != 'call':
            continue
        for n in t.callee_names():
            if n.startswith('std::collections::VecDeque::') or n.startswith('<std::collections::VecDeque'):
                if t.args and receiver_is_field(an, t.args[0], r.SLOTS, r.QUEUE):
                    out.append((blk, n.split('::')[-1]))
                    break
    return out


def receiver_is_field(an, op, owner, field, depth=0):
    """does the operand (usually `move _x` with `_x = &mut (*g).field`) denote owner.field?"""
    if op.kind == 'const' or depth > 10:
        return False
    p = op.place
    if p.has_field(owner, field):
        return True
    if p.proj and not all(x in ('*', 'as') for x in p.proj):
        # a reference kept in a field of a local helper struct (`Cursor { vec: &mut guard.vec, .. }` then `*cursor.vec`)
        sel = [x for x in p.proj if x.startswith('.')]
        if len(sel) == 1 and all(x in ('*', 'as') or x == sel[0] for x in p.proj):
            ds = an.defs(p.local)
            if len(ds) == 1 and ds[0][0] == 'stmt' and ds[0][3].rv.kind == 'agg' and ds[0][3].rv.j.get('ak') in ('adt', 'tuple'):
                rv = ds[0][3].rv
                names = rv.j.get('fields') or [str(i) for i in range(len(rv.ops))]
                if sel[0][1:] in names and len(names) == len(rv.ops):
                    return receiver_is_field(an, rv.ops[names.index(sel[0][1:])], owner, field, depth + 1)
        return False
    d = an.single_def(p.local)
    if d is None:
        return False
    if d[0] == 'stmt':
        rv = d[3].rv
        if rv.kind in ('ref', 'copyderef', 'rawptr'):
            if rv.place.has_field(owner, field):
                return True
            return receiver_is_field(an, Operand({'c': {'l': rv.place.local, 'pr': list(rv.place.proj), 'own': list(rv.place.own)}}), owner, field, depth + 1)
        if rv.kind == 'use':
            return receiver_is_field(an, rv.ops[0], owner, field, depth + 1)
    return False


def guard_root(an, place, depth=0):
    """the MutexGuard local a place is reached through (`(*_18).vec` with `_18 = deref_mut(&mut _6)` -> 6)"""
    if depth > 10:
        return None
    l = place.local
    ty = an.b.locals[l]['ty']
    if ty.startswith('std::sync::MutexGuard<'):
        return l
    d = an.single_def(l)
    if d is None:
        return None
    if d[0] == 'stmt':
        rv = d[3].rv
        if rv.kind in ('ref', 'copyderef', 'rawptr'):
            return guard_root(an, rv.place, depth + 1)
        if rv.kind == 'use' and rv.ops[0].kind != 'const':
            return guard_root(an, rv.ops[0].place, depth + 1)
        return None
    t = d[3]
    if t.args and t.args[0].kind != 'const':
        names = t.callee_names()
        if any(n.endswith('Deref::deref') or n.endswith('DerefMut::deref_mut') or n.endswith('::unwrap') for n in names):
            return guard_root(an, t.args[0].place, depth + 1)
    return None


def _saturating_difference(an, r, op, depth=0):
    """is the operand `size.saturating_sub(max_size)` ('size-max') or `max_size.saturating_sub(size)` ('max-size')?
    (a clamped difference compared with zero is the comparison of its operands)"""
    for _ in range(6):
        if op.kind == 'const' or op.place.proj:
            return None
        d = an.single_def(op.place.local)
        if d is None:
            return None
        if d[0] == 'stmt':
            if d[3].rv.kind == 'use':
                op = d[3].rv.ops[0]; continue
            return None
        t = d[3]
        if len(t.args) == 2 and any(n.split('::')[-1] == 'saturating_sub' and '::num::' in n for n in t.callee_names()):
            a = field_of_operand(an, r, t.args[0]); b = field_of_operand(an, r, t.args[1])
            if (a, b) == (r.SIZE, r.MAX):
                return 'size-max', d[1]
            if (a, b) == (r.MAX, r.SIZE):
                return 'max-size', d[1]
        return None
    return None


def _difference_relation(diff, op_, const_val):
    """relation between size and max equivalent to `diff <op_> const_val` for a clamped (>= 0) difference, or None"""
    pos = {('Gt', 0), ('Ne', 0), ('Ge', 1)}          # difference is positive
    zero = {('Eq', 0), ('Le', 0), ('Lt', 1)}         # difference is zero
    if (op_, const_val) in pos:
        return 'size>max' if diff == 'size-max' else 'size<max'
    if (op_, const_val) in zero:
        return 'size<=max' if diff == 'size-max' else 'size>=max'
    return None


def _small_const(op):
    if op.kind != 'const':
        return None
    v = str(op.const.get('v', ''))
    m = re.match(r'^(\d+)_(usize|u\d+|i\d+|isize)$', v)
    return int(m.group(1)) if m else None


_REL_SIGNS = {'size<max': {-1}, 'size<=max': {-1, 0}, 'size>max': {1}, 'size>=max': {0, 1}, 'size==max': {0}, 'size!=max': {-1, 1}}


def contradicted_arms(an, r, b):
    """{(switch bb, target bb)}: arms that cannot be taken because a dominating arm of an earlier test of size against max_size
    decided the opposite and neither field is written in between (a shared helper re-testing `size <= max_size` inside the
    surplus branch of its caller).  Cached on the analysis object."""
    if getattr(an, '_contradicted', None) is not None:
        return an._contradicted
    out = set()
    sw = []
    for blk in b.blocks:
        if blk.term.kind == 'switch' and not blk.cleanup:
            for lab, tgt in blk.term.switch_arms():
                try:
                    rel = cmp_relation(an, r, blk, lab)
                except Exception:
                    rel = None
                if rel and rel[0] in _REL_SIGNS:
                    sw.append((blk.idx, lab, tgt, rel[0], rel[1] if len(rel) > 1 and isinstance(rel[1], int) else blk.idx))
    if len({x[0] for x in sw}) >= 2:
        writes = {bb for bb, i, s_ in r.field_writes(b, r.SLOTS, r.SIZE)} | {bb for bb, i, s_ in r.field_writes(b, r.SLOTS, r.MAX)}
        for s1, l1, t1, r1, c1 in sw:
            others = [x[2] for x in sw if x[0] == s1 and x[2] != t1]
            only1 = an.reach([t1], ('normal',), avoid=[s1]) - (an.reach(others, ('normal',), avoid=[s1]) if others else set())
            for s2, l2, t2, r2, c2 in sw:
                # the second comparison is evaluated under the first arm (its value may be tested later, after a write)
                if s2 == s1 or s2 not in only1 or c2 not in only1:
                    continue
                if _REL_SIGNS[r1] & _REL_SIGNS[r2]:
                    continue
                # no write of either field between the first decision and the second comparison (a write in the block of one of
                # the comparisons itself is not ordered here: not decided -> not contradicted)
                between = any(w in only1 and (c2 in an.reach_after(w, ('normal',))) for w in writes)
                if between or c2 in writes or c1 in writes or s1 in writes:
                    continue
                out.add((s2, t2))
    an._contradicted = out
    return out


def cmp_relation(an, r, switch_blk, arm_label, _depth=0):
    """normalised relation between SIZE and MAX that holds on `arm_label` of a bool switch.
    returns one of 'size<=max','size<max','size>max','size>=max','size==max','size!=max' or None"""
    t = switch_blk.term
    if t.kind == 'switch' and t.j.get('dty') != 'bool' and t.j.get('variants') and 'on' in t.j and not t.j['on'].get('pr') and _depth < 2:
        # a decision encoded in a private enum (`enum Admission { Granted, Surplus }`): the arm for variant V stands for the
        # relation under which V - and only V - is constructed
        return _encoded_relation(an, r, t.j['on']['l'], [arm_label], _depth)
    if t.kind == 'switch' and t.j.get('dty') == 'bool' and _depth < 2 and t.discr.kind != 'const' and not t.discr.place.proj:
        # the same decision tested with `==` / `!=` against a constant variant (derived PartialEq)
        d0 = an.single_def(t.discr.place.local)
        hops = 0
        while d0 and d0[0] == 'stmt' and d0[3].rv.kind == 'use' and d0[3].rv.ops[0].kind != 'const' and not d0[3].rv.ops[0].place.proj and hops < 4:
            d0 = an.single_def(d0[3].rv.ops[0].place.local); hops += 1
        if d0 and d0[0] == 'call' and len(d0[3].args) == 2 and any(n.endswith('PartialEq>::eq') or n.endswith('PartialEq>::ne') or n.endswith('PartialEq::eq') or n.endswith('PartialEq::ne') for n in d0[3].callee_names()):
            is_ne = any(n.endswith('::ne') for n in d0[3].callee_names())
            ops = [_deref_arg(an, a) for a in d0[3].args]
            def const_variant(o):
                if o.kind == 'const' or o.place.proj:
                    return None
                ds = an.defs(o.place.local)
                if len(ds) == 1 and ds[0][0] == 'stmt' and ds[0][3].rv.kind == 'agg' and ds[0][3].rv.j.get('variant') and not ds[0][3].rv.ops:
                    return ds[0][3].rv.j['variant'], ds[0][3].rv.j.get('adt')
                return None
            cv = [const_variant(o) for o in ops]
            if (cv[0] is None) != (cv[1] is None):
                var, adt_ = cv[0] or cv[1]
                subj = ops[1] if cv[0] else ops[0]
                if subj.kind != 'const' and not subj.place.proj:
                    want_equal = (arm_label == 'true') != is_ne
                    if want_equal:
                        return _encoded_relation(an, r, subj.place.local, [var], _depth)
                    return _encoded_relation(an, r, subj.place.local, None, _depth, exclude=var)
    if t.kind == 'switch' and t.j.get('dty') not in (None, 'bool') and not t.j.get('variants') and t.discr.kind != 'const':
        # `match slots.surplus() { 0 => .., _ => .. }`
        df = _saturating_difference(an, r, t.discr)
        labs = [l for l, _t in t.switch_arms()]
        if df and sorted(labs) == ['0', 'otherwise']:
            rel = _difference_relation(df[0], 'Eq' if arm_label == '0' else 'Ne', 0)
            return (rel, df[1]) if rel else None
        return None
    if t.kind != 'switch' or t.j.get('dty') != 'bool':
        return None
    neg = (arm_label == 'false')
    op = t.discr
    depth = 0
    while depth < 12:
        depth += 1
        if op.kind == 'const':
            return None
        if op.place.proj:
            return None
        d = an.single_def(op.place.local)
        if d is None or d[0] != 'stmt':
            return None
        rv = d[3].rv
        if rv.kind == 'use':
            op = rv.ops[0]; continue
        if rv.kind == 'un' and rv.binop == 'Not':
            neg = not neg; op = rv.ops[0]; continue
        if rv.kind == 'bin' and rv.binop in ('Le', 'Lt', 'Ge', 'Gt', 'Eq', 'Ne'):
            a = field_of_operand(an, r, rv.ops[0]); b = field_of_operand(an, r, rv.ops[1])
            if {a, b} != {r.SIZE, r.MAX}:
                # a clamped difference of the two compared with a constant
                for x_, y_, swap in ((rv.ops[0], rv.ops[1], False), (rv.ops[1], rv.ops[0], True)):
                    df = _saturating_difference(an, r, x_)
                    cv = _small_const(y_)
                    if df and cv is not None:
                        o = _SWAP[rv.binop] if swap else rv.binop
                        if neg:
                            o = _NEG[o]
                        rel = _difference_relation(df[0], o, cv)
                        return (rel, d[1]) if rel else None
                return None
            o = rv.binop
            if a == r.MAX:  # swap operands so that SIZE is on the left
                o = {'Le': 'Ge', 'Lt': 'Gt', 'Ge': 'Le', 'Gt': 'Lt', 'Eq': 'Eq', 'Ne': 'Ne'}[o]
            if neg:
                o = {'Le': 'Gt', 'Lt': 'Ge', 'Ge': 'Lt', 'Gt': 'Le', 'Eq': 'Ne', 'Ne': 'Eq'}[o]
            return 'size' + {'Le': '<=', 'Lt': '<', 'Ge': '>=', 'Gt': '>', 'Eq': '==', 'Ne': '!='}[o] + 'max', d[1]
        return None
    return None


def _encoded_relation(an, r, local, variants, _depth, exclude=None):
    """the relation between SIZE and MAX under which `local` (a value of a private decision enum, followed through plain
    moves) is constructed as one of `variants` (or as anything but `exclude`)"""
    l_ = local
    for _ in range(6):
        ds_ = an.defs(l_)
        if len(ds_) == 1 and ds_[0][0] == 'stmt' and ds_[0][3].rv.kind == 'use' and ds_[0][3].rv.ops[0].kind != 'const' and not ds_[0][3].rv.ops[0].place.proj:
            l_ = ds_[0][3].rv.ops[0].place.local
        else:
            break
    defs = an.defs(l_)
    if not (defs and all(d[0] == 'stmt' and d[3].rv.kind == 'agg' and d[3].rv.j.get('variant') for d in defs)):
        return None
    if variants is not None:
        mine = [d for d in defs if d[3].rv.j['variant'] in variants]
    else:
        mine = [d for d in defs if d[3].rv.j['variant'] != exclude]
    rels = None
    for d in mine:
        rs = {x[0] for x in governing_relations(an, r, d[1], _depth + 1)}
        rels = rs if rels is None else (rels & rs)
    if rels and len(rels) == 1:
        return (sorted(rels)[0], mine[0][1])
    return None


def field_of_operand(an, r, op, depth=0):
    """name of the SLOTS field an operand was copied from, or None"""
    if op.kind == 'const' or depth > 8:
        return None
    p = op.place
    for own, name in p.fields():
        if own == r.SLOTS:
            return name
    if p.proj:
        return None
    d = an.single_def(p.local)
    if d and d[0] == 'stmt' and d[3].rv.kind == 'use':
        return field_of_operand(an, r, d[3].rv.ops[0], depth + 1)
    return None


def governing_relations(an, r, bb, _depth=0):
    """relations between SIZE and MAX that are known to hold when bb executes:
    for every bool switch (or switch on a private decision enum) that dominates bb with bb reachable from exactly one arm"""
    out = []
    doms = an.doms(('normal',)).get(bb) or ()
    for d in doms:
        blk = an.b.blocks[d]
        if blk.term.kind != 'switch':
            continue
        arms = blk.term.switch_arms()
        reach_by = []
        for lab, tgt in arms:
            if tgt == bb or bb in an.reach([tgt], ('normal',), avoid=[d]):
                reach_by.append(lab)
        if len(reach_by) == 1:
            rel = cmp_relation(an, r, blk, reach_by[0], _depth)
            if rel:
                out.append((rel[0], d, rel[1]))
    return out


def in_cycle(an, bb, kinds=('normal',)):
    return bb in an.reach_after(bb, kinds)


# --------------------------------------------------------------------------
# generic comparison extraction

_NEG = {'Le': 'Gt', 'Lt': 'Ge', 'Ge': 'Lt', 'Gt': 'Le', 'Eq': 'Ne', 'Ne': 'Eq'}
_SWAP = {'Le': 'Ge', 'Lt': 'Gt', 'Ge': 'Le', 'Gt': 'Lt', 'Eq': 'Eq', 'Ne': 'Ne'}


def branch_condition(an, switch_blk, arm_label):
    """comparison that holds on `arm_label` of a bool switch: (op, lhs Operand, rhs Operand, cmp_bb) or None"""
    t = switch_blk.term
    if t.kind != 'switch' or t.j.get('dty') != 'bool' or arm_label not in ('true', 'false'):
        return None
    neg = (arm_label == 'false')
    op = t.discr
    for _ in range(12):
        if op.kind == 'const' or op.place.proj:
            return None
        d = an.single_def(op.place.local)
        if d is None or d[0] != 'stmt':
            return None
        rv = d[3].rv
        if rv.kind == 'use':
            op = rv.ops[0]; continue
        if rv.kind == 'un' and rv.binop == 'Not':
            neg = not neg; op = rv.ops[0]; continue
        if rv.kind == 'bin' and rv.binop in _NEG:
            o = rv.binop
            if neg:
                o = _NEG[o]
            return (o, rv.ops[0], rv.ops[1], d[1])
        return None
    return None


def governing_conditions(an, bb):
    """[(op, lhs, rhs, switch_bb)] comparisons known to hold when bb executes (dominating one-armed switches)"""
    out = []
    doms = an.doms(('normal',)).get(bb) or ()
    for d in doms:
        blk = an.b.blocks[d]
        if blk.term.kind != 'switch':
            continue
        if blk.term.j.get('adt') == 'std::cmp::Ordering' and 'on' in blk.term.j:
            # match a.cmp(&b) { Less => .., Equal => .., Greater => .. }
            c = _ordering_condition(an, blk, bb, d)
            if c:
                out.append(c)
            continue
        if blk.term.j.get('dty') != 'bool':
            continue
        reach_by = []
        for lab, tgt in blk.term.switch_arms():
            if tgt == bb or bb in an.reach([tgt], ('normal',), avoid=[d]):
                reach_by.append(lab)
        if len(reach_by) == 1:
            c = branch_condition(an, blk, reach_by[0])
            if c:
                out.append((c[0], c[1], c[2], d))
    return out


def _deref_arg(an, op):
    """`&x` passed as an argument -> an operand reading x"""
    if op.kind == 'const' or op.place.proj:
        return op
    dd = an.single_def(op.place.local)
    if dd and dd[0] == 'stmt' and dd[3].rv.kind == 'ref':
        p = dd[3].rv.place
        if tuple(p.proj) == ('*',):       # `&*r` (reborrow)
            return _deref_arg(an, Operand({'c': {'l': p.local, 'pr': [], 'own': []}}))
        return Operand({'c': {'l': p.local, 'pr': list(p.proj), 'own': list(p.own)}})
    if dd and dd[0] == 'stmt' and dd[3].rv.kind == 'use':
        return _deref_arg(an, dd[3].rv.ops[0])
    return op


def _ordering_condition(an, blk, bb, d):
    on = Place(blk.term.j['on'])
    if on.proj:
        return None
    dd = an.single_def(on.local)
    if not dd or dd[0] != 'call' or not (dd[3].callee_names() & {'std::cmp::Ord::cmp'}) or len(dd[3].args) != 2:
        return None
    labs = set()
    for lab, tgt in blk.term.switch_arms():
        if lab in ('Less', 'Equal', 'Greater') and (tgt == bb or bb in an.reach([tgt], ('normal',), avoid=[d])):
            labs.add(lab)
    op = {frozenset(['Less']): 'Lt', frozenset(['Equal']): 'Eq', frozenset(['Greater']): 'Gt', frozenset(['Less', 'Equal']): 'Le',
          frozenset(['Greater', 'Equal']): 'Ge', frozenset(['Less', 'Greater']): 'Ne'}.get(frozenset(labs))
    if op is None:
        return None
    return (op, _deref_arg(an, dd[3].args[0]), _deref_arg(an, dd[3].args[1]), d)


def implies_ge(op, a_is_lhs):
    """does `lhs op rhs` imply a >= b, where a is lhs (a_is_lhs) or rhs?"""
    if a_is_lhs:
        return op in ('Ge', 'Gt', 'Eq')
    return op in ('Le', 'Lt', 'Eq')


def users_guard_drop_unconditional(ctx, r, rule):
    """the Drop of the guard that undoes `users += 1` performs the undo on every path (no `if thread::panicking()`, no
    flag): an unwinding or abandoned get() must give its users count back exactly like a failing one"""
    prog = ctx.prog
    ug = r.users_guard()
    if not ug:
        return
    adt, how = ug[0], ug[3]
    drops = [b for b in prog.bodies.values() if b.j.get('impl_trait') == 'std::ops::Drop' and adt_of(b.j.get('impl_self', '')) == adt]
    if len(drops) != 1:
        ctx.undecide(rule, 'Drop impl of the users guard %s not found' % adt); return
    d = drops[0]
    dan = prog.an(d)
    if how[0] == 'closure':
        acts = [blk.idx for blk in d.blocks if not blk.cleanup and (is_dyn_call(blk.term) or any(n.endswith('Fn::call') or n.endswith('FnMut::call_mut') or n.endswith('FnOnce::call_once') for n in blk.term.callee_names()))]
    else:
        acts = [blk.idx for blk in d.blocks if blk.term.kind == 'call' and not blk.cleanup and any(n.endswith('::fetch_sub') for n in blk.term.callee_names())]
    # `armed` flag form of the guard: the arm taken only by a disarmed guard may skip the undo
    from .ucommon import armed_flag_skips
    skip = armed_flag_skips(prog, None, d, [d.blocks[x] for x in acts], guard_adt=adt)
    esc = dan.reach([0], ('normal',), avoid=acts + skip)
    ok = bool(acts) and not any(e in esc for e in dan.exits()['return'])
    ctx.ob(rule, 'the users guard undoes the count on every path of its Drop', ok, ctx.where(d),
           'the undo in Drop is conditional: a get() that ends on the skipped path (unwinding, abandoned) stays counted in users / status().waiting forever' if not ok else '',
           construct='users-guard-drop-conditional')
    if how[0] == 'closure' and how[1] in prog.bodies:
        # the closure the guard carries: the decrement itself is on every path to its return.  A switch on a constant
        # (`cfg!(..)`, `debug_assert!(users.fetch_sub(1) > 0)`) counts as two feasible arms: the other build takes the other one
        cb = prog.bodies[how[1]]
        can = prog.an(cb)
        subs = [blk.idx for blk in cb.blocks if blk.term.kind == 'call' and not blk.cleanup and any(n.endswith('::fetch_sub') for n in blk.term.callee_names())]
        esc = can.reach([0], ('normal',), avoid=subs)
        okc = bool(subs) and not any(e in esc for e in can.exits()['return'])
        ctx.ob(rule, 'the closure of the users guard decrements on every path to its return', okc, ctx.where(cb),
               'a path through the closure returns without the fetch_sub (a constant / cfg!-governed switch is two paths: the build with the other setting takes the other arm): users is never given back there' if not okc else '',
               construct='users-guard-closure-conditional')


BUILDER = 'deadpool::managed::builder::PoolBuilder'
PCFG = 'deadpool::managed::config::PoolConfig'
TMO = 'deadpool::managed::config::Timeouts'
# public setter -> the configuration field it must store its argument in (public API names on both sides)
SETTERS = {
    'max_size': (PCFG, 'max_size'), 'timeouts': (PCFG, 'timeouts'), 'queue_mode': (PCFG, 'queue_mode'),
    'wait_timeout': (TMO, 'wait'), 'create_timeout': (TMO, 'create'), 'recycle_timeout': (TMO, 'recycle'),
    'config': (BUILDER, 'config'), 'runtime': (BUILDER, 'runtime'),
}


def builder_plumbing(ctx, rule, setters):
    """each named PoolBuilder setter stores its argument in exactly the configuration field of the same meaning (a
    `create_timeout` that writes `timeouts.wait` type-checks and passes every test that sets one timeout at a time)"""
    prog = ctx.prog
    n = 0
    for sname in setters:
        own, fld = SETTERS[sname]
        b = prog.body('%s::%s' % (BUILDER, sname))
        if b is None:
            ctx.undecide(rule, 'PoolBuilder::%s not found' % sname); continue
        ctx.saw(b)
        an = prog.an(b)
        writes = []
        for blk in b.blocks:
            if blk.cleanup:
                continue
            for s in blk.stmts:
                if s.kind == 'assign' and s.place.proj and s.place.local == 1:
                    writes.append(s)
        lf = [s.place.last_field() for s in writes]
        ok_place = len(writes) == 1 and lf[0] == (own, fld)
        src = sources(an, writes[0].rv.ops[0], deep=True) if len(writes) == 1 and writes[0].rv.ops else set()
        if not writes:
            # functional-update form: `Self { config: PoolConfig { max_size: value, ..self.config }, ..self }`
            aggs = [s for blk in b.blocks if not blk.cleanup for s in blk.stmts if s.kind == 'assign' and s.rv.kind == 'agg' and s.rv.j.get('ak') == 'adt' and
                    norm_path(strip_generics(s.rv.j['adt'])) == own and fld in s.rv.j.get('fields', [])]
            if len(aggs) == 1:
                f_ = dict(zip(aggs[0].rv.j['fields'], aggs[0].rv.ops))
                src = sources(an, f_[fld], deep=True)
                others_from_self = all(any(x[0] == 'arg' and x[1] == 'self' for x in sources(an, o_, deep=True)) for n_, o_ in f_.items() if n_ != fld)
                ok_place = others_from_self
                lf = [(own, fld)]
            else:
                ctx.undecide(rule, 'PoolBuilder::%s: neither a field write nor one %s aggregate found (unknown form)' % (sname, own.split('::')[-1])); continue
        argn = {x[1] for x in src if x[0] == 'arg'}
        ok_val = len(argn) == 1 and 'self' not in argn and not any(x[0] == 'const' and x[1] not in ('()',) for x in src if not str(x[1]).startswith('fn')) and \
            not any(x[0] == 'bin' for x in src)
        n += 1
        ctx.ob(rule, 'PoolBuilder::%s stores its argument, unchanged, in %s.%s' % (sname, own.split('::')[-1], fld), ok_place and ok_val, ctx.where(b),
               'writes %s from %s' % ([('%s.%s' % (x[0].split('::')[-1], x[1])) if x else '?' for x in lf], sorted(str(x[1]) for x in src if x[0] in ('arg', 'const', 'bin'))),
               construct='builder-setter:' + sname, sites=['%s.%s' % (own.split('::')[-1], fld)])
    ctx.floor(rule, 'builder setters examined', n, len(setters))


def pool_level_timeouts(ctx, r, rule):
    """get() runs timeout_get with the timeouts the pool was configured with"""
    prog = ctx.prog
    g = [b for b in prog.bodies.values() if b.is_coroutine and b.name == 'deadpool::managed::Pool::get::{closure#0}']
    if len(g) != 1:
        ctx.undecide(rule, 'Pool::get coroutine not found'); return
    b = g[0]
    ctx.saw(b)
    an = prog.an(b)
    ctor = r.TIMEOUT_GET.j.get('parent')
    calls = [blk for blk in b.blocks if blk.term.kind == 'call' and not blk.cleanup and blk.term.rcallee == ctor]
    ok = False; detail = '%d calls of timeout_get' % len(calls)
    if len(calls) == 1:
        src = sources(an, calls[0].term.args[1], deep=True)
        # through Pool::timeouts() (a public accessor, not inlined) or directly from the configuration
        via = [x for x in src if x[0] == 'call' and x[1].endswith('Pool::timeouts')]
        direct = any(x[0] == 'field' and x[1] == '%s.timeouts' % PCFG for x in src)
        acc_ok = True
        for x in via:
            ab = prog.body('deadpool::managed::Pool::timeouts')
            if ab is None:
                acc_ok = False; continue
            aan = prog.an(ab)
            rets = [s for blk in ab.blocks if not blk.cleanup for s in blk.stmts if s.kind == 'assign' and s.place.local == 0 and s.place.is_local()]
            acc_ok = acc_ok and bool(rets) and all(any(y[0] == 'field' and y[1] == '%s.timeouts' % PCFG for y in sources(aan, s.rv.ops[0], deep=True)) for s in rets if s.rv.ops)
        ok = (bool(via) and acc_ok) or direct
        ok = ok and not any(x[0] == 'call' and x[1].endswith('Default>::default') for x in src) and not any(x[0] == 'agg' and x[1].startswith(TMO) for x in src)
        detail = 'argument from %s' % sorted({str(x[1]) for x in src if x[0] in ('call', 'field', 'agg')})
    ctx.ob(rule, 'get() waits, creates and recycles under the pool-level timeouts', ok, ctx.where(b), detail, construct='get:pool-timeouts')


def paired_counters(ctx, r, rule, bodies):
    """a counter of the pool that a get() both increments and decrements (a private "in flight" / "queued" statistic, whatever
    it is called) is restored on every way out of the call - return, unwinding, and abandonment at a suspension point -
    unless a guard local whose Drop performs the decrement is held"""
    prog = ctx.prog
    others = set(getattr(r, 'OTHER_ATOMICS', []))
    n = 0
    for b in bodies:
        an = prog.an(b)
        ops = {}
        for blk in b.blocks:
            t = blk.term
            if t.kind != 'call' or blk.cleanup or not t.args:
                continue
            meth = [nm.split('::')[-1] for nm in t.callee_names() if 'atomic' in nm and nm.split('::')[-1] in ('fetch_add', 'fetch_sub')]
            if not meth:
                continue
            flds = {s_[1].split('.')[-1] for s_ in sources(an, t.args[0]) if s_[0] == 'field' and s_[1].startswith(r.INNER + '.')}
            for f_ in flds & others:
                ops.setdefault(f_, {'fetch_add': [], 'fetch_sub': []})[meth[0]].append(blk)
        for f_, d in sorted(ops.items()):
            if not d['fetch_add'] or not d['fetch_sub']:
                continue
            decs = [x.idx for x in d['fetch_sub']]
            for inc in d['fetch_add']:
                n += 1
                esc = an.reach_after(inc.idx, ('normal', 'unwind', 'cancel'), avoid=decs)
                ex = an.exits()
                leaks = sorted({b.blocks[e].term.kind for k_ in ('return', 'resume', 'cancel') for e in ex.get(k_, []) if e in esc})
                # which suspension points lie between?  (for the message)
                ys = sorted({b.blocks[x].term.line for x in esc if b.blocks[x].term.kind == 'yield'})
                ctx.ob(rule, 'counter `%s` incremented during get() is restored on every way out' % f_, not leaks, ctx.where(b, inc.term.line),
                       'after this increment the call can end (%s) without the matching decrement; suspension points in between: lines %s - a get() abandoned there leaves `%s` raised for good' % (', '.join(leaks), ys, f_) if leaks else '',
                       construct='paired-counter:%s' % f_)
    ctx.count('paired_counters_examined', n)


def maybe_arms(crate, term):
    """for a switch on a maybe-value - an Option, or a two-state enum of the crate with one payload variant and one unit variant
    (`enum Custody { Guarded(T), HandedOn }`) - (target of the arm that holds the value, target of the empty arm); else None"""
    if term.kind != 'switch' or not term.j.get('variants'):
        return None
    arms = dict(term.switch_arms())
    adt = term.j.get('adt')
    if adt == 'std::option::Option':
        return (arms.get('Some'), arms.get('None')) if 'Some' in arms and 'None' in arms else None
    a_ = crate.adt(adt) if adt else None
    if a_ is None or len(a_.get('variants', [])) != 2:
        return None
    full = [v_['name'] for v_ in a_['variants'] if v_['fields']]
    empty = [v_['name'] for v_ in a_['variants'] if not v_['fields']]
    if len(full) == 1 and len(empty) == 1 and full[0] in arms and empty[0] in arms:
        return arms[full[0]], arms[empty[0]]
    return None

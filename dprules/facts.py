"""Fact base loader and MIR-event-CFG model for the dpa fact files."""
import json, re, os, re, glob

GEN_RE = re.compile(r'::<[^<>]*(?:<[^<>]*(?:<[^<>]*(?:<[^<>]*>[^<>]*)*>[^<>]*)*>[^<>]*)*>')

def strip_generics(path):
    """`std::collections::VecDeque::<T, A>::pop_front` -> `std::collections::VecDeque::pop_front`"""
    prev = None
    while prev != path:
        prev = path
        path = GEN_RE.sub('', path)
    return path


def norm_path(s):
    """drop every balanced `<..>` group: `a::B<M, W>::f::{closure#0}::S<'_>` -> `a::B::f::{closure#0}::S`"""
    out = []
    depth = 0
    prev = ''
    for ch in s:
        if ch == '<':
            depth += 1
        elif ch == '>' and prev != '-':
            if depth > 0:
                depth -= 1
            prev = ch
            continue
        if depth == 0:
            out.append(ch)
        prev = ch
    r = ''.join(out)
    while '::::' in r:
        r = r.replace('::::', '::')
    return r


class Place:
    __slots__ = ('local', 'proj', 'ty', 'own')
    def __init__(self, j):
        self.local = j['l']
        self.proj = tuple(j['pr'])
        self.ty = j.get('ty', '')
        own = j.get('own') or []
        self.own = tuple(own) + (None,) * (len(self.proj) - len(own))
    def fields(self):
        """[(owner adt path or None, field name)] for the field projections, in order"""
        return [(self.own[i], p[1:]) for i, p in enumerate(self.proj) if p.startswith('.')]
    def last_field(self):
        f = self.fields()
        return f[-1] if f else None
    def has_field(self, owner, name):
        return (owner, name) in self.fields()
    def is_local(self):
        return not self.proj
    def key(self):
        return (self.local, self.proj)
    def __repr__(self):
        s = '_%d' % self.local
        for p in self.proj:
            if p == '*':
                s = '(*%s)' % s
            else:
                s += p
        return s


class Operand:
    __slots__ = ('kind', 'place', 'const')
    def __init__(self, j):
        if 'c' in j:
            self.kind = 'copy'; self.place = Place(j['c']); self.const = None
        elif 'm' in j:
            self.kind = 'move'; self.place = Place(j['m']); self.const = None
        elif 'k' in j:
            self.kind = 'const'; self.place = None; self.const = j['k']
        else:
            self.kind = 'other'; self.place = None; self.const = {'v': j.get('other', '?'), 'ty': '?'}
    @property
    def fn(self):
        return self.const.get('fn') if self.const else None
    def __repr__(self):
        if self.kind == 'const':
            if self.const.get('fn'):
                return 'fn ' + self.const['fn']
            return 'const ' + self.const['v']
        return '%s %r' % (self.kind, self.place)


class Rvalue:
    def __init__(self, j):
        self.j = j
        self.kind = j['k']
        self.ops = []
        self.place = None
        if self.kind in ('use', 'cast', 'repeat', 'wrapbinder'):
            self.ops = [Operand(j['op'])]
        elif self.kind in ('ref', 'rawptr', 'discr', 'copyderef'):
            self.place = Place(j['p'])
        elif self.kind == 'bin':
            self.ops = [Operand(j['a']), Operand(j['b'])]
        elif self.kind == 'un':
            self.ops = [Operand(j['a'])]
        elif self.kind == 'agg':
            self.ops = [Operand(o) for o in j['ops']]
    @property
    def binop(self):
        return self.j.get('op') if self.kind in ('bin', 'un') else None
    def __repr__(self):
        k = self.kind
        if k == 'use': return repr(self.ops[0])
        if k == 'ref': return '&%s%r' % ('mut ' if self.j['mut'] else ('fake ' if self.j.get('fake') else ''), self.place)
        if k == 'rawptr': return '&raw %r' % self.place
        if k == 'discr': return 'discriminant(%r)' % self.place
        if k == 'copyderef': return 'copy_for_deref(%r)' % self.place
        if k == 'bin': return '%s(%r, %r)' % (self.j['op'], self.ops[0], self.ops[1])
        if k == 'un': return '%s(%r)' % (self.j['op'], self.ops[0])
        if k == 'cast': return '%r as %s [%s]' % (self.ops[0], self.j['ty'], self.j['ck'])
        if k == 'agg':
            ak = self.j['ak']
            if ak == 'adt':
                fs = self.j['fields']
                return '%s::%s{%s}' % (self.j['adt'], self.j['variant'], ', '.join('%s: %r' % (f, o) for f, o in zip(fs, self.ops)))
            if ak in ('closure', 'coroutine', 'coroutine_closure'):
                return '%s<%s>[%s]' % (ak, self.j['def'], ', '.join(map(repr, self.ops)))
            return '%s(%s)' % (ak, ', '.join(map(repr, self.ops)))
        return k


class Stmt:
    __slots__ = ('kind', 'place', 'rv', 'local', 'line', 'j')
    def __init__(self, j):
        self.j = j
        self.kind = j['k']
        self.line = j.get('line', 0)
        self.place = Place(j['p']) if 'p' in j else None
        self.rv = Rvalue(j['rv']) if 'rv' in j else None
        self.local = j.get('l')
    def __repr__(self):
        if self.kind == 'assign':
            return '%r = %r' % (self.place, self.rv)
        if self.kind in ('live', 'dead'):
            return 'Storage%s(_%d)' % (self.kind.capitalize(), self.local)
        if self.kind == 'setdiscr':
            return 'discriminant(%r) = %s' % (self.place, self.j['variant'])
        return self.kind


class Term:
    def __init__(self, j):
        self.j = j
        self.kind = j['k']
        self.line = j.get('line', 0)
        self.target = j.get('t')
        u = j.get('u')
        self.unwind = u if isinstance(u, int) else None
        self.unwind_kind = u if isinstance(u, str) else ('cleanup' if isinstance(u, int) else None)
        self.cdrop = j.get('cd')
        self.place = Place(j['p']) if 'p' in j else None
        self.func = Operand(j['f']) if 'f' in j else None
        self.args = [Operand(a) for a in j.get('args', [])]
        self.dest = Place(j['dest']) if 'dest' in j else None
        self.discr = Operand(j['d']) if 'd' in j else None
        self.cond = Operand(j['cond']) if 'cond' in j else None
    # -- call helpers
    @property
    def callee(self):
        """generic definition path of the callee (None for indirect calls)"""
        if self.kind != 'call' or not self.func or self.func.kind != 'const':
            return None
        return self.func.const.get('fn')
    @property
    def rcallee(self):
        """resolved callee where resolution succeeded, else the generic one"""
        if self.kind != 'call' or not self.func or self.func.kind != 'const':
            return None
        return self.func.const.get('rfn') or self.func.const.get('fn')
    def callee_names(self):
        """set of normalised names by which this call can be matched"""
        out = set()
        if self.kind != 'call' or not self.func or self.func.kind != 'const':
            return out
        c = self.func.const
        for k in ('fn', 'rfn'):
            if c.get(k):
                out.add(strip_generics(c[k]))
        return out
    def succs(self):
        """list of (kind, bb): kind in normal|unwind|cancel|switch"""
        out = []
        k = self.kind
        if k == 'goto':
            out.append(('normal', self.target))
        elif k == 'switch':
            seen = set()
            for v, bb in self.j['arms']:
                out.append(('normal', bb))
            out.append(('normal', self.j['otherwise']))
        elif k in ('drop', 'call', 'assert', 'yield'):
            if self.target is not None:
                out.append(('normal', self.target))
            if self.unwind is not None:
                out.append(('unwind', self.unwind))
            if self.cdrop is not None:
                out.append(('cancel', self.cdrop))
        return out
    def switch_arms(self):
        """[(label, bb)] with variant names / true,false where known; 'otherwise' for the default"""
        names = self.j.get('variants')
        isbool = self.j.get('dty') == 'bool'
        out = []
        for v, bb in self.j['arms']:
            if names and v in names:
                lab = names[v]
            elif isbool:
                lab = 'false' if v == '0' else 'true'
            else:
                lab = v
            out.append((lab, bb))
        # the otherwise arm: if exactly one variant is missing, name it
        oth = self.j['otherwise']
        lab = 'otherwise'
        if names:
            missing = [n for v, n in names.items() if v not in {a for a, _ in self.j['arms']}]
            if len(missing) == 1:
                lab = missing[0]
        elif isbool and len(self.j['arms']) == 1:
            lab = 'true' if self.j['arms'][0][0] == '0' else 'false'
        out.append((lab, oth))
        return out
    def __repr__(self):
        k = self.kind
        if k == 'call':
            return '%r = %s(%s) -> bb%s unwind %s' % (self.dest, self.func.const.get('rfn') or self.func.const.get('fn') if self.func.kind == 'const' else repr(self.func), ', '.join(map(repr, self.args)), self.target, self.j.get('u'))
        if k == 'drop':
            return 'drop(%r: %s) -> bb%s unwind %s cd %s' % (self.place, self.place.ty, self.target, self.j.get('u'), self.cdrop)
        if k == 'switch':
            return 'switch(%r%s) %s' % (self.discr, (' on %r' % Place(self.j['on'])) if 'on' in self.j else '', ', '.join('%s: bb%d' % (l, b) for l, b in self.switch_arms()))
        if k == 'yield':
            return 'yield -> bb%s cd %s [%s]' % (self.target, self.cdrop, self.j.get('desugar'))
        if k == 'assert':
            return 'assert(%r == %s, %s) -> bb%s unwind %s' % (self.cond, self.j['expected'], self.j['msg'], self.target, self.j.get('u'))
        if k == 'goto':
            return 'goto bb%s' % self.target
        return k


class Block:
    __slots__ = ('idx', 'cleanup', 'stmts', 'term')
    def __init__(self, idx, j):
        self.idx = idx
        self.cleanup = j['cleanup']
        self.stmts = [Stmt(s) for s in j['stmts']]
        self.term = Term(j['term'])


class Body:
    def __init__(self, crate, j):
        self.crate = crate
        self.j = j
        self.path = j['path']
        self.name = strip_generics(self.path)
        self.file = j['file']
        self.line = j['line']
        self.end_line = j['end_line']
        self.locals = j['locals']
        self.arg_count = j['arg_count']
        self.blocks = [Block(i, b) for i, b in enumerate(j['blocks'])]
        self.debug = j['debug']
        self.layout = j.get('layout')
        self.is_coroutine = 'coroutine' in j
        self.kind = j['def_kind']
        self._names = None
        self._preds = None
    # ----- naming
    def local_names(self):
        """local index -> user name (only for whole-local debug entries)"""
        if self._names is None:
            m = {}
            for d in self.debug:
                if 'p' in d and not d['p']['pr']:
                    m.setdefault(d['p']['l'], d['name'])
            self._names = m
        return self._names
    def upvar_names(self):
        """for closures/coroutines: projection tuple on _1 -> captured name"""
        m = {}
        for d in self.debug:
            if 'p' in d and d['p']['l'] == 1 and d['p']['pr']:
                m[tuple(d['p']['pr'])] = d['name']
        return m
    def upvars_of_type(self, ty):
        """names of captured variables of exactly this type (closures / coroutines)"""
        return {d['name'] for d in self.debug if 'p' in d and d['p']['l'] == 1 and d['p']['pr'] and d['p'].get('ty') == ty}
    def upvars_where(self, pred):
        """names of captured variables whose type string satisfies pred"""
        return {d['name'] for d in self.debug if 'p' in d and d['p']['l'] == 1 and d['p']['pr'] and pred(d['p'].get('ty') or '')}
    def local_ty(self, l):
        return self.locals[l]['ty']
    def preds(self):
        if self._preds is None:
            p = {b.idx: [] for b in self.blocks}
            for b in self.blocks:
                for k, t in b.term.succs():
                    p[t].append((k, b.idx))
            self._preds = p
        return self._preds
    def calls(self):
        for b in self.blocks:
            if b.term.kind == 'call':
                yield b
    def yields(self):
        return [b for b in self.blocks if b.term.kind == 'yield']
    def loc(self, line=None):
        return '%s:%s' % (self.file, line if line is not None else self.line)
    def dump(self):
        out = ['fn %s  [%s:%d-%d] kind=%s cor=%s' % (self.path, self.file, self.line, self.end_line, self.kind, self.j.get('coroutine'))]
        names = self.local_names()
        for i, l in enumerate(self.locals):
            out.append('  let _%d: %s;%s' % (i, l['ty'], ('  // ' + names[i]) if i in names else ''))
        for d in self.debug:
            if 'p' in d and d['p']['pr']:
                out.append('  debug %s => %r' % (d['name'], Place(d['p'])))
        for b in self.blocks:
            out.append('  bb%d%s:' % (b.idx, ' (cleanup)' if b.cleanup else ''))
            for s in b.stmts:
                if s.kind in ('live',):
                    continue
                out.append('    %r;  // L%d' % (s, s.line))
            out.append('    %r;  // L%d' % (b.term, b.term.line))
        if self.layout:
            for v in self.layout:
                out.append('  layout variant %d (L%d): %s' % (v['idx'], v['line'], ', '.join('%s: %s' % (f['name'], f['ty']) for f in v['saved'])))
        return '\n'.join(out)


# Types the rules name by path.  If a refactoring moves one of them into another (private) module of its crate, the facts
# are re-keyed to the path below so that nothing in the rules depends on the module layout.
WELL_KNOWN_ADTS = (
    'deadpool_postgres::StatementCache', 'deadpool_postgres::StatementCaches', 'deadpool_postgres::StatementCacheKey', 'deadpool_postgres::ClientWrapper',
    'deadpool_postgres::Manager', 'deadpool_postgres::Transaction', 'deadpool_postgres::TransactionBuilder', 'deadpool_postgres::config::RecyclingMethod',
    'deadpool_postgres::config::Config', 'deadpool_postgres::config::ManagerConfig', 'deadpool_postgres::config::SslMode', 'deadpool_postgres::config::ChannelBinding',
    'deadpool_postgres::config::TargetSessionAttrs', 'deadpool_postgres::config::LoadBalanceHosts', 'deadpool_postgres::config::ConfigError',
    'deadpool_redis::Manager', 'deadpool_redis::Connection', 'deadpool_redis::config::Config', 'deadpool_redis::config::ConfigError', 'deadpool_redis::config::ConnectionInfo',
    'deadpool_redis::config::ConnectionAddr', 'deadpool_redis::config::RedisConnectionInfo', 'deadpool_redis::config::ProtocolVersion',
    'deadpool_redis::cluster::Manager', 'deadpool_redis::cluster::Connection', 'deadpool_redis::cluster::config::Config',
    'deadpool_redis::sentinel::Manager', 'deadpool_redis::sentinel::Connection', 'deadpool_redis::sentinel::config::Config',
    'deadpool_redis::sentinel::config::SentinelServerType', 'deadpool_redis::sentinel::config::SentinelNodeConnectionInfo', 'deadpool_redis::sentinel::config::TlsMode',
    'deadpool_diesel::manager::Manager', 'deadpool_diesel::manager::RecyclingMethod', 'deadpool_diesel::manager::ManagerConfig', 'deadpool_diesel::error::Error',
    'deadpool_sync::SyncWrapper', 'deadpool_sync::InteractError', 'deadpool_sqlite::Manager', 'deadpool_sqlite::config::Config', 'deadpool_r2d2::manager::Manager',
    'deadpool_runtime::Runtime', 'deadpool_runtime::SpawnBlockingError',
    'deadpool::managed::config::PoolConfig', 'deadpool::managed::config::Timeouts', 'deadpool::managed::config::QueueMode', 'deadpool::managed::errors::PoolError',
    'deadpool::managed::errors::TimeoutType', 'deadpool::managed::errors::RecycleError', 'deadpool::managed::hooks::HookError', 'deadpool::managed::hooks::Hooks',
    'deadpool::managed::hooks::HookVec', 'deadpool::managed::hooks::Hook', 'deadpool::managed::metrics::Metrics', 'deadpool::managed::builder::PoolBuilder',
    'deadpool::managed::builder::BuildError', 'deadpool::unmanaged::config::PoolConfig', 'deadpool::unmanaged::errors::PoolError',
)
_IMPL_RE = re.compile(r'((?:[A-Za-z_][A-Za-z0-9_]*::)+)<impl ([A-Za-z_][A-Za-z0-9_:]*)(<[^<>]*(?:<[^<>]*>[^<>]*)*>)?>::')


def _canonical_text(text, crate):
    """(1) inherent impls written in another module than their type: `m::<impl T<..>>::f` -> `T::f`;
    (2) well-known types that were moved to another module of the crate are renamed back to their well-known path"""
    # (only impls of this crate's own types: `core::num::<impl usize>::saturating_sub` keeps its name)
    text = _IMPL_RE.sub(lambda m: (m.group(2) + (('::' + m.group(3)) if m.group(3) else '') + '::') if m.group(2).startswith(crate + '::') else m.group(0), text)
    paths = set(re.findall(r'"path":\s*"(' + re.escape(crate) + r'::[A-Za-z0-9_:]+)",\s*"kind":\s*"(?:Struct|Enum|Union)"', text))
    for wk in WELL_KNOWN_ADTS:
        if not wk.startswith(crate + '::') or wk in paths:
            continue
        last = wk.rsplit('::', 1)[1]
        cands = [p for p in paths if p.rsplit('::', 1)[1] == last and p not in WELL_KNOWN_ADTS]
        if len(cands) > 1:
            # several types of that name (redis flavours): the one sharing the longest module prefix with the well-known path
            def common(a, b):
                n = 0
                for x, y in zip(a.split('::'), b.split('::')):
                    if x != y:
                        break
                    n += 1
                return n
            best = max(common(c, wk) for c in cands)
            cands = [c for c in cands if common(c, wk) == best]
        if len(cands) == 1:
            text = re.sub(re.escape(cands[0]) + r'(?![A-Za-z0-9_])', wk, text)
    return text


class Crate:
    def __init__(self, path):
        with open(path) as f:
            raw = f.read()
        m = re.search(r'"crate":\s*"([A-Za-z0-9_]+)"', raw[:2000])
        if m:
            raw = _canonical_text(raw, m.group(1))
        j = json.loads(raw)
        self.file = path
        self.j = j
        self.name = j['crate']
        self.features = j['features']
        self.nonce = j.get('nonce')
        self.crate_attrs = j['crate_attrs']
        self.crate_types = j.get('crate_types', [])
        self.bodies = [Body(self.name, b) for b in j['bodies']]
        self.adts = j['adts']
        self.impls = j['impls']
        self.by_path = {}
        for b in self.bodies:
            self.by_path[b.path] = b
        self.by_name = {}
        for b in self.bodies:
            self.by_name.setdefault(b.name, []).append(b)
    def body(self, name):
        """lookup by generic-stripped name; exactly one match required"""
        bs = self.by_name.get(name, [])
        if len(bs) == 1:
            return bs[0]
        return None
    def adt(self, path):
        for a in self.adts:
            if a['path'] == path or self.name + '::' + a['path'] == path:
                return a
        return None


def load_dir(d):
    crates = []
    for p in sorted(glob.glob(os.path.join(d, '*.json'))):
        crates.append(Crate(p))
    return crates

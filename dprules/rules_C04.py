"""C04 - only freshly verified objects are handed out; errors surface exactly."""
from .mcommon import *
from .roles import classify_write, adt_of
from .facts import strip_generics, Operand, Place
from .analysis import sources_across, sources, success_edges, reach_without_edges
from .engine import Undecided

TECHNIQUE = 'dominance order of hook / recycle / create steps with success-edge must-pass-through, data-flow origin of the handed-out value, error-constructor inventory (match tables) on mir_built'
LEVEL_TEXT = 'static analysis of every path of the recycler, creator, hook runner and getter bodies'
EXPLANATION = ('Decided: in the recycler pre hooks < Manager::recycle (under apply_timeout with TimeoutType::Recycle and the '
               'per-call recycle timeout) < post hooks < ready(), each later step reachable only through the success edge of '
               'the earlier one; in the creator Manager::create < size += 1 < post_create hooks < ready(); the Object handed out '
               'is built at one site from a value whose only origins are the two ready() results; hooks run in registration '
               'order and stop at the first failure; a rejected object stays owned by the not-ready wrapper on every failure exit '
               '(so it is detached once and its slot released) and is never pushed back; PoolError variants are constructed '
               'only at the documented sites with the documented TimeoutType constants.')

HOOKVEC = 'deadpool::managed::hooks::HookVec'
POOLERR = 'deadpool::managed::errors::PoolError'
TIMEOUT_TYPE = 'deadpool::managed::errors::TimeoutType'


# any of these on Hooks.<list>.vec identifies the list a registration method feeds (R04.3 then insists on push)
VEC_MUTATORS = ('push', 'insert', 'extend', 'append', 'extend_from_slice', 'push_within_capacity', 'splice')


def hook_roles(ctx, r):
    """bind pre_recycle / post_recycle / post_create fields of Hooks through the public builder methods"""
    out = {}
    for api in ('pre_recycle', 'post_recycle', 'post_create'):
        b = ctx.prog.body('deadpool::managed::builder::PoolBuilder::' + api)
        if b is None:
            raise Undecided('PoolBuilder::%s not found' % api)
        an = ctx.prog.an(b)
        fld = None
        for blk in b.blocks:
            if blk.term.kind == 'call' and blk.term.rcallee and not blk.cleanup and \
                    (strip_generics(blk.term.rcallee) == HOOKVEC + '::push' or
                     strip_generics(blk.term.rcallee).rsplit('::', 1)[0] == 'std::vec::Vec' and strip_generics(blk.term.rcallee).rsplit('::', 1)[1] in VEC_MUTATORS):
                for s in sources(an, blk.term.args[0]):
                    if s[0] == 'field' and s[1].startswith(r.HOOKS + '.'):
                        fld = s[1].split('.')[-1]
        if not fld:
            raise Undecided('cannot bind the hook list pushed by PoolBuilder::%s' % api)
        out[api] = fld
    if len(set(out.values())) != 3:
        ctx.ob('R04.0', 'each public registration method feeds its own hook list', False, '',
               'PoolBuilder registration methods share a hook list: %s (hooks registered as one kind would run as another)' % out,
               construct='hook-registration-not-distinct')
        raise Undecided('hook roles are not distinct: %s' % out)
    ctx.ob('R04.0', 'each public registration method feeds its own hook list', True, '', '', construct='hook-registration-not-distinct', sites=sorted(out.items()))
    return out


def apply_calls(prog, r, b, field):
    """blocks calling HookVec::apply on Hooks.<field> (the constructor call of the future)"""
    an = prog.an(b)
    out = []
    for blk in b.blocks:
        t = blk.term
        if t.kind == 'call' and t.rcallee and strip_generics(t.rcallee) == HOOKVEC + '::apply' and t.args:
            if ('field', '%s.%s' % (r.HOOKS, field)) in sources(an, t.args[0]):
                out.append(blk)
    return out


def vacuous_hook_blocks(prog, r, b, field):
    """blocks at which the hooks of Hooks.<field> have been applied vacuously: the arm of a test `list.is_empty()` (on that very
    list) on which the list is empty - applying an empty list calls nothing and succeeds"""
    an = prog.an(b)
    out = []
    for blk in b.blocks:
        t = blk.term
        if t.kind != 'switch' or blk.cleanup or t.j.get('dty') != 'bool' or t.discr.kind == 'const' or t.discr.place.proj:
            continue
        neg = False
        l = t.discr.place.local
        hit = False
        for _ in range(8):
            d = an.single_def(l)
            if d is None:
                break
            if d[0] == 'stmt':
                rv = d[3].rv
                if rv.kind == 'use' and rv.ops[0].kind != 'const' and not rv.ops[0].place.proj:
                    l = rv.ops[0].place.local; continue
                if rv.kind == 'un' and rv.binop == 'Not' and rv.ops[0].kind != 'const' and not rv.ops[0].place.proj:
                    neg = not neg; l = rv.ops[0].place.local; continue
                break
            tt = d[3]
            if tt.args and any(n.split('::')[-1] == 'is_empty' and (n.startswith('std::vec::Vec') or n.startswith('core::slice') or n.startswith('std::slice') or strip_generics(n) == HOOKVEC + '::is_empty') for n in tt.callee_names()):
                if ('field', '%s.%s' % (r.HOOKS, field)) in sources(an, tt.args[0]):
                    hit = True
            break
        if hit:
            arms = dict(t.switch_arms())
            tgt = arms.get('false' if neg else 'true')
            if tgt is not None:
                out.append(b.blocks[tgt])
    return out


def hook_steps(prog, r, b, field):
    """(apply call blocks, vacuous blocks) of the hook list `field` in body b"""
    return apply_calls(prog, r, b, field), vacuous_hook_blocks(prog, r, b, field)


def completion_block(an, b, ctor_blk):
    """the block where the awaited future created at ctor_blk has completed (Ready arm of its poll)"""
    # find poll switch blocks (adt Poll) reachable from ctor before any other constructor; take the first one dominated by ctor
    best = None
    for blk in b.blocks:
        t = blk.term
        if t.kind == 'switch' and t.j.get('adt') == 'std::task::Poll' and an.dominates(ctor_blk.idx, blk.idx):
            if best is None or an.dominates(blk.idx, best.idx):
                best = blk
    if best is None:
        return None
    return dict(best.term.switch_arms()).get('Ready')


def run(ctx):
    r = roles(ctx)
    prog = ctx.prog
    H = hook_roles(ctx, r)
    for k, v in H.items():
        ctx.role('HOOK.' + k, '%s.%s' % (r.HOOKS, v))
    recs = [prog.bodies[p] for p in r.GETTER if manager_calls(prog.bodies[p], MANAGER_RECYCLE)]
    cres = [prog.bodies[p] for p in r.GETTER if manager_calls(prog.bodies[p], MANAGER_CREATE)]
    if len(recs) != 1 or len(cres) != 1:
        raise Undecided('recycler/creator not unique: %d/%d' % (len(recs), len(cres)))
    rec, cre = recs[0], cres[0]
    ctx.role('M.RECYCLER', rec.name); ctx.role('M.CREATOR', cre.name)
    ctx.saw(rec); ctx.saw(cre)

    # ---- R04.1 step order -------------------------------------------------------
    def steps_of(b, spec):
        """[(name, occurrences, vacuous occurrences)]: a step may occur at several places as long as no path runs through two
        of them (an early return for a case in which the remaining steps are no-ops)"""
        an = prog.an(b)
        out = []
        for name, finder in spec:
            blks = finder(b, an)
            vac = []
            if isinstance(blks, tuple):
                blks, vac = blks
            allb = list(blks) + list(vac)
            twice = [(x.idx, y.idx) for x in allb for y in allb if x.idx != y.idx and y.idx in an.reach_after(x.idx, ('normal',))]
            if not blks or twice:
                ctx.ob('R04.1', 'step `%s` occurs exactly once in %s' % (name, b.name.split('::')[-2]), False, ctx.where(b),
                       '%d occurrences%s' % (len(blks), ', two of them on one path' if twice else ''), construct='step-count:%s:%s' % (b.name, name))
                return None
            out.append((name, list(blks), list(vac)))
        return out

    def ready_calls(b, an):
        return [blk for blk in b.blocks if blk.term.kind == 'call' and blk.term.args and blk.term.args[0].kind == 'move'
                and adt_of(b.locals[blk.term.args[0].place.local]['ty']) == r.UNREADY
                and not b.locals[blk.term.args[0].place.local]['ty'].startswith('&')
                and blk.term.dest is not None and adt_of(b.locals[blk.term.dest.local]['ty']) == r.OBJINNER and not blk.cleanup]

    def size_inc(b, an):
        return [b.blocks[bb] for bb, i, s in r.field_writes(b, r.SLOTS, r.SIZE) if classify_write(an, s)[0] == '+=']

    def metric_writes(b, an):
        bbs = []
        for blk in b.blocks:
            for s in blk.stmts:
                if s.kind == 'assign' and s.place.proj and s.place.last_field() and s.place.last_field()[0] == 'deadpool::managed::metrics::Metrics':
                    if blk not in bbs:
                        bbs.append(blk)
        return bbs

    rec_spec = [
        ('pre_recycle hooks', lambda b, an: hook_steps(prog, r, b, H['pre_recycle'])),
        ('Manager::recycle', lambda b, an: manager_calls(b, MANAGER_RECYCLE)),
        ('post_recycle hooks', lambda b, an: hook_steps(prog, r, b, H['post_recycle'])),
        ('ready()', ready_calls),
    ]
    cre_spec = [
        ('Manager::create', lambda b, an: manager_calls(b, MANAGER_CREATE)),
        ('size += 1', size_inc),
        ('post_create hooks', lambda b, an: hook_steps(prog, r, b, H['post_create'])),
        ('ready()', ready_calls),
    ]
    for b, spec in ((rec, rec_spec), (cre, cre_spec)):
        an = prog.an(b)
        steps = steps_of(b, spec)
        if not steps:
            continue
        ok_e, fail_e = success_edges(an)
        for (n1, occ1, vac1), (n2, occ2, vac2) in zip(steps, steps[1:]):
            # every occurrence of the later step lies behind some occurrence of the earlier one (must-pass; one occurrence each
            # = dominance)
            avoid1 = [x.idx for x in occ1 + vac1]
            esc = an.reach([0], ('normal',), avoid=avoid1)
            for b2 in occ2:
                dom = b2.idx not in esc and b2.idx not in [x.idx for x in occ1]
                ctx.ob('R04.1', '%s precedes %s' % (n1, n2), dom, ctx.where(b, b2.term.line),
                       '`%s` is not dominated by `%s`' % (n2, n1) if not dom else '', construct='order:%s:%s<%s' % (b.name.split('::')[-2], n1, n2),
                       sites=[ctx.where(b, x.term.line) for x in occ1] + [ctx.where(b, b2.term.line)])
                if n1 == 'size += 1':
                    continue
                # the later step is reachable from the earlier one only through a success edge (a vacuous occurrence - an empty
                # hook list - cannot fail)
                viaok = True
                for b1 in occ1:
                    reach = reach_without_edges(an, b1.idx, ok_e, ('normal',))
                    if b2.idx in reach:
                        viaok = False
                ctx.ob('R04.1', '%s only after %s succeeded' % (n2, n1), viaok, ctx.where(b, b2.term.line),
                       '`%s` is reachable from `%s` without passing the success branch of a Result test: a failure of %s is ignored' % (n2, n1, n1)
                       if not viaok else '', construct='success-gate:%s:%s->%s' % (b.name.split('::')[-2], n1, n2))
        # hooks receive the wrapped object (same object as recycle / ready)
    # the timeout wrappers: TimeoutType constant and per-call duration (shared with C10)
    for b, mcall, tt, fld in ((rec, MANAGER_RECYCLE, 'Recycle', 'recycle'), (cre, MANAGER_CREATE, 'Create', 'create')):
        an = prog.an(b)
        ats = [blk for blk in b.blocks if blk.term.kind == 'call' and blk.term.rcallee and strip_generics(blk.term.rcallee) == r.TIMEOUT_WRAPPER_FN]
        ok = False; detail = 'no apply_timeout call wraps %s' % mcall.split('::')[-1]
        for a in ats:
            srcs = [sources(an, x) for x in a.term.args]
            if len(srcs) >= 4 and any(s[0] == 'call' and s[1] == mcall for s in srcs[3]):
                t_ok = ('agg', TIMEOUT_TYPE + '::' + tt) in {(s[0], s[1]) for s in srcs[1] if s[0] == 'agg'}
                # followed through the parameters of async helpers (a helper may take `timeouts.recycle` instead of `&Timeouts`)
                d_ok = any(s[0] == 'field' and s[1] == 'deadpool::managed::config::Timeouts.' + fld for s in sources_across(prog, b, a.term.args[2], deep=True))
                ok = t_ok and d_ok
                detail = 'TimeoutType ok=%s, duration from timeouts.%s ok=%s' % (t_ok, fld, d_ok)
        ctx.ob('R04.1', 'Manager::%s runs under apply_timeout(TimeoutType::%s, timeouts.%s)' % (mcall.split('::')[-1], tt, fld), ok,
               ctx.where(b), detail if not ok else '', construct='timeout-wrap:' + tt)

    # ---- R04.2 the handed-out Object comes from ready() ---------------------------
    root = r.TIMEOUT_GET
    an = prog.an(root)
    ctx.saw(root)
    objs = []
    for b in managed_bodies(prog):
        for blk in b.blocks:
            for s in blk.stmts:
                if s.kind == 'assign' and s.rv.kind == 'agg' and s.rv.j.get('adt') == r.OBJECT:
                    objs.append((b, blk, s))
    ctx.ob('R04.2', 'Object is constructed at exactly one site, in timeout_get', len(objs) == 1 and objs[0][0].path == root.path,
           ctx.where(objs[0][0], objs[0][2].line) if objs else '', '%d sites' % len(objs), construct='object-construct')
    if len(objs) == 1 and objs[0][0].path == root.path:
        b, blk, s = objs[0]
        fields = dict(zip(s.rv.j['fields'], s.rv.ops))
        src = sources(an, fields['inner'])
        calls = {x[1] for x in src if x[0] == 'call'}
        allowed = {rec.path, cre.path, strip_generics(rec.path), strip_generics(cre.path)}
        # with the recycler / creator inlined the origin is the ready() call itself
        allowed |= {strip_generics(x.term.rcallee) for x in ready_calls(root, an)}
        extra = {c for c in calls if c not in allowed and 'VecDeque::pop' not in c}
        # an object popped from the queue must not flow into the Object directly
        direct_pop = any('VecDeque::pop' in c for c in calls)
        ctx.ob('R04.2', 'handed-out object originates only from the recycler / creator results', not extra and not direct_pop and bool(calls & allowed),
               ctx.where(b, s.line), 'origins: %s' % sorted(calls), construct='object-origin', sites=sorted(calls))
    for b in (rec, cre):
        if b.path == root.path:
            continue
        ban = prog.an(b)
        for bb, cls, det in ban.ret_assignments():
            if cls != 'ok':
                continue
            st = [x for x in b.blocks[bb].stmts if x.kind == 'assign' and x.place.local == 0 and x.place.is_local()][-1]
            src = sources(ban, st.rv.ops[0])
            somes = [x for x in src if x[0] == 'agg' and x[1] == 'std::option::Option::Some']
            if not somes:
                continue  # Ok(None)
            calls = {x[1] for x in src if x[0] == 'call'}
            rd = {strip_generics(blk.term.rcallee) for blk in ready_calls(b, ban)}
            ok = bool(calls) and calls <= rd
            ctx.ob('R04.2', 'Ok(Some(obj)) carries the result of ready()', ok, ctx.where(b, st.line),
                   'value origins: %s' % sorted(calls) if not ok else '', construct='ready-origin:' + b.name.split('::')[-2])

    # ---- R04.3 hooks: registration order, stop at first failure ----------------------
    ap = prog.body(HOOKVEC + '::apply::{closure#0}')
    if ap is None:
        ctx.undecide('R04.3', 'HookVec::apply body not found')
    else:
        ctx.saw(ap)
        aan = prog.an(ap)
        names = set()
        for blk in ap.blocks:
            names |= blk.term.callee_names() if blk.term.kind == 'call' else set()
        fwd = any(n.endswith('IntoIterator::into_iter') or n.endswith('::iter') for n in names) and \
            any(n.startswith('<std::slice::Iter') and n.endswith('::next') for n in names)
        rev = any('rev' in n.split('::')[-1] or n.endswith('::next_back') or 'Rev<' in n for n in names)
        ctx.ob('R04.3', 'hooks are iterated forward over the vector', fwd and not rev, ctx.where(ap),
               'iterator calls: %s' % sorted(n for n in names if 'iter' in n.lower()), construct='hooks-order')
        hcalls = [blk for blk in ap.blocks if is_dyn_call(blk.term) and not blk.cleanup]
        # a per-hook async helper (`hook.call(inner).await?`): its poll is the invocation site here; the dyn calls are inside
        helper_polls = []
        for blk in ap.blocks:
            cb_ = prog.bodies.get(blk.term.rcallee) if blk.term.kind == 'call' and not blk.cleanup and blk.term.rcallee else None
            if cb_ is not None and cb_.is_coroutine and cb_.path != ap.path and any(is_dyn_call(x.term) and not x.cleanup for x in cb_.blocks):
                helper_polls.append(blk)
                ctx.saw(cb_)
        n_inv = len(hcalls) + sum(len([x for x in prog.bodies[h.term.rcallee].blocks if is_dyn_call(x.term) and not x.cleanup]) for h in helper_polls)
        hcalls = hcalls + helper_polls
        ctx.floor('R04.3', 'hook invocations in HookVec::apply', n_inv, 2)
        # every hook of the list is invoked: from the Some arm of the iterator's next() no path returns to next() (or to the
        # successful end) without having invoked the element
        nxt = [blk for blk in ap.blocks if blk.term.kind == 'call' and not blk.cleanup and any(n.endswith('::next') and 'Iter' in n for n in blk.term.callee_names())]
        for nx in nxt:
            sws_ = [blk for blk in ap.blocks if blk.term.kind == 'switch' and blk.term.j.get('adt') == 'std::option::Option' and 'on' in blk.term.j and
                    any(s_[0] == 'call' and s_[2] == nx.idx for s_ in sources(aan, Operand({'c': blk.term.j['on']})))]
            for sw_ in sws_:
                some = dict(sw_.term.switch_arms()).get('Some')
                if some is None:
                    continue
                esc = aan.reach([some], ('normal',), avoid=[h.idx for h in hcalls])
                okret = [bb for bb, cls, det in aan.ret_assignments() if cls == 'ok' and bb in esc]
                skipped = nx.idx in esc or bool(okret)
                ctx.ob('R04.3', 'every registered hook is invoked (no element of the list is skipped)', not skipped, ctx.where(ap, sw_.term.line),
                       'a path from taking the next hook back to the loop head (or to Ok) does not invoke it: a verifying hook can be bypassed' if skipped else '', construct='hooks-skip')
        # a hook invoked outside the walk over the list (a fast path returning its result directly) runs instead of the walk: that
        # is the whole list only under a test that the list has exactly one element
        for h in hcalls:
            if in_cycle(aan, h.idx):
                continue
            one = False
            for (op_, lhs_, rhs_, swb_) in governing_conditions(aan, h.idx):
                if op_ != 'Eq':
                    continue
                for x_, y_ in ((lhs_, rhs_), (rhs_, lhs_)):
                    if aan.resolve_operand(y_) == '1_usize' and x_.kind != 'const' and \
                            any(s_[0] == 'field' and s_[1] == HOOKVEC + '.vec' for s_ in sources(aan, x_, deep=True)):
                        one = True
            ctx.ob('R04.3', 'a hook invoked outside the walk over the list is the only hook registered', one, ctx.where(ap, h.term.line),
                   'this invocation is not part of the loop and not governed by `len == 1`: its result ends the run although further hooks may be registered' if not one else '',
                   construct='hooks-skip')
        ok_e, fail_e = success_edges(aan)
        for h in hcalls:
            reach = reach_without_edges(aan, h.idx, ok_e, ('normal',))
            # polling the same helper future again (Pending -> yield -> poll) is not a further hook
            again = [x.idx for x in hcalls if x.idx in reach and not (x.idx == h.idx and h in helper_polls)]
            ctx.ob('R04.3', 'no further hook after a failing hook', not again, ctx.where(ap, h.term.line),
                   'a hook call at line(s) %s is reachable without passing the success branch of this hook' % [ap.blocks[x].term.line for x in again]
                   if again else '', construct='hooks-continue-after-error')
            rets = [bb for bb, cls, det in aan.ret_assignments() if cls == 'ok' and bb in reach]
            ctx.ob('R04.3', 'a failing hook is not reported as success', not rets, ctx.where(ap, h.term.line), '', construct='hooks-swallow-error')
        # the vector is only ever extended by push
        for b in managed_bodies(prog):
            ban = prog.an(b)
            for blk in b.blocks:
                t = blk.term
                if t.kind != 'call' or not t.args or blk.cleanup:
                    continue
                if not any(n.startswith('std::vec::Vec::') or n.startswith('<std::vec::Vec') for n in t.callee_names()):
                    continue
                if ('field', HOOKVEC + '.vec') in sources(ban, t.args[0]) or any(s[0] == 'field' and s[1].startswith(HOOKVEC + '.') for s in sources(ban, t.args[0])):
                    meth = sorted(t.callee_names())[0].split('::')[-1]
                    a0 = t.args[0]
                    shared = a0.kind != 'const' and not a0.place.proj and b.locals[a0.place.local]['ty'].startswith('&') and not b.locals[a0.place.local]['ty'].startswith('&mut ')
                    # a method taking `&Vec` cannot change which hooks are registered; of the `&mut` ones only push may be used
                    ok = meth in ('push', 'len', 'is_empty', 'iter', 'new', 'deref', 'fmt') or shared
                    ctx.ob('R04.3', 'hook vector only extended with push', ok, ctx.where(b, t.line), 'Vec::%s on the hook vector' % meth if not ok else '',
                           construct='hookvec-method:' + meth)

    # ---- R04.4 a rejected object stays owned by the wrapper and is never pushed back -----
    ran = prog.an(rec)
    n_fail = 0
    for bb, cls, det in ran.ret_assignments():
        st = [x for x in rec.blocks[bb].stmts if x.kind == 'assign' and x.place.local == 0 and x.place.is_local()]
        if not st:
            continue
        src = sources(ran, st[-1].rv.ops[0])
        if any(x[0] == 'agg' and x[1] == 'std::option::Option::Some' for x in src):
            continue
        n_fail += 1
        held = held_locals(ran, bb, r.UNREADY)
        ctx.ob('R04.4', 'rejected object still owned by the wrapper at the failure exit', bool(held), ctx.where(rec, st[-1].line),
               'the wrapper is gone at this exit: the rejected object would not be detached / its slot not released' if not held else '',
               construct='reject-unowned')
    ctx.floor('R04.4', 'failure exits of the recycler', n_fail, 3)
    for b in managed_bodies(prog):
        ban = prog.an(b)
        for blk, m in queue_calls(r, b, ban):
            if m.startswith('push') or m in ('insert', 'extend', 'append'):
                ok = b.path in {h.path for h in r.RETURN}
                if not ok and len(blk.term.args) > 1:
                    # putting back an element that this very function took out of the queue (a walk that pops and re-inserts)
                    # lets nothing in: the object was idle before
                    pops_ = {x.idx for x, m2 in queue_calls(r, b, ban) if m2.startswith('pop') or m2 in ('remove', 'drain')}
                    src_ = sources(ban, blk.term.args[1], deep=True)
                    if pops_ and any(x_[0] == 'call' and x_[2] in pops_ for x_ in src_) and not any(x_[0] in ('arg', 'upvar') for x_ in sources(ban, blk.term.args[1])):
                        ok = True
                ctx.ob('R04.4', 'objects enter the idle queue only through the return path', ok, ctx.where(b, blk.term.line),
                       '%s pushes to the idle queue' % b.name if not ok else '', construct='queue-push:' + b.name, sites=[ctx.where(b, blk.term.line)])

    # ---- R04.5 error surface ----------------------------------------------------------
    cons = {}
    for p in r.GETTER:
        b = prog.bodies[p]
        ban = prog.an(b)
        for blk in b.blocks:
            if blk.cleanup:
                continue
            for s in blk.stmts:
                if s.kind == 'assign' and s.rv.kind == 'agg' and s.rv.j.get('adt') == POOLERR:
                    v = s.rv.j['variant']
                    arg = ban.resolve_operand(s.rv.ops[0]) if s.rv.ops else ''
                    cons.setdefault(b.path, []).append((v, arg, s.line))
    def variants(path):
        # (one entry per construction written in the source: jump threading may have cloned the block that holds it)
        return sorted(v + ('(' + a.split('{')[0] + ')' if v == 'Timeout' else '') for v, a, _ in sorted(set(cons.get(path, []))))
    got_rec = variants(rec.path)
    ctx.ob('R04.5', 'recycler constructs no error except NoRuntimeSpecified', set(got_rec) <= {'NoRuntimeSpecified'}, ctx.where(rec),
           'constructs %s' % got_rec, construct='errors:recycler', sites=got_rec)
    got_cre = variants(cre.path)
    ctx.ob('R04.5', 'creator constructs exactly PostCreateHook', got_cre == ['PostCreateHook'], ctx.where(cre), 'constructs %s' % got_cre,
           construct='errors:creator', sites=got_cre)
    # PostCreateHook carries the hook's error
    for v, a, line in cons.get(cre.path, []):
        pass
    at = r.TIMEOUT_WRAPPER
    if at is not None:
        ctx.saw(at)
        got = variants(at.path)
        tt_names = at.upvars_where(lambda ty: ty.endswith('::TimeoutType'))
        ok = len(tt_names) == 1 and sorted(set(got)) == ['NoRuntimeSpecified', 'Timeout(%s)' % sorted(tt_names)[0]]
        ctx.ob('R04.5', 'apply_timeout constructs Timeout(<its argument>) and NoRuntimeSpecified only', ok, ctx.where(at), 'constructs %s' % got,
               construct='errors:apply_timeout', sites=got)
    acquire_error_mapping(ctx, r, cons, 'R04.5')
    # TimeoutType at the wait site
    ats = [blk for blk in root.blocks if blk.term.kind == 'call' and blk.term.rcallee and strip_generics(blk.term.rcallee) == r.TIMEOUT_WRAPPER_FN]
    for a in ats:
        srcs = [sources(an, x) for x in a.term.args]
        wraps_acquire = any(s[0] == 'closure' and s[1] in prog.bodies and calls_named(prog.bodies[s[1]], ['tokio::sync::Semaphore::acquire']) for s in srcs[3])
        if not wraps_acquire:
            continue
        tts = sorted(s[1].split('::')[-1] for s in srcs[1] if s[0] == 'agg')
        durs = sorted(str(s[1]) for s in sources_across(prog, root, a.term.args[2], deep=True) if s[0] in ('field', 'upvar'))
        ok = tts == ['Wait'] and any(d == 'deadpool::managed::config::Timeouts.wait' for d in durs)
        ctx.ob('R04.5', 'waiting for a slot runs under apply_timeout(TimeoutType::Wait, timeouts.wait)', ok, ctx.where(root, a.term.line),
               'TimeoutType %s, duration %s' % (tts, durs), construct='timeout-wrap:Wait')

    ctx.not_decided += ["what a concrete manager's recycle() considers healthy (C15-C17)"]
    ctx.assumptions += ['await desugaring: the Ready arm of the poll switch is the completion of the awaited future']


def pool_error_constructions(ctx, r):
    prog = ctx.prog
    cons = {}
    for p in r.GETTER:
        b = prog.bodies[p]
        ban = prog.an(b)
        for blk in b.blocks:
            if blk.cleanup:
                continue
            for s in blk.stmts:
                if s.kind == 'assign' and s.rv.kind == 'agg' and s.rv.j.get('adt') == POOLERR:
                    v = s.rv.j['variant']
                    arg = ban.resolve_operand(s.rv.ops[0]) if s.rv.ops else ''
                    cons.setdefault(b.path, []).append((v, arg, s.line))
    return cons


def acquire_error_mapping(ctx, r, cons, RULE):
    prog = ctx.prog
    # acquisition error mapping in the getter closures
    for p in r.GETTER:
        b = prog.bodies[p]
        if b.kind != 'Closure' or b.is_coroutine:
            continue
        ban = prog.an(b)
        sw = [blk for blk in b.blocks if blk.term.kind == 'switch' and blk.term.j.get('adt') == 'tokio::sync::TryAcquireError']
        for s in sw:
            for lab, tgt in s.term.switch_arms():
                if lab not in ('Closed', 'NoPermits'):
                    continue
                reach = ban.reach([tgt], ('normal',), avoid=[x for l2, x in s.term.switch_arms() if l2 != lab and x != tgt])
                made = sorted({v + ('(' + a.split('{')[0] + ')' if v == 'Timeout' else '') for v, a, line in cons.get(p, [])
                               if any(line == st.line for x in reach for st in b.blocks[x].stmts)})
                want = ['Closed'] if lab == 'Closed' else ['Timeout(TimeoutType::Wait)']
                ctx.ob(RULE, 'try_acquire %s maps to %s' % (lab, want[0]), made == want, ctx.where(b, s.term.line), 'constructs %s' % made,
                       construct='errors:try_acquire:' + lab, sites=made)
    # the blocking acquire maps its error to Closed: what consumes a `Result<SemaphorePermit, AcquireError>` - a `match` whose Err
    # arm builds the error, or `map_err(closure)` - builds exactly Closed for the failure.  (Where no such consumer is found
    # the whole body that calls acquire() is looked at, as before.)
    for p in r.GETTER:
        b = prog.bodies[p]
        if not calls_named(b, ['tokio::sync::Semaphore::acquire']):
            continue
        ban = prog.an(b)
        def is_acq_result(ty):
            return ty.startswith('std::result::Result<tokio::sync::SemaphorePermit<') and ty.rstrip('>').endswith('tokio::sync::AcquireError')
        verdicts = []
        for blk in b.blocks:
            t = blk.term
            if blk.cleanup:
                continue
            if t.kind == 'switch' and t.j.get('adt') == 'std::result::Result' and 'on' in t.j and is_acq_result(b.locals[t.j['on']['l']]['ty'] if not t.j['on']['pr'] else t.j['on'].get('ty', '')):
                arms = dict(t.switch_arms())
                if 'Err' in arms and 'Ok' in arms:
                    reach = ban.reach([arms['Err']], ('normal',), avoid=[arms['Ok']]) - ban.reach([arms['Ok']], ('normal',), avoid=[arms['Err']])
                    made = sorted({v + ('(' + a.split('{')[0] + ')' if v == 'Timeout' else '') for v, a, line in cons.get(p, []) if any(line == st.line for x in reach for st in b.blocks[x].stmts)})
                    verdicts.append((t.line, made))
            if t.kind == 'call' and any(n.endswith('Result::map_err') or n.endswith('Result::<T, E>::map_err') for n in t.callee_names()) and t.args and t.args[0].kind != 'const' and \
                    is_acq_result(b.locals[t.args[0].place.local]['ty']):
                cls_ = [s_[1] for s_ in sources(ban, t.args[1]) if s_[0] == 'closure'] if len(t.args) > 1 else []
                made = sorted({v for c_ in cls_ for v, a, l in cons.get(c_, [])} | {s_[1].split('::')[-1] for s_ in (sources(ban, t.args[1]) if len(t.args) > 1 else []) if s_[0] == 'const' and POOLERR in str(s_[1])})
                verdicts.append((t.line, made))
        # .. and is never discarded: `.ok()`, `and_then(Result::ok)`, `unwrap_or..`, `is_ok()` on the result of a waiting acquire
        # turn "the pool was closed" into whatever comes next - usually Timeout
        DISCARD = {'std::result::Result::ok', 'std::result::Result::unwrap_or', 'std::result::Result::unwrap_or_default', 'std::result::Result::unwrap_or_else', 'std::result::Result::is_ok', 'std::result::Result::is_err'}
        for blk in b.blocks:
            t = blk.term
            if t.kind != 'call' or blk.cleanup or not t.args:
                continue
            direct = bool(t.callee_names() & DISCARD)
            by_name = any(a.kind == 'const' and a.const.get('fn') and strip_generics(a.const.get('rfn') or a.const['fn']) in DISCARD for a in t.args)
            if (direct or by_name) and any(q[0] == 'call' and q[1] in ('tokio::sync::Semaphore::acquire', 'tokio::sync::Semaphore::acquire_many', 'tokio::sync::Semaphore::acquire_owned')
                                           for q in sources(ban, t.args[0], deep=True)):
                ctx.ob(RULE, 'the error of a waiting acquire (the pool was closed) is mapped, never discarded', False, ctx.where(b, t.line),
                       '%s drops the AcquireError: a waiter woken by close() is told something other than Closed' % sorted(t.callee_names())[0], construct='errors:acquire-discarded')
        if verdicts:
            for line, made in verdicts:
                ctx.ob(RULE, 'acquire error maps to Closed', made == ['Closed'], ctx.where(b, line), 'the failure of the waiting acquire builds %s' % made, construct='errors:acquire')
        else:
            cl = [c for bb, c, k in prog.callgraph().get(p, []) if k == 'closure']
            made = sorted({v for c in cl for v, a, l in cons.get(c, [])} | {v for v, a, l in cons.get(p, [])})
            ctx.ob(RULE, 'acquire error maps to Closed', made == ['Closed'], ctx.where(b), 'constructs %s' % made, construct='errors:acquire')
